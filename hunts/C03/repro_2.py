# Defect 2: 'pmovmskb eax, xmm0' is assembled as the MMX form 0F D7 C0
# (= pmovmskb eax, mm0); the SSE2 encoding 66 0F D7 C0 is never produced.
from common import *
print([c.hex() for c in asm('pmovmskb eax, xmm0')], [c.hex() for c in asm('pmovmskb eax, mm0')])
assert render(bytes.fromhex('0fd7c0')).split() == ['pmovmskb', 'eax,', 'mm0']
check_fixpoint(bytes.fromhex('660fd7c0'), 'pmovmskb eax,xmm0')
