"""Shared helpers for the repro_<n>.py scripts (public API only)."""
import logging
logging.disable(logging.CRITICAL)
import miasmx
assert miasmx.__file__.startswith('/tmp/wth_C03/'), "wrong miasmx imported: %s" % miasmx.__file__
from miasmx.arch.ia32_arch import x86mnemo

def asm(line):
    return x86mnemo.asm(line)

def render(b):
    """Intel rendering of the disassembly of b; checks that exactly len(b) bytes are consumed"""
    i = x86mnemo.dis(b)
    assert i is not None, "disassembler rejects %s" % b.hex()
    assert i.l == len(b), "disassembler consumed %d of %d bytes of %s" % (i.l, len(b), b.hex())
    return str(i)

def roundtrip(b):
    """returns (rendering, candidates of re-assembling the rendering)"""
    s = render(b)
    return s, asm(s)

def check_fixpoint(b, why=''):
    s, c = roundtrip(b)
    assert b in c, "%s: %s renders as %r which re-assembles to %s, not containing the original bytes" % (
        why, b.hex(), s, [x.hex() for x in c])
    return s, c
