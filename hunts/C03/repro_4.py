# Defect 4: 'in al, dx' / 'out dx, al' only assemble to the 66-prefixed forms;
# the canonical one-byte encodings EC / EE are never produced.
from common import *
assert asm('in eax, dx') == [b'\xed']          # fine
print('in al, dx  ->', [c.hex() for c in asm('in al, dx')])
print('out dx, al ->', [c.hex() for c in asm('out dx, al')])
check_fixpoint(b'\xec', 'in al,dx')            # 'in al, dx' -> ['66ec'] : EC missing
check_fixpoint(b'\xee', 'out dx,al')
