# Defect 5: 16-bit moves from/to a segment register cannot be assembled any more
# (regression of commit 416f045 "fix: 'out dx, eax' ..." for 'mov ax, es';
#  'mov es, ax' never worked).
from common import *
assert asm('mov eax, es') == [b'\x8c\xc0']
print('mov ax, es ->', asm('mov ax, es'), ' mov es, ax ->', asm('mov es, ax'))
check_fixpoint(bytes.fromhex('668cc0'), 'mov ax,es')   # rendering 'mov ax, es' -> []
