# Further violations (not counted in the 8), one line each. Exits non-zero if any fails.
from common import *
fails = []
def fp(h, why):
    b = bytes.fromhex(h)
    try:
        s = render(b); c = asm(s)
        if b not in c: fails.append('%-28s %s -> %r -> %s' % (why, h, s, [x.hex() for x in c][:3]))
    except Exception as e:
        fails.append('%-28s %s -> %s: %s' % (why, h, type(e).__name__, str(e).split('\n')[0][:70]))
def line(l, why):
    n = len(fails)
    for b in asm(l):
        fp(b.hex(), '%s [%s]' % (why, l))
        if len(fails) > n: break      # report the first failing candidate only
fp('d8d1',     'B fcom st(1)')
fp('d8d9',     'B fcomp st(1)')
fp('f20fd6c1', 'C movdq2q mm0,xmm1')
fp('f30fd6c1', 'C movq2dq xmm0,mm1')
fp('669c',     'D pushfw')
fp('6660',     'D pushaw')
fp('66cf',     'D iretw')
fp('66c9',     'D leavew')
fp('66c20400', 'D retw 4')
fp('6606',     'D pushw es')
line('xchg ax, ax',                     'D 66 90 rendered nop')
line('pinsrw xmm0, WORD PTR [eax], 3',  'E doubled 66')
line('pmovsxbq xmm2, WORD PTR [ebx+4]', 'E doubled 66')
line('repz ret',                        'F rep; ret')
fp('670011',   'G addr16 [bx+di]')
fp('67a10010', 'G addr16 moffs16')
fp('66f00111', 'H lock/66 order')
fp('0ffc0511223344', 'I mmx abs operand')
line('addsd ax, ax',                    'J SSE accepts GPR')
print('\n'.join(fails))
assert not fails
