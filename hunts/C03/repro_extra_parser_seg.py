# Extra A: grammar rule 'address : opt_seg_colon expression' (parse_ad.py).
# (a) 'seg:disp' without size keyword is an *immediate* carrying a segment, so
#     'mov eax, fs:16' becomes  64 B8 10 00 00 00  (mov eax,16 + stray prefix)
# (b) 'seg:[...]' without size keyword is a syntax error, but that is exactly what
#     the renderer prints for prefetch*/cmpxchg8b/lea/fxsave-like operands.
from common import *
errors = []
# (a)
for b in asm('mov eax, fs:16'):
    s, c = roundtrip(b)
    print(b.hex(), repr(s), [x.hex() for x in c][:3])
    if b not in c: errors.append('(a) %s -> %r -> not reproduced' % (b.hex(), s))
# (b)
for line in ['prefetchnta BYTE PTR fs:[eax]', 'lock cmpxchg8b QWORD PTR fs:[eax]']:
    b = asm(line)[0]
    s = render(b)
    try:
        c = asm(s)
        if b not in c: errors.append('(b) %r' % s)
    except ValueError as e:
        errors.append('(b) rendering %r of %s is rejected by the assembler' % (s, b.hex()))
print('\n'.join(errors))
assert not errors
