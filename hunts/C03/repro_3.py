# Defect 3: 16-bit operand size + sign-extended imm8 (83 /r ib, 6B /r ib, 6A ib):
# rendered as an unsigned 16-bit value that the Intel-syntax assembler does not
# recognise as imm8-encodable.
from common import *
assert bytes.fromhex('6683d0ff') in asm('adc ax, -1')
assert bytes.fromhex('6683d0ff') in x86mnemo.asm_att('adcw $65535, %ax')   # AT&T path is fine
for h in ['6683d0ff', '6683f880', '666b00ff', '666aff']:
    print(h, roundtrip(bytes.fromhex(h))[0])
check_fixpoint(bytes.fromhex('6683d0ff'), 'adc ax,0xffff')
