# Defect 1: a decoded MMX/SSE instruction that carries a segment-override (or lock)
# prefix cannot be rendered: str() raises ValueError (no 66/F2/F3 prefix present),
# and some forms already make dis() raise NameError.
from common import *
line = 'movaps XMMWORD PTR fs:[ebx+148], xmm1'
cands = asm(line)                      # the assembler accepts the line ...
assert cands and cands[0] == bytes.fromhex('640f298b94000000')   # ... = GNU as encoding
b = cands[0]
i = x86mnemo.dis(b)
assert i is not None and i.l == len(b)
try:
    s = str(i)                         # ValueError: 100 is not in list
except ValueError as e:
    print('str(dis(%s)) raises %r' % (b.hex(), e))
    # second manifestation, inside dis():
    b2 = asm('movd xmm2, DWORD PTR fs:[eax]')[0]
    try: x86mnemo.dis(b2)
    except NameError as e2: print('dis(%s) raises %r' % (b2.hex(), e2))
    raise
assert b in asm(s)
