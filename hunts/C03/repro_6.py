# Defect 6: far direct call/jmp (9A / EA ptr16:32): the disassembler prints
# "offset, segment" but the assembler reads "segment, offset".
from common import *
b = asm('call 16, 32')[0]
assert b == bytes.fromhex('9a200000001000')          # call 0x10:0x20 (seg=0x10, off=0x20)
s, c = roundtrip(b)
print(repr(s), [x.hex() for x in c])                 # 'call 32, 16' -> 9a100000002000 = call 0x20:0x10
assert b in c, "call: %r re-assembles to %s" % (s, [x.hex() for x in c])
