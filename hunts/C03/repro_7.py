# Defect 7: a segment override on a string instruction (movs/cmps/lods/outs) or
# on xlat is dropped by the renderer, and explicit operands are ignored by the assembler.
from common import *
for h in ['64a5', '64ac', '64a6', '64d7', 'f364a5']:
    print(h, roundtrip(bytes.fromhex(h)))
# assembler side: the fs: operand is silently discarded
print(asm('movsd dword ptr es:[edi], dword ptr fs:[esi]'))
check_fixpoint(bytes.fromhex('64a5'), 'movs DWORD PTR es:[edi], DWORD PTR fs:[esi]')
