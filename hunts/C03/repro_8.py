# Defect 8: 'finit' assembles to 9B DB E3 but the disassembler consumes only the
# first byte (decodes 'wait'): "consumes exactly len(b) bytes" is violated.
from common import *
c = asm('finit')
assert c == [bytes.fromhex('9bdbe3')], c
i = x86mnemo.dis(c[0])
print(repr(str(i)), 'consumed', i.l, 'of', len(c[0]))
assert i.l == len(c[0]), "dis('9bdbe3') consumed %d byte(s) and rendered %r" % (i.l, str(i))
