# ppc_tlb checks only 9 of the 10 XO bits: XO 818 is claimed (and cannot be rendered),
# tlbld (978) / tlbli (1010) can never be decoded
from _common import *
errs = []
w = (31 << 26) | (818 << 1)                      # 7C000664: no PowerPC instruction has PO31/XO818
print('%08X' % w, claims(w))
if claims(w):
    errs.append("PO31/XO818 is claimed by %s" % claims(w))
    try:
        print(render(w))
    except Exception as e:
        errs.append("... and cannot be rendered: %r" % e)
for name, xo in (('TLBLD', 978), ('TLBLI', 1010)):
    w = (31 << 26) | (3 << 11) | (xo << 1)        # tlbld r3 / tlbli r3
    print('%08X' % w, name, claims(w))
    if claims(w) != ['ppc_tlb']:
        errs.append("%s (%08X) is in ppc_tlb.namedct but decodes to %s" % (name, w, claims(w)))
assert not errs, '; '.join(errs)
