# condition operands NS / SO are "symbol-replaced" by "0" (white list uses the ARM condition table)
from _common import *
for w in (0x40030010,   # bdnzf so, 0x10   -> 'BDNZ NS, 0x10'
          0x41030010,   # bdnzt so, 0x10   -> 'BDNZ SO, 0x10'
          0x4C030020):  # bdnzflr so       -> 'BLRDNZ NS'
    assert len(claims(w)) == 1 and ppc_mn(w).bin() == w
    t = render(w)
    try:
        w2 = assemble(t)
    except Exception as e:
        raise AssertionError("%08X renders as %r which cannot be assembled: %r" % (w, t, e))
    print('%08X -> %r -> %08X' % (w, t, w2))
    assert w2 == w, "%08X -> %r -> %08X" % (w, t, w2)
