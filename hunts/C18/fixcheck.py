from scan import *
import types
def rt(w):
    m = ppc_mn(w); s=str(m)
    try:
        return s, '%08X'%struct.unpack('>L', quiet(ppc_mn.asm, s)[0])[0]
    except Exception as e: return s, repr(e)
# 1 LK in bctr
og = P.ppc_bctr.getname
P.ppc_bctr.getname = lambda self: og(self)+('L' if self.lk else '')
oc = P.ppc_bctr.__dict__['check_opts'].__func__
P.ppc_bctr.check_opts = classmethod(lambda cls, rest: True if rest == 'L' else oc(cls, rest))
print(1, rt(0x4E800421), rt(0x4E800021), rt(0x4D820021), rt(0x4C000021))
# 4 CR operand
src = open('/tmp/wth_C18/miasmx/arch/ppc_arch.py').read()
import inspect
s = inspect.getsource(P.ppc_bctr.parse_args)
s2 = s.replace('if len(args) >1:', 'if args:')
import textwrap
ns = {}
exec(textwrap.dedent(s2), P.__dict__, ns); P.ppc_bctr.parse_args = ns['parse_args']
print(4, rt(0x4C840020), rt(0x4C040020), rt(0x4E840020))
# 3 'C' strip + 2 AL
s = inspect.getsource(P.ppc_bc.parse_opts)
s2 = s.replace("elif opts[0] =='C':\n            pass", "elif opts[0] =='C':\n            opts = opts[1:]")
s2 = s2.replace("""        if opts[0] == 'L':
            self.lk = 1
            opts = opts[1:]
        if not opts:
            return
        if opts == 'A':
            self.aa = 1""", """        if 'L' in opts: self.lk = 1
        if 'A' in opts: self.aa = 1""")
assert s2 != s
ns = {}
exec(textwrap.dedent(s2), P.__dict__, ns); P.ppc_bc.parse_opts = ns['parse_opts']
print(3, rt(0x42800011), rt(0x42800012))
s = inspect.getsource(P.ppc_bc.__dict__['check_opts'].__func__)
s = s[s.index('    def check_opts'):]
s2 = s.replace('["", "A", "L", "LA"]', '["", "A", "L", "LA", "AL"]')
ns = {}
exec(textwrap.dedent(s2), P.__dict__, ns); P.ppc_bc.check_opts = classmethod(ns['check_opts'])
print(2, rt(0x42800013), rt(0x40820013), rt(0x40000013))
# 5 NS/SO
P.bm_cond.n = P.bm_cond.n + ['NS','SO']
print(5, rt(0x40030010), rt(0x411F0010), rt(0x4C030020))
