import sys, struct, traceback
from scan import *
for a in sys.argv[1:]:
    w = int(a,16)
    print('%08X'%w, [c.__name__ for c in classes(w)])
    try:
        m = ppc_mn(w); s = str(m); print('  str:', repr(s), ' bin: %08X'%m.bin())
        r = quiet(ppc_mn.asm, s)[0]
        print('  asm: %08X'%struct.unpack('>L', r)[0])
    except Exception as e:
        print('  EXC', type(e).__name__, e)
