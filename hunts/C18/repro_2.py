# BO hint bits / ignored BO,BI bits are dropped by the renderer: distinct words -> same text
from _common import *
cases = [(0x40A20010, 0x40820010),  # bne with BO=00101 (y hint bit) vs BO=00100
         (0x41A20010, 0x41820010),  # beq, y hint bit
         (0x42200010, 0x42000010),  # bdnz, y hint bit (BO=10001 vs 10000)
         (0x42810010, 0x42800010),  # branch always, BI=1 vs BI=0
         (0x4EA00020, 0x4E800020)]  # blr with BO=10101 vs 10100
bad = []
for w, canon in cases:
    assert len(claims(w)) == 1 and ppc_mn(w).bin() == w
    t, w2 = roundtrip(w)
    print('%08X -> %r -> %08X' % (w, t, w2))
    if w2 != w:
        bad.append((w, t, w2))
assert not bad, "fixpoint broken for %s" % ', '.join('%08X->%r->%08X' % b for b in bad)
