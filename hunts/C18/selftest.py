from scan import *
import re
src = open('/tmp/wth_C18/miasmx/arch/ppc_arch.py').read()
txt = src.split('txt = """')[1].split('"""')[0].split('\n')[1:]
from miasmx.core.bin_stream import bin_stream
for t in txt:
    try:
        op1 = quiet(ppc_mn.asm, t)[0]
        w = struct.unpack('>L', op1)[0]
        m = ppc_mn.dis(bin_stream(op1))
        s = str(m)
        op2 = quiet(ppc_mn.asm, s)[0]
        if op1 != op2: print('MISMATCH', t, '%08X'%w, s, op2.hex())
    except Exception as e:
        print('EXC', repr(t), type(e).__name__, e)
