# LK bit of bclr/bcctr is never rendered: BCTRL / BLRL come back as BCTR / BLR
from _common import *
for w in (0x4E800421,   # bctrl  (indirect call)
          0x4E800021,   # blrl
          0x4D820021):  # beqlrl
    assert claims(w) == ['ppc_bctr']
    assert ppc_mn(w).bin() == w
    t, w2 = roundtrip(w)
    print('%08X -> %r -> %08X' % (w, t, w2))
    assert render(w) != render(w & ~1), "LK=1 and LK=0 render to the same text %r" % t
    assert w2 == w, "decode/render/assemble fixpoint broken: %08X -> %r -> %08X" % (w, t, w2)
