# FRSQRTE uses the A-form layout of FMUL (frA, frC) instead of (frB): the architectural encoding is not decoded
from _common import *
w = (63 << 26) | (1 << 21) | (2 << 11) | (26 << 1)        # FC201034  frsqrte f1, f2
print('%08X' % w, claims(w))
assert claims(w) == ['ppc_frsqrte'], "frsqrte f1,f2 (%08X) decodes to %s" % (w, claims(w))
