# XO 371 (mftb) is claimed by the MFSPR class and re-assembled as XO 339 (mfspr)
from _common import *
w = 0x7C6C42E6          # mftb r3 (TBL=268): PO 31, XO 371
assert claims(w) == ['ppc_mfspr']
m = ppc_mn(w)
assert m.bin() == w
t, w2 = roundtrip(w)
print('%08X -> %r -> %08X' % (w, t, w2))
assert not t.startswith('MFSPR'), "XO 371 is mftb, not mfspr: rendered %r" % t
assert w2 == w, "%08X -> %r -> %08X" % (w, t, w2)
