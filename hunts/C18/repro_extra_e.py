# FCMPU/FCMPO accept bit 31 (reserved, must be 0) as an Rc bit and invent the mnemonics "FCMPU." / "FCMPO."
from _common import *
w = 0xFC811001 | 0      # fcmpu cr1, f1, f2 with reserved bit 31 set
print('%08X' % w, claims(w), render(w))
assert claims(w) == [], "reserved-bit form decodes as %r" % render(w)
