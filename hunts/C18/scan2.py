from scan import *
import itertools
out = collections.defaultdict(list)
cnt = collections.Counter()
def rec(w):
    r = test(w)
    # collapse mnemonic
    k = r[:2] if r[0] in ('ok',) else r
    cnt[k]+=1
    if len(out[k])<4: out[k].append(w)
random.seed(7)
imms = [0,1,0x7fff,0x8000,0xffff,0x1234,0xfffc,4]
# D-forms etc: all PO x regs x imms
for po in range(64):
    for a in (0,1,31,5):
        for b in (0,1,31,7):
            for i in imms:
                rec((po<<26)|(a<<21)|(b<<16)|i)
    for _ in range(3000):
        rec((po<<26)|random.getrandbits(26))
# XO forms: random other bits
for po in (19,31,59,63):
    for xo in range(1024):
        for _ in range(40):
            rec((po<<26)|(random.getrandbits(15)<<11)|(xo<<1)|random.getrandbits(1))
# branches
for bo in range(32):
    for bi in range(32):
        for bd in (0,4,0x7ffc,0x8000,0xfffc):
            for aalk in range(4):
                rec((16<<26)|(bo<<21)|(bi<<16)|bd|aalk)
        for xo in (16,528):
            for lk in (0,1):
                rec((19<<26)|(bo<<21)|(bi<<16)|(xo<<1)|lk)
for li in (0,4,0x1fffffc,0x2000000,0x3fffffc,0x1234):
    for aalk in range(4):
        rec((18<<26)|li|aalk)
for k in sorted(out, key=str):
    print(k, cnt[k], ['%08X'%x for x in out[k]])
