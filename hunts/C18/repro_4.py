# bclr/bcctr: the CR-field operand is silently ignored by the assembler
from _common import *
for w in (0x4C840020,   # bgelr cr1      BO=00100 BI=4
          0x4D9E0420,   # beqctr cr7     BO=01100 BI=30
          0x4C040020):  # bdnzf 4*cr1+lt, lr
    assert claims(w) == ['ppc_bctr'] and ppc_mn(w).bin() == w
    t, w2 = roundtrip(w)
    print('%08X -> %r -> %08X' % (w, t, w2))
    assert w2 == w, "%08X renders as %r which assembles to %08X (CR field lost)" % (w, t, w2)
