# ppc_mn.dis() (the entry point used by the module's self-test) rejects bytes under Python 3
from _common import *
try:
    m = ppc_mn.dis(struct.pack('>L', 0x7D4A5214))     # exactly what the __main__ self-test does
except AttributeError as e:
    raise AssertionError("ppc_mn.dis(bytes) fails: %r" % e)
assert str(m) == 'ADD R10, R10, R10'
