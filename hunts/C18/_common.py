# shared helpers for the reproducers (public API only: ppc_mn(int), str(), .bin(), ppc_mn.asm(text))
import io, contextlib, struct
import miasmx
assert miasmx.__file__.startswith('/tmp/wth_C18/'), miasmx.__file__
from miasmx.arch.ppc_arch import ppc_mn, tab_mn

def claims(w):
    """names of the instruction classes whose mask accepts word w"""
    return [c.__name__ for c in tab_mn if c.check(w)]

def render(w):
    return str(ppc_mn(w))

def assemble(text):
    # ppc_mn.asm prints its input; keep the output quiet
    with contextlib.redirect_stdout(io.StringIO()):
        return struct.unpack('>L', ppc_mn.asm(text)[0])[0]

def roundtrip(w):
    """decode -> render -> assemble; returns (text, word)"""
    t = render(w)
    return t, assemble(t)
