from scan import *
for name, mk in (('bc', lambda bo,bi:(16<<26)|(bo<<21)|(bi<<16)|0x10), ('bclr', lambda bo,bi:(19<<26)|(bo<<21)|(bi<<16)|(16<<1))):
    for bi in (0,2,5):
        good=[];bad=[]
        for bo in range(32):
            r = test(mk(bo,bi))
            (good if r[0]=='ok' else bad).append((bo, r[0], str(ppc_mn(mk(bo,bi)))))
        print(name, 'bi=%d'%bi, 'ok BO:', [b for b,_,_ in good])
        for b in bad: print('    bad', b)
