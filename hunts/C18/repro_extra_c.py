# SC: the 24 reserved bits are decoded into an operand that the assembler then ignores
from _common import *
w = 0x44000802
assert claims(w) == ['ppc_sc'] and ppc_mn(w).bin() == w
t, w2 = roundtrip(w)
print('%08X -> %r -> %08X' % (w, t, w2))
assert w2 == w
