# MCRFS is attached to primary opcode 19; the architecture assigns it to primary opcode 63 (XO 64)
from _common import *
real = (63 << 26) | (1 << 23) | (2 << 18) | (64 << 1)    # FC880080  mcrfs cr1, cr2
bogus = (19 << 26) | (1 << 23) | (2 << 18) | (64 << 1)   # 4C880080  PO19/XO64 is not an instruction
print('%08X' % real, claims(real)); print('%08X' % bogus, claims(bogus), render(bogus))
assert claims(bogus) == [], "PO19/XO64 decodes as %r" % render(bogus)
assert claims(real) == ['ppc_mcrf']
