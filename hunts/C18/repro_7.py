# conditional branches with AA=1 and LK=1 are rendered with suffix "AL", the assembler only knows "LA"
from _common import *
for w in (0x40820013,   # bnela 0x10
          0x42800013,   # bcla 20,0,0x10
          0x42000013):  # bdnzla 0x10
    assert claims(w) == ['ppc_bc'] and ppc_mn(w).bin() == w
    t = render(w)
    try:
        w2 = assemble(t)
    except Exception as e:
        raise AssertionError("%08X renders as %r which cannot be assembled: %r" % (w, t, e))
    assert w2 == w, "%08X -> %r -> %08X" % (w, t, w2)
