# "BCL"/"BCA": the 'C' of the branch-always mnemonic is not consumed, so L / A are lost when assembling
from _common import *
for w in (0x42800011,   # BO=10100 BI=0 BD=0x10 LK=1
          0x42800012):  # AA=1
    assert claims(w) == ['ppc_bc'] and ppc_mn(w).bin() == w
    t, w2 = roundtrip(w)
    print('%08X -> %r -> %08X' % (w, t, w2))
    assert w2 == w, "%08X renders as %r which assembles to %08X" % (w, t, w2)
