import sys, io, contextlib, struct, random, collections
import miasmx
assert miasmx.__file__.startswith('/tmp/wth_C18'), miasmx.__file__
from miasmx.arch import ppc_arch as P
from miasmx.arch.ppc_arch import ppc_mn, tab_mn

def classes(w):
    return [c for c in tab_mn if c.check(w)]

def quiet(f, *a):
    buf = io.StringIO()
    with contextlib.redirect_stdout(buf):
        return f(*a)

random.seed(1)
fields = [0,1,31]
res = collections.defaultdict(list)
def test(w):
    cl = classes(w)
    if len(cl) == 0:
        return ('none',)
    if len(cl) > 1:
        return ('ambig', tuple(c.__name__ for c in cl))
    c = cl[0]
    try:
        m = ppc_mn(w)
    except Exception as e:
        return ('decode-exc', c.__name__, repr(e)[:80])
    try:
        b = m.bin()
    except Exception as e:
        return ('bin-exc', c.__name__, repr(e)[:80])
    if b != w:
        return ('bin-mismatch', c.__name__, )
    try:
        s = str(m)
    except Exception as e:
        return ('str-exc', c.__name__, type(e).__name__+str(e)[:60])
    try:
        r = quiet(ppc_mn.asm, s)[0]
        r = struct.unpack('>L', r)[0]
    except Exception as e:
        return ('asm-exc', c.__name__, s.split()[0], type(e).__name__)
    if r != w:
        return ('asm-mismatch', c.__name__, s.split()[0])
    return ('ok', c.__name__, s.split()[0])

def words():
    for po in range(64):
        for xo in range(1024):
            for rc in (0,1):
                for a in (0,1,31):
                    for b in (0,1,31):
                        for c in (0,1,31):
                            yield (po<<26)|(a<<21)|(b<<16)|(c<<11)|(xo<<1)|rc
if __name__=='__main__':
    out = collections.defaultdict(list)
    n=0
    for w in words():
        r = test(w)
        if len(out[r])<3: out[r].append(w)
        n+=1
    for k in sorted(out, key=str):
        print(k, ['%08X'%x for x in out[k]])
