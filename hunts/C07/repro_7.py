# Defect 7: a count built from partial-register writes of constants is not recognised
# as concrete: 'xor ecx, ecx ; mov cl, 3 ; rep movsb' raises instead of doing 3 steps
from common import *
try:
    m = run(['cld', 'xor ecx, ecx', 'mov cl, 3', 'rep movsb'])
except ValueError as ex:
    print('raises', ex)
    m = run(['xor ecx, ecx', 'mov cl, 3'])
    print('ecx =', m.pool[ecx], ' (a 32-bit constant, but not an ExprInt)')
    raise AssertionError("rep movsb with the concrete count 3 is rejected")
regs = dict(eax=0, ebx=0, ecx=0, edx=0, esi=0x10000, edi=0x20000)
assert value(m.pool[ecx], **regs) == 0 and value(m.pool[esi], **regs) == 0x10003
