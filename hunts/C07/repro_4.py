# Defect 4: repe/repne cmps/scas with a ZF that is not a constant: the termination
# test is silently skipped and all ecx iterations are executed
from common import *
m = run(['cld', 'mov ecx, 3', 'repe cmpsb'])
print('ecx =', m.pool[ecx], ' esi =', m.pool[esi], ' edi =', m.pool[edi])
# reference: byte-wise run on the initial memory memf
ESI, EDI = 0x10000, 0x20000
n, s, d = 3, ESI, EDI
while n:
    equal = memf(s) == memf(d)
    s += 1; d += 1; n -= 1
    if not equal:
        break
print('reference: ecx = %d esi = %#x' % (n, s))
regs = dict(eax=0, ebx=0, ecx=0, edx=0, esi=ESI, edi=EDI)
assert (value(m.pool[ecx], **regs), value(m.pool[esi], **regs)) == (n, s), \
    "repe cmpsb ran all 3 iterations although the first bytes differ"
