import sys, random
from ceval import *
from miasmx.arch.ia32_arch import x86mnemo
from miasmx.arch import ia32_sem
from miasmx.tools import emul_helper
from miasmx.expression.expression_helper import expr_simp
import logging
logging.disable(logging.CRITICAL)

_asm_cache={}
def asm_bytes(s):
    if s not in _asm_cache:
        b=x86mnemo.asm(s)
        _asm_cache[s]=b[0] if b else None
    return _asm_cache[s]
def asm(s):
    b=asm_bytes(s)
    if b is None: raise ValueError("cannot asm "+s)
    return x86mnemo.dis(b)

def memf_factory(seed):
    def memf(a):
        return ((a*2654435761 + seed*40503 + (a>>3)*97) >> 7) & 0xff
    return memf

REGS32=['eax','ebx','ecx','edx','esi','edi','ebp','esp']
FLAGS=['zf','nf','pf','of','cf','df','af']
BASEVAL={'esi':0x10000,'edi':0x20000,'ebp':0x30000,'esp':0x40000,'ebx':0x50000}

class Conc:
    def __init__(self, seed, df=None):
        r=random.Random(seed)
        self.ids={}
        for x in REGS32:
            self.ids[x]=r.getrandbits(32)
        for k,v in BASEVAL.items():
            if k!='ebx':
                self.ids[k]=v+r.randrange(0,64)*4
        for f in FLAGS: self.ids[f]=r.getrandbits(1)
        if df is not None: self.ids['df']=df
        self.init=dict(self.ids)
        self.memf0=memf_factory(seed)
        self.mem={}
    def memf(self,a):
        return self.mem.get(a, self.memf0(a))
    def step(self, affs):
        env=Env(self.ids, self.memf, strict=False)
        todo=[]
        for a in affs:
            v=ceval(a.src, env)
            if isinstance(a.dst, ExprMem):
                ad=ceval(a.dst.arg, env)
                todo.append(('m',ad,a.dst.size,v))
            else:
                todo.append(('r',a.dst.name,a.dst.size,v))
        for k,d,sz,v in todo:
            if k=='r': self.ids[d]=v&M(sz)
            else:
                for i in range(sz//8):
                    self.mem[(d+i)&0xffffffff]=(v>>(8*i))&0xff

def lift(l):
    return emul_helper.get_instr_expr(l, ExprInt(uint32(l.offset+l.l)), [])

def check(prog, nval=3, verbose=False, readback=True, seed0=0):
    """prog: list of asm strings. returns list of mismatch descriptions"""
    lines=[asm(s) for s in prog]
    off=0
    for l in lines:
        l.offset=off; off+=l.l
    machine=emul_helper.x86_machine()
    try:
        emul_helper.emul_lines(machine, lines)
    except Exception as ex:
        return [('EXC-sym', repr(ex))]
    out=[]
    for seed in range(seed0, seed0+nval):
        c=Conc(seed)
        # rep handling in concrete
        for l in lines:
            affs=lift(l)
            name=l.m.name
            if (0xF3 in l.prefix or 0xF2 in l.prefix) and name[:-1] in ["movs","lods","stos","cmps","scas"]:
                while c.ids['ecx']!=0:
                    c.step(affs)
                    c.ids['ecx']=(c.ids['ecx']-1)&0xffffffff
                    if name[:-1] in ('cmps','scas'):
                        if 0xF3 in l.prefix and c.ids['zf']==0: break
                        if 0xF2 in l.prefix and c.ids['zf']==1: break
            else:
                c.step(affs)
        init={'init_'+k:v for k,v in c.init.items()}
        env=Env(init, c.memf0, strict=False)
        for r in REGS32+FLAGS:
            e=machine.pool[getattr(ia32_sem,r)]
            try:
                got=ceval(e, env)
            except Malformed as ex:
                out.append(('MALFORMED', r, str(e))); continue
            exp=c.ids[r]
            if got!=exp:
                out.append(('REG', r, seed, hex(got), hex(exp), str(e)[:300]))
        if readback:
            # read back written addresses
            bases=[]
            for k in ('esi','edi','ebp','esp'):
                bases.append((getattr(ia32_sem,'init_'+k), c.init[k]))
            bases.append((None, 0x1000))
            written=set(c.mem)
            for bexpr,bval in bases:
                for o in range(-12,13):
                    for w in (8,16,32):
                        addrs=[(bval+o+i)&0xffffffff for i in range(w//8)]
                        if not any(a in written for a in addrs): continue
                        if bexpr is None: ae=ExprInt(uint32(bval+o))
                        else: ae=expr_simp(bexpr+ExprInt(uint32(o)))
                        try:
                            r=machine.eval_expr(ExprMem(ae,w),{})
                            if r.get_size()!=w:
                                out.append(('MEMSIZE',str(ae),w,str(r)[:300])); continue
                            got=ceval(r,env)
                        except Malformed as ex:
                            out.append(('MALFORMED-mem', str(ae), w, str(r)[:300])); continue
                        except Exception as ex:
                            out.append(('EXC-read', str(ae), w, repr(ex)[:300])); continue
                        exp=sum(c.memf(a)<<(8*i) for i,a in enumerate(addrs))
                        if got!=exp:
                            out.append(('MEM', str(ae), w, seed, hex(got), hex(exp), str(r)[:300]))
    return out
