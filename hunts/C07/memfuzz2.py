import random, sys
from memfuzz import *
accesses=[(o,s) for o in range(8) for s in (8,16,32)]
rnd=random.Random(int(sys.argv[1]) if len(sys.argv)>1 else 0)
seen={}
for it in range(20000):
    n=rnd.randint(3,7)
    h=[]
    for i in range(n):
        h.append((rnd.choice('ssl'),)+rnd.choice(accesses))
    h.append(('l',)+rnd.choice(accesses))
    sb=rnd.random()<.5; cv=rnd.random()<.5
    r=run(h,sb,cv,seed=it%7)
    for x in r:
        key=(x[1],sb,cv)
        seen.setdefault(key,[]).append(x)
for k,v in seen.items():
    print(k,len(v))
    v.sort(key=lambda x:len(x[0]))
    for x in v[:6]: print('   ',x)
