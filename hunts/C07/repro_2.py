# Defect 2: expr_simp rewrites ((A & 2**s) >> s) to 0
from common import *
m = run(['and eax, 0x100', 'shr eax, 8'])
e = m.pool[eax]
print('eax =', e)
got = value(e, eax=0x100)
print('got %#x expected 0x1' % got)
a = ExprId('a', 32)
print('expr_simp((a & 0x100) >> 8) =', expr_simp((a & ExprInt32(0x100)) >> ExprInt32(8)))
assert got == 1
