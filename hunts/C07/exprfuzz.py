import sys, random, collections
import ceval as C
from ceval import *
from miasmx.expression.expression_helper import expr_simp
from miasmx.expression.expression_eval_abstract import eval_abs
import logging; logging.disable(logging.CRITICAL)
SHOPS=['<<','>>','a>>','<<<','>>>']
T={1:uint1,8:uint8,16:uint16,32:uint32,64:uint64}
IDS={32:['a','b','c'],16:['p','q'],8:['x','y'],1:['f','g']}
def mkint(r,n):
    c=r.random()
    if c<.3: v=r.choice([0,1,2,M(n),1<<(n-1),(1<<(n-1))-1])
    elif c<.6: v=r.randrange(0,min(40,1<<n))
    elif c<.75 and n>1: v=1<<r.randrange(0,n)
    else: v=r.getrandbits(n)
    return ExprInt(T[n](v))
def gen(r, n, d):
    """generate well-sized expr of size n"""
    if d<=0 or r.random()<.15:
        if r.random()<.4: return mkint(r,n)
        return ExprId(r.choice(IDS[n]), n)
    c=r.random()
    if n==1:
        if c<.3:
            m=r.choice([8,16,32]); i=r.randrange(0,m)
            return ExprSlice(gen(r,m,d-1), i, i+1)
        if c<.5: return ExprOp('^', gen(r,1,d-1), gen(r,1,d-1))
        if c<.6: return ExprOp('&', gen(r,1,d-1), gen(r,1,d-1))
        if c<.8:
            m=r.choice([8,16,32]);return ExprOp('parity', gen(r,m,d-1)) if False else ExprCond(gen(r,m,d-1), mkint(r,1), mkint(r,1))
        return ExprId(r.choice(IDS[1]),1)
    if c<.35:
        op=r.choice(['+','+','-','&','|','^','*'])
        if op=='-' and r.random()<.4: return ExprOp('-', gen(r,n,d-1))
        k=2 if op=='-' or r.random()<.8 else 3
        return ExprOp(op, *[gen(r,n,d-1) for _ in range(k)])
    if c<.5:
        op=r.choice(SHOPS)
        cn = mkint(r,n) if r.random()<.7 else gen(r,n,d-1)
        if isinstance(cn,ExprInt) and r.random()<.8: cn=ExprInt(T[n](int(cn.arg)%(n+2)))
        return ExprOp(op, gen(r,n,d-1), cn)
    if c<.62:
        # slice from bigger
        ms=[m for m in (16,32,64) if m>n]
        if not ms: return gen(r,n,d-1)
        m=r.choice(ms)
        if m==64: return ExprSlice(gen_compose(r,64,d-1), r.choice(range(0,64-n+1,8)), 0) if False else gen(r,n,d-1)
        st=r.choice(range(0,m-n+1,8))
        return ExprSlice(gen(r,m,d-1), st, st+n)
    if c<.82:
        return gen_compose(r,n,d)
    if c<.92:
        cs=r.choice([1,8,32])
        return ExprCond(gen(r,cs,d-1), gen(r,n,d-1), gen(r,n,d-1))
    return ExprMem(gen(r,32,d-1), n)
def gen_compose(r,n,d):
    if n==8:
        if r.random()<.5:
            return ExprCompose([(gen(r,1,d-1),0,1),(ExprSlice(gen(r,8,d-1),1,8),1,8)])
        return gen(r,8,d-1)
    cuts=[0]
    pos=0
    while pos<n:
        step=r.choice([s for s in (8,16,32) if pos+s<=n])
        pos+=step; cuts.append(pos)
    if len(cuts)==2: 
        cuts=[0,n//2,n] if n//2 in (8,16,32) else cuts
    args=[]
    for a,b in zip(cuts,cuts[1:]):
        w=b-a
        k=r.random()
        if k<.3: x=mkint(r,w)
        elif k<.6:
            src=r.choice([m for m in (8,16,32) if m>=w])
            st=r.choice(range(0,src-w+1,8))
            base=ExprId(r.choice(IDS[src]),src)
            x=ExprSlice(base,st,st+w) if src>w else base
        else: x=gen(r,w,d-1)
        args.append((x,a,b))
    r.shuffle(args) if r.random()<.2 else None
    return ExprCompose(args)

def valuation(r):
    ids={}
    for n,names in IDS.items():
        for nm in names:
            c=r.random()
            ids[nm]= r.getrandbits(n) if c<.6 else r.choice([0,1,M(n),1<<(n-1)])&M(n)
    return ids
def memf(a): return ((a*2654435761)>>9)&0xff

if __name__=='__main__':
    mode=sys.argv[1]; seed=int(sys.argv[2]); N=int(sys.argv[3])
    r=random.Random(seed)
    cats=collections.defaultdict(list)
    for it in range(N):
        n=r.choice([8,16,32,32,32])
        e=gen(r,n,r.randint(1,4))
        s0=str(e)
        ids=valuation(r)
        env=Env(ids,memf)
        try: exp=ceval(e,env)
        except Exception as ex:
            continue
        if mode=='simp':
            try: e2=expr_simp(e.copy())
            except Exception as ex:
                cats[('EXC',repr(ex)[:50])].append((len(s0),s0,repr(ex))); continue
            try: got=ceval(e2,env)
            except Exception as ex:
                cats[('EVALEXC',repr(ex)[:50])].append((len(s0),s0,str(e2))); continue
            if got!=exp or e2.get_size()!=n:
                cats['VAL'].append((len(s0),s0,str(e2),hex(got),hex(exp),ids))
        else:
            pool={ExprId(nm,sz):ExprInt(T[sz](ids[nm])) for sz,names in IDS.items() for nm in names}
            def fr(m_, a): 
                return ExprInt(T[a.size](env.rd(int(a.arg.arg), a.size)))
            m=eval_abs(pool, fr, None)
            try: e2=expr_simp(m.eval_expr(e.copy(),{}))
            except Exception as ex:
                cats[('EXC',repr(ex)[:50])].append((len(s0),s0,repr(ex))); continue
            if not isinstance(e2,ExprInt):
                continue
            got=int(e2.arg)
            if got!=exp or e2.get_size()!=n:
                cats['VAL'].append((len(s0),s0,str(e2),hex(got),hex(exp),e2.get_size()))
    for k,v in sorted(cats.items(), key=lambda kv:-len(kv[1])):
        print(k,len(v))
        v.sort()
        for x in v[:6]: print('    ',x[1:])
