import random, sys, collections
from ceval import *
from miasmx.expression.expression_eval_abstract import eval_abs
from miasmx.expression.expression_helper import expr_simp
import logging; logging.disable(logging.CRITICAL)
T={8:uint8,16:uint16,32:uint32,64:uint64}
def memf(a): return ((a*2654435761 + (a>>3)*97) >> 7) & 0xff
def mkval(r, size, ids, n):
    c=r.random()
    if c<.3:
        v=r.getrandbits(size); return ExprInt(T[size](v)), v
    if c<.6 or size==8:
        name='v%d'%len(ids); v=r.getrandbits(size); ids[name]=v; return ExprId(name,size), v
    # compose of halves
    h=size//2
    a,av=mkval(r,h,ids,n*10+1); b,bv=mkval(r,h,ids,n*10+2)
    return ExprCompose([(a,0,h),(b,h,size)]), av|(bv<<h)
def run(r, W=(8,16,32,64), lo=-8, hi=16, nops=8):
    kind=r.choice(['const','sym','wrap'])
    base={'const':ExprInt(uint32(0x1000)),'sym':ExprId('B',32),'wrap':ExprInt(uint32(0xfffffffc))}[kind]
    ids={'B':0x20000}
    env0=Env(ids,memf)
    m=eval_abs({})
    baseval=ceval(base,env0)
    cmem={}; hist=[]; out=[]
    for n in range(r.randint(2,nops)):
        k=r.choice('ssl'); off=r.randrange(lo,hi); size=r.choice(W)
        addr=expr_simp(base+ExprInt(uint32(off)))
        if k=='s':
            src,val=mkval(r,size,ids,n)
            hist.append(('s',off,size,str(src)))
            try: m.eval_instr([ExprAff(ExprMem(addr,size),src)])
            except Exception as ex:
                out.append(('EXC-store',repr(ex)[:200])); break
            for i in range(size//8): cmem[(baseval+off+i)&0xffffffff]=(val>>(8*i))&0xff
        else:
            hist.append(('l',off,size))
            try: res=m.eval_expr(ExprMem(addr,size),{})
            except Exception as ex:
                out.append(('EXC-load',repr(ex)[:200])); break
            if res.get_size()!=size: out.append(('SIZE',str(res))); continue
            got=ceval(res,Env(ids,memf))
            exp=sum(cmem.get((baseval+off+i)&0xffffffff, memf((baseval+off+i)&0xffffffff))<<(8*i) for i in range(size//8))
            if got!=exp: out.append(('VAL',str(res)[:200],hex(got),hex(exp)))
    return kind,hist,out
if __name__=='__main__':
    r=random.Random(int(sys.argv[1])); N=int(sys.argv[2])
    W=eval(sys.argv[3]) if len(sys.argv)>3 else (8,16,32,64)
    cats=collections.defaultdict(list)
    for it in range(N):
        kind,hist,out=run(r,W)
        for x in out: cats[(kind,x[0],x[1][:40] if x[0].startswith('EXC') else '')].append((len(hist),hist,x))
    for k,v in sorted(cats.items(), key=lambda kv:-len(kv[1])):
        print(k,len(v)); v.sort(key=lambda t:t[0])
        for x in v[:4]: print('    ',x[1]); print('         ',x[2])
