# Defect 6: rol / rcl / shld on concrete operands: ValueError 'invalid cast'
from common import *
res = {}
for prog, exp in ((['mov eax, 1', 'rol eax, 8'], 0x100),
                  (['mov eax, 1', 'clc', 'rcl eax, 4'], 0x10),
                  (['mov eax, 1', 'mov ebx, 0x80000000', 'shld eax, ebx, 4'], 0x18)):
    try:
        m = run(prog)
        res[prog[-1]] = value(m.pool[eax]) == exp
    except ValueError as ex:
        print(prog, 'raises', ex)
        res[prog[-1]] = False
assert all(res.values()), res
