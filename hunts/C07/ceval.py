# my own concrete evaluator of miasmx expressions
import zlib
import miasmx
assert miasmx.__file__.startswith('/tmp/wth_C07/'), miasmx.__file__
from miasmx.expression.expression import *
from miasmx.tools.modint import *

def M(n): return (1<<n)-1
def sx(v,n):
    v&=M(n)
    return v-(1<<n) if v>>(n-1) else v

def h(*a):
    return zlib.crc32(repr(a).encode())

class Env:
    def __init__(self, ids, memf, strict=True):
        self.ids=ids      # name -> int
        self.memf=memf    # addr -> byte (initial memory)
        self.strict=strict
    def id(self, name):
        if name in self.ids: return self.ids[name]
        if self.strict: raise KeyError(name)
        return h('id',name)
    def rd(self, addr, size):
        v=0
        for i in range(size//8):
            v|= self.memf((addr+i)&0xffffffff) << (8*i)
        return v

class Malformed(Exception): pass
STRICT=False

def ceval(e, env):
    """returns int masked to size"""
    if isinstance(e, ExprInt):
        return int(e.arg) & M(e.get_size())
    if isinstance(e, ExprId):
        return env.id(e.name) & M(e.size)
    if isinstance(e, ExprMem):
        a = ceval(e.arg, env)
        return env.rd(a, e.size)
    if isinstance(e, ExprSlice):
        v = ceval(e.arg, env)
        return (v>>e.start) & M(e.stop-e.start)
    if isinstance(e, ExprCompose):
        v=0
        for x,a,b in e.args:
            xv = ceval(x, env)
            if STRICT and not (isinstance(x, ExprInt) or x.get_size()==b-a):
                raise Malformed("compose piece size mismatch %s"%e)
            v |= (xv & M(b-a))<<a
        return v
    if isinstance(e, ExprCond):
        c = ceval(e.cond, env)
        return ceval(e.src1 if c else e.src2, env)
    if isinstance(e, ExprOp):
        n = e.get_size()
        args=[ceval(a,env) for a in e.args]
        op=e.op
        if op=='+': return sum(args)&M(n)
        if op=='-':
            if len(args)==1: return (-args[0])&M(n)
            return (args[0]-args[1])&M(n)
        if op=='*':
            r=1
            for a in args: r*=a
            return r&M(n)
        if op=='&':
            r=M(n)
            for a in args: r&=a
            return r
        if op=='|':
            r=0
            for a in args: r|=a
            return r&M(n)
        if op=='^':
            r=0
            for a in args: r^=a
            return r&M(n)
        if op=='<<': return (args[0]<<args[1])&M(n) if args[1]<1000 else 0
        if op=='>>': return (args[0]>>args[1])&M(n) if args[1]<1000 else 0
        if op=='a>>':
            s=min(args[1], n)
            return (sx(args[0],n)>>s)&M(n)
        if op=='<<<':
            r=args[1]%n
            return ((args[0]<<r)|(args[0]>>(n-r)))&M(n)
        if op=='>>>':
            r=args[1]%n
            return ((args[0]>>r)|(args[0]<<(n-r)))&M(n)
        if op in ('<<<c_rez','<<<c_cf','>>>c_rez','>>>c_cf'):
            r=(args[1]&0x1f)%(n+1)
            t=(args[0]|((args[2]&1)<<n))
            if op.startswith('<<<'):
                t=((t<<r)|(t>>(n+1-r)))&M(n+1)
            else:
                t=((t>>r)|(t<<(n+1-r)))&M(n+1)
            return t&M(n) if op.endswith('rez') else t>>n
        if op=='parity':
            return 1-(bin(args[0]&0xff).count('1')&1)
        if op=='==': return int(args[0]==args[1])
        if op=='!': return args[0]^M(n)
        if op=='bsf' and len(args)==1:
            for i in range(n):
                if args[0]>>i&1: return i
            return 0
        if op=='bsr' and len(args)==1:
            for i in range(n-1,-1,-1):
                if args[0]>>i&1: return i
            return 0
        # uninterpreted
        return h(op,args)&M(n)
    raise NotImplementedError(type(e))
