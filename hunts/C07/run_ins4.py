import sys, random, collections
from insfuzz import *
from gen2 import *
seed=int(sys.argv[1]); N=int(sys.argv[2])
r=random.Random(seed)
cats=collections.defaultdict(list)
for it in range(N):
    p=gen_prog2(r)
    if any(asm_bytes(s) is None for s in p): continue
    if any(('rol' in s or 'rcl' in s or 'sar' in s or 'shld' in s) for s in p): continue
    try:
        res=check(p, nval=2)
    except Exception as ex:
        import traceback
        cats[('HARNESS',repr(ex)[:80])].append((p,traceback.format_exc()[-600:]))
        continue
    if res:
        x=res[0]
        cats[(x[0],x[1][:70] if x[0] in('EXC-sym',) else '')].append((p,x,len(res)))
for k,v in sorted(cats.items(), key=lambda kv:-len(kv[1])):
    print(k,len(v))
    v.sort(key=lambda t:len(t[0]))
    for p,x,n in v[:12]:
        print('    ',p); print('        ',n,str(x)[:400])
