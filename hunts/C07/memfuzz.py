import sys, random, itertools
from ceval import *
from miasmx.expression.expression_eval_abstract import eval_abs
from miasmx.expression.expression_helper import expr_simp

def memf_factory(seed):
    def memf(a):
        return (a*2654435761 + seed*40503 + (a>>3)*97) >> 7 & 0xff
    return memf

def run(history, symbolic_base, const_vals, seed=1, verbose=False):
    """history: list of ('s',off,size) / ('l',off,size). returns list of mismatches"""
    base = ExprId('B', 32) if symbolic_base else ExprInt(uint32(0x1000))
    m = eval_abs({})
    ids = {'B': 0x20000 + seed*8}
    memf = memf_factory(seed)
    env = Env(ids, memf)
    cmem = {}  # concrete overlay
    baseval = ceval(base, env)
    out=[]
    n=0
    for kind, off, size in history:
        addr = expr_simp(base + ExprInt(uint32(off)))
        if kind=='s':
            if const_vals:
                val = random.Random(seed*100+n).getrandbits(size)
                src = ExprInt({8:uint8,16:uint16,32:uint32}[size](val))
            else:
                name='v%d'%n
                val = random.Random(seed*100+n).getrandbits(size)
                ids[name]=val
                src = ExprId(name, size)
            n+=1
            m.eval_instr([ExprAff(ExprMem(addr, size), src)])
            for i in range(size//8):
                cmem[(baseval+off+i)&0xffffffff] = (val>>(8*i))&0xff
        else:
            try:
                r = m.eval_expr(ExprMem(addr, size), {})
            except Exception as ex:
                out.append((history, 'EXC', repr(ex)))
                continue
            if r.get_size()!=size:
                out.append((history,'SIZE', str(r), r.get_size()))
                continue
            env2 = Env(ids, memf)
            try:
                got = ceval(r, env2)
            except AssertionError as ex:
                out.append((history,'MALFORMED', str(r)))
                continue
            exp=0
            for i in range(size//8):
                a=(baseval+off+i)&0xffffffff
                exp |= cmem.get(a, memf(a))<<(8*i)
            if got!=exp:
                out.append((history,'VAL', str(r), hex(got), hex(exp)))
    return out

if __name__=='__main__':
    accesses=[(o,s) for o in range(8) for s in (8,16,32)]
    seen={}
    for nst in (1,2):
        for sts in itertools.product(accesses, repeat=nst):
            for ld in accesses:
                h=[('s',)+s for s in sts]+[('l',)+ld]
                for sb in (False,True):
                    for cv in (False,True):
                        r = run(h, sb, cv)
                        for x in r:
                            key=(x[1],sb,cv)
                            seen.setdefault(key,[]).append(x)
    for k,v in seen.items():
        print(k, len(v))
        for x in v[:5]: print('   ',x)
