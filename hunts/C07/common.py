# shared helpers for the reproducers (no source file of the worktree is modified)
import logging
import miasmx
assert miasmx.__file__.startswith('/tmp/wth_C07/'), miasmx.__file__
from miasmx.arch.ia32_arch import x86mnemo
from miasmx.arch import ia32_sem
from miasmx.arch.ia32_sem import *          # eax, init_eax, ...
from miasmx.tools import emul_helper
from miasmx.tools.modint import uint1, uint8, uint16, uint32
from miasmx.expression.expression import *
from miasmx.expression.expression_helper import expr_simp
from miasmx.expression.expression_eval_abstract import eval_abs
from ceval import ceval, Env          # independent reference evaluator of expressions
logging.disable(logging.CRITICAL)

def asm(s):
    b = x86mnemo.asm(s)
    assert b, "cannot assemble %r" % s
    return x86mnemo.dis(b[0])

def run(prog):
    """emulate the intel-syntax lines on a fresh symbolic x86 machine"""
    lines = [asm(s) for s in prog]
    off = 0
    for l in lines:
        l.offset = off
        off += l.l
    m = emul_helper.x86_machine()
    emul_helper.emul_lines(m, lines)
    return m

def memf(a):
    """some fixed initial memory"""
    return ((a * 2654435761 + (a >> 3) * 97) >> 7) & 0xff

def value(expr, **init):
    """value of a machine expression for the valuation init_<reg>=..., initial memory = memf"""
    ids = dict(('init_' + k, v) for k, v in init.items())
    return ceval(expr, Env(ids, memf, strict=True))
