# Defect 8: concrete evaluation of '<<<c_rez' / '<<<c_cf' (rcl) loses the operand's msb
from common import *
l = asm('rcl eax, 1')
affs = emul_helper.get_instr_expr(l, ExprInt32(l.l), [])
print([str(a) for a in affs])
# keep the assignments of eax and cf (the one of 'of' raises, see defect 6)
affs = [a for a in affs if a.dst in (eax, cf)]
m = emul_helper.x86_machine()
m.eval_instr([ExprAff(eax, ExprInt32(0x80000001)), ExprAff(cf, ExprInt32(0))])
m.eval_instr(affs)
print('eax =', m.pool[eax], ' cf =', m.pool[cf], '  expected eax = 0x2, cf = 0x1')
v = m.eval_expr(ExprOp('<<<c_rez', ExprInt(uint8(0xFF)), ExprInt(uint8(0)), ExprInt(uint8(0))), {})
print('<<<c_rez(0xFF, 0, 0) =', v, ' expected 0xFF')
assert int(m.pool[cf].arg) & 1 == 1 and int(m.pool[eax].arg) == 2
assert int(v.arg) == 0xFF
