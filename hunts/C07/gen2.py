import random
from gen import *
import gen as G
def mem2(r, w, absolute_ok=True):
    sz={8:'byte ptr',16:'word ptr',32:'dword ptr'}[w]
    c=r.random()
    if c<.35:
        return G.mem(r,w)
    if c<.6:
        b=r.choice(BASES); i=r.choice(DATA32); s=r.choice([1,2,4,8]); d=r.randrange(0,6)
        return '%s [%s+%s*%d+%d]'%(sz,b,i,s,d)
    if c<.85:
        b=r.choice(DATA32); d=r.randrange(0,6)
        return '%s [%s+%d]'%(sz,b,d)
    b=r.choice(DATA32); i=r.choice(DATA32); d=r.randrange(0,6)
    return '%s [%s+%s+%d]'%(sz,b,i,d)
def gen_ins2(r):
    c=r.random()
    w=r.choice([8,16,32,32])
    if c<.35:
        op=r.choice(['mov','mov','add','xor','sub','or','and'])
        k=r.random()
        if k<.45: return '%s %s, %s'%(op,reg(r,w),mem2(r,w))
        if k<.9: return '%s %s, %s'%(op,mem2(r,w),reg(r,w))
        return '%s %s, %s'%(op,mem2(r,w),imm(r,w))
    if c<.45:
        return 'mov %s, %s'%(r.choice(DATA32), mem2(r,32))
    if c<.5:
        return r.choice(['inc','dec','neg','not'])+' '+mem2(r,w)
    if c<.55:
        return 'xchg %s, %s'%(reg(r,w), mem2(r,w))
    if c<.6:
        return r.choice(['push','pop'])+' '+mem2(r,32)
    if c<.63:
        return r.choice(['leave','add esp, 4','sub esp, 8','mov ebp, esp','push ebp','pop ebp' ])
    return G.gen_ins(r)
def gen_prog2(r, n=None):
    n=n or r.randint(2,12)
    p=['cld' if r.random()<.8 else 'std']
    for i in range(n): p.append(gen_ins2(r))
    return p
