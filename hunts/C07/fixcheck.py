from common import *
import miasmx.expression.expression_eval_abstract as E
import miasmx.expression.expression_helper as H
def eval_expr(self, e, eval_cache):
    if e.is_term: return e
    if e.is_eval: return e
    if e in eval_cache: return eval_cache[e]
    e = e.visit(expr_simp)
    if e.is_term or e.is_eval: return e      # <- proposed
    ret = self.eval_expr_no_cache(e, eval_cache)
    ret.is_eval = True
    if not isinstance(e, ExprInt): eval_cache[e] = ret
    return ret
E.eval_abs.eval_expr = eval_expr
m = run(['mov eax, [esi]','mov [esi], ebx','mov [eax], ecx','mov byte ptr [eax], dl','mov edi, [eax]'])
print(m.pool[edi])
m = run(['mov eax, [esi]', 'mov [esi], ebx', 'mov [ebx], edx', 'mov ecx, [eax]'])
print(m.pool[ecx])
m=run(['mov byte ptr [esi], al','mov ebx, [esi]','mov byte ptr [esi+1], 0x55','mov [ebx], edx','mov cl, [ebx+1]'])
print(m.pool[ecx])
