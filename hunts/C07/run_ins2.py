import sys, random, collections
from insfuzz import *
from gen import *
seed=int(sys.argv[1]); N=int(sys.argv[2])
r=random.Random(seed)
cats=collections.defaultdict(list)
for it in range(N):
    p=['cld' if r.random()<.8 else 'std']
    for x in ['eax','ebx','ecx','edx']:
        if r.random()<.8: p.append('mov %s, %s'%(x, imm(r,32)))
    if r.random()<.5: p.append(r.choice(['stc','clc']))
    for i in range(r.randint(1,8)): p.append(gen_ins(r))
    if any(asm_bytes(s) is None for s in p): continue
    try:
        res=check(p, nval=2)
    except Exception as ex:
        import traceback
        cats[('HARNESS',repr(ex)[:80])].append((p,traceback.format_exc()[-600:]))
        continue
    for x in res:
        cats[(x[0],x[1][:60] if x[0] in('REG','EXC-sym') else '')].append((p,x))
for k,v in sorted(cats.items(), key=lambda kv:-len(kv[1])):
    print(k,len(v))
    v.sort(key=lambda t:len(t[0]))
    for p,x in v[:3]:
        print('    ',p); print('        ',x)
