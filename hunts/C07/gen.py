import random
DATA32=['eax','ebx','ecx','edx']
DATA16=['ax','bx','cx','dx']
DATA8=['al','bl','cl','dl','ah','bh','ch','dh']
BASES=['esi','edi','ebp','esp']
def mem(r, w, absolute_ok=True):
    sz={8:'byte ptr',16:'word ptr',32:'dword ptr'}[w]
    if absolute_ok and r.random()<.15:
        return '%s [0x%x]'%(sz, 0x1000+r.randrange(0,8))
    b=r.choice(BASES)
    d=r.randrange(-4,9)
    if d==0: return '%s [%s]'%(sz,b)
    if d<0: return '%s [%s-%d]'%(sz,b,-d)
    return '%s [%s+%d]'%(sz,b,d)
def reg(r,w):
    return r.choice({8:DATA8,16:DATA16,32:DATA32}[w])
def imm(r,w):
    c=r.random()
    if c<.3: return str(r.randrange(0,4))
    if c<.5: return str(r.choice([0x7f,0x80,0xff]) if w==8 else r.choice([0x7f,0x80,0xff,0x7fff,0x8000,0xffff] if w==16 else [0x7f,0x80,0xff,0x7fffffff,0x80000000,0xffffffff]))
    return str(r.getrandbits(w))
ALU=['add','sub','and','or','xor','adc','sbb','cmp','mov','test']
UN=['inc','dec','neg','not']
SH=['shl','shr','sar','rol','ror','rcl','rcr']
def gen_ins(r):
    c=r.random()
    w=r.choice([8,16,32,32])
    if c<.40:
        op=r.choice(ALU)
        k=r.random()
        if k<.25: return '%s %s, %s'%(op,reg(r,w),reg(r,w))
        if k<.40: return '%s %s, %s'%(op,reg(r,w),imm(r,w))
        if k<.65: return '%s %s, %s'%(op,reg(r,w),mem(r,w))
        if k<.90: return '%s %s, %s'%(op,mem(r,w),reg(r,w))
        return '%s %s, %s'%(op,mem(r,w),imm(r,w))
    if c<.50:
        op=r.choice(UN)
        return '%s %s'%(op, reg(r,w) if r.random()<.5 else mem(r,w))
    if c<.58:
        op=r.choice(SH)
        dst=reg(r,w) if r.random()<.6 else mem(r,w)
        cnt='cl' if r.random()<.3 else str(r.choice([0,1,2,7,8,15,31,33]))
        return '%s %s, %s'%(op,dst,cnt)
    if c<.66:
        k=r.random()
        if k<.3: return 'push %s'%r.choice(DATA32)
        if k<.5: return 'pop %s'%r.choice(DATA32)
        if k<.6: return 'push %s'%mem(r,32)
        if k<.7: return 'pop %s'%mem(r,32)
        if k<.8: return 'push %d'%r.randrange(0,300)
        if k<.9: return 'push %s'%r.choice(DATA16)
        return 'pop %s'%r.choice(DATA16)
    if c<.72:
        op=r.choice(['movzx','movsx'])
        sw=r.choice([8,16]); dw=32 if sw==16 else r.choice([16,32])
        return '%s %s, %s'%(op,reg(r,dw), reg(r,sw) if r.random()<.4 else mem(r,sw))
    if c<.77:
        b=r.choice(BASES+DATA32)
        return 'lea %s, [%s+%d]'%(r.choice(DATA32),b,r.randrange(0,9))
    if c<.82:
        b=r.choice(BASES[:3])
        return r.choice(['add %s, %d','sub %s, %d'])%(b,r.randrange(1,5))
    if c<.86:
        return 'xchg %s, %s'%(reg(r,w), reg(r,w) if r.random()<.4 else mem(r,w))
    if c<.90:
        return r.choice(['cdq','cwde','lahf','sahf','clc','stc','cmc','bswap eax','bswap edx','xlat'])
    if c<.94:
        cc=r.choice(['z','nz','b','ae','s','ns','o','no','l','ge','le','g','be','a','p','np'])
        if r.random()<.5: return 'set%s %s'%(cc, reg(r,8) if r.random()<.6 else mem(r,8))
        return 'cmov%s %s, %s'%(cc, reg(r,32), reg(r,32) if r.random()<.5 else mem(r,32))
    if c<.97:
        return r.choice(['movsb','movsw','movsd','stosb','stosw','stosd','lodsb','lodsw','lodsd'])
    k=r.random()
    if k<.3: return 'imul %s, %s'%(reg(r,32),reg(r,32))
    if k<.5: return 'mul %s'%reg(r,w)
    if k<.6: return 'xadd %s, %s'%(mem(r,w),reg(r,w))
    if k<.8: return 'shld %s, %s, %d'%(reg(r,32),reg(r,32),r.choice([1,4,31]))
    return 'bt %s, %d'%(reg(r,32), r.randrange(0,32))
def gen_prog(r, n=None):
    n=n or r.randint(1,12)
    p=['cld' if r.random()<.8 else 'std']
    for i in range(n):
        p.append(gen_ins(r))
    return p
