import sys, random, collections
from insfuzz import *
from gen import *
seed=int(sys.argv[1]); N=int(sys.argv[2])
r=random.Random(seed)
cats=collections.defaultdict(list)
bad_asm=set()
for it in range(N):
    p=gen_prog(r)
    ok=True
    for s in p:
        if asm_bytes(s) is None:
            bad_asm.add(s.split()[0]+' '+s); ok=False
    if not ok: continue
    try:
        res=check(p, nval=2)
    except Exception as ex:
        import traceback
        cats[('HARNESS',repr(ex)[:80])].append((p,traceback.format_exc()[-600:]))
        continue
    for x in res:
        cats[(x[0],x[1] if x[0] in('REG','EXC-sym') else '')].append((p,x))
for k,v in sorted(cats.items(), key=lambda kv:-len(kv[1])):
    print(k,len(v))
    v.sort(key=lambda t:len(t[0]))
    for p,x in v[:3]:
        print('    ',p); print('        ',x)
print('bad asm', len(bad_asm), sorted(bad_asm)[:20])
