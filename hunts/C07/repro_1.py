# Defect 1: an already evaluated address (a pointer that was loaded from memory) is
# evaluated a second time against the *current* memory.
from common import *

# (a) wrong value, silently.
m = run(['mov eax, [esi]',          # eax = P = initial @32[esi]
         'mov [esi], ebx',          # the slot the pointer came from is overwritten
         'mov [eax], ecx',          # 32-bit store at P
         'mov byte ptr [eax], dl',  # 8-bit store at P: bytes 1..3 of ecx must survive
         'mov edi, [eax]'])         # 32-bit read back at P
e = m.pool[edi]
print('edi =', e)
regs = dict(eax=1, ebx=0x77777777, ecx=0x11223344, edx=0xAABBCCDD, esi=0x10000, edi=5)
got = value(e, **regs)
expected = 0x112233DD
print('got %#x expected %#x' % (got, expected))
bad_a = got != expected

# (b) spurious exception
try:
    run(['mov eax, [esi]', 'mov [esi], ebx', 'mov [ebx], edx', 'mov ecx, [eax]'])
    bad_b = False
except ValueError as ex:
    print('(b) raises', ex)
    bad_b = True

# (c) get_reg() re-evaluates the register's expression in the current memory
m = run(['mov eax, [esi]', 'mov [esi], ebx', 'movzx ecx, al'])
print('(c) pool[ecx] =', m.pool[ecx], '  get_reg(ecx) =', m.get_reg(ecx))
regs = dict(eax=1, ebx=0x77777777, ecx=3, edx=4, esi=0x10000, edi=5)
bad_c = value(m.get_reg(ecx), **regs) != memf(0x10000)

assert not bad_a, "read back through a loaded pointer lost bytes 1..3 of the 32-bit store"
assert not bad_b
assert not bad_c
