# Defect 5: a rep string instruction with ecx > 0x1000 executes ONE iteration and
# leaves ecx unchanged
from common import *
m = run(['cld', 'mov ecx, 0x1001', 'rep stosb'])
print('ecx =', m.pool[ecx], ' edi =', m.pool[edi], ' cells written =', len(m.dump_mem()))
regs = dict(eax=0, ebx=0, ecx=0, edx=0, esi=0, edi=0x20000)
assert value(m.pool[ecx], **regs) == 0
assert value(m.pool[edi], **regs) == 0x20000 + 0x1001
