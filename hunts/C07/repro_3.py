# Defect 3: 'a>>' (sar) on concrete operands: logical shift instead of arithmetic,
# and ValueError when the count comes from cl
from common import *
m = run(['mov eax, 0x80000000', 'sar eax, 4'])
e = m.pool[eax]
print('eax =', e, ' expected 0xF8000000')
ok1 = value(e) == 0xF8000000
try:
    m = run(['mov eax, 0x80000000', 'mov ecx, 4', 'sar eax, cl'])
    ok2 = value(m.pool[eax]) == 0xF8000000
except ValueError as ex:
    print('sar eax, cl raises', ex)
    ok2 = False
assert ok1, "sar of a negative constant is computed as a logical shift"
assert ok2
