# Run: PYTHONPATH=/tmp/wth_C19 /venv/bin/python repro_5.py
import io, contextlib, logging
import miasmx
assert miasmx.__file__.startswith('/tmp/wth_C19/'), miasmx.__file__
from miasmx.arch.ia32_arch import x86mnemo
logging.disable(logging.CRITICAL)

def intel(line):
    """set of candidate encodings (hex) of an Intel-syntax line"""
    with contextlib.redirect_stdout(io.StringIO()):
        return set(b.hex() for b in x86mnemo.asm(line))

def att(line):
    """set of candidate encodings (hex) of an AT&T-syntax line"""
    with contextlib.redirect_stdout(io.StringIO()):
        return set(b.hex() for b in x86mnemo.asm_att(line))

def same(a, b, what):
    assert a == b, "%s\n   only in first : %s\n   only in second: %s" % (what, sorted(a - b), sorted(b - a))

# Defect 5: AT&T front end, a negative immediate in an 8/16-bit immediate
# field of an instruction whose operands are 32-bit wide is rejected, while
# the equal-modulo-width positive spelling and the Intel line are accepted.
for l in ['shll $0xff, %eax', 'shll $-1, %eax', 'ret $0xffff', 'ret $-1', 'int $0xff', 'int $-1',
          'btl $-1, %eax', 'shldl $-1, %ebx, %eax', 'out %al, $-1']:
    print('att   %-24s ->' % l, sorted(att(l)))
for l in ['shl eax, 0xff', 'shl eax, -1', 'ret -1', 'int -1']:
    print('intel %-24s ->' % l, sorted(intel(l)))
same(intel('shl eax, -1'), intel('shl eax, 0xff'), 'Intel shl eax, -1 / 0xff')      # passes
same(att('shll $-1, %eax'), att('shll $0xff, %eax'), 'AT&T shll $-1 / $0xff')        # fails
same(att('shll $-1, %eax'), intel('shl eax, -1'), 'AT&T vs Intel shl eax, -1')
same(att('ret $-1'), intel('ret -1'), 'AT&T vs Intel ret -1')
