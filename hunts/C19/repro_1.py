# Run: PYTHONPATH=/tmp/wth_C19 /venv/bin/python repro_1.py
import io, contextlib, logging
import miasmx
assert miasmx.__file__.startswith('/tmp/wth_C19/'), miasmx.__file__
from miasmx.arch.ia32_arch import x86mnemo
logging.disable(logging.CRITICAL)

def intel(line):
    """set of candidate encodings (hex) of an Intel-syntax line"""
    with contextlib.redirect_stdout(io.StringIO()):
        return set(b.hex() for b in x86mnemo.asm(line))

def att(line):
    """set of candidate encodings (hex) of an AT&T-syntax line"""
    with contextlib.redirect_stdout(io.StringIO()):
        return set(b.hex() for b in x86mnemo.asm_att(line))

def same(a, b, what):
    assert a == b, "%s\n   only in first : %s\n   only in second: %s" % (what, sorted(a - b), sorted(b - a))

# Defect 1: Intel front end, 16-bit immediates: 0xffff and -1 are the same
# value modulo the operand width, but only the "-1" spelling gets the
# sign-extended imm8 encodings (66 83 /r ib, 66 6b, 66 6a).
a = intel('add ax, -1')
b = intel('add ax, 0xffff')
print('add ax, -1      ->', sorted(a))
print('add ax, 0xffff  ->', sorted(b))
print('addw $0xffff,%ax->', sorted(att('addw $0xffff, %ax')))
# the AT&T front end gets it right, so Intel <-> AT&T differ as well
same(att('addw $0xffff, %ax'), att('addw $-1, %ax'), 'AT&T: addw $0xffff / $-1')
same(a, b, "Intel: 'add ax, -1' vs 'add ax, 0xffff'")
same(intel('cmp bx, 0xff80'), intel('cmp bx, -128'), "Intel: cmp bx, 0xff80 / -128")
same(intel('push WORD PTR 0xffff'), intel('push WORD PTR -1'), "Intel: push WORD PTR 0xffff / -1")
same(intel('imul ax, bx, 0xffff'), att('imulw $0xffff, %bx, %ax'), "imul ax,bx,0xffff Intel vs AT&T")
