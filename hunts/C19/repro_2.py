# Run: PYTHONPATH=/tmp/wth_C19 /venv/bin/python repro_2.py
import io, contextlib, logging
import miasmx
assert miasmx.__file__.startswith('/tmp/wth_C19/'), miasmx.__file__
from miasmx.arch.ia32_arch import x86mnemo
logging.disable(logging.CRITICAL)

def intel(line):
    """set of candidate encodings (hex) of an Intel-syntax line"""
    with contextlib.redirect_stdout(io.StringIO()):
        return set(b.hex() for b in x86mnemo.asm(line))

def att(line):
    """set of candidate encodings (hex) of an AT&T-syntax line"""
    with contextlib.redirect_stdout(io.StringIO()):
        return set(b.hex() for b in x86mnemo.asm_att(line))

def same(a, b, what):
    assert a == b, "%s\n   only in first : %s\n   only in second: %s" % (what, sorted(a - b), sorted(b - a))

# Defect 2: an absolute address that was built with '+' in the Intel parser
# loses the moffs encodings (a0..a3): dict_add() leaves a 'txt' key in the
# operand and the 'mim' matcher of asm_candidates rejects any unknown key.
a = intel('mov eax, DWORD PTR foo[4]')        # displacement outside brackets
b = intel('mov eax, DWORD PTR [foo+4]')       # same operand, inside brackets
c = att('movl foo+4, %eax')                   # AT&T transliteration
print('foo[4]    ->', sorted(a))
print('[foo+4]   ->', sorted(b))
print('AT&T      ->', sorted(c))
assert 'a104000000' in a and 'a104000000' in c
same(a, c, "Intel 'DWORD PTR foo[4]' vs AT&T 'foo+4'")          # passes
same(a, b, "'DWORD PTR foo[4]' vs 'DWORD PTR [foo+4]'")          # fails
# sign convention of the same displacement: '-' goes through dict_sub (no
# 'txt'), '+0xfffffffc' through dict_add
same(intel('mov eax, DWORD PTR [foo-4]'), intel('mov eax, DWORD PTR [foo+0xfffffffc]'), '[foo-4] vs [foo+0xfffffffc]')
same(intel('mov DWORD PTR foo+4, eax'), att('movl %eax, foo+4'), "gcc style 'DWORD PTR foo+4' vs AT&T")
