# Run: PYTHONPATH=/tmp/wth_C19 /venv/bin/python repro_4.py
import io, contextlib, logging
import miasmx
assert miasmx.__file__.startswith('/tmp/wth_C19/'), miasmx.__file__
from miasmx.arch.ia32_arch import x86mnemo
logging.disable(logging.CRITICAL)

def intel(line):
    """set of candidate encodings (hex) of an Intel-syntax line"""
    with contextlib.redirect_stdout(io.StringIO()):
        return set(b.hex() for b in x86mnemo.asm(line))

def att(line):
    """set of candidate encodings (hex) of an AT&T-syntax line"""
    with contextlib.redirect_stdout(io.StringIO()):
        return set(b.hex() for b in x86mnemo.asm_att(line))

def same(a, b, what):
    assert a == b, "%s\n   only in first : %s\n   only in second: %s" % (what, sorted(a - b), sorted(b - a))

# Defect 4: a segment register operand of 'mov' cannot be assembled from
# AT&T syntax (empty candidate list) although the Intel line is accepted.
for i, a in [('mov ds, eax', 'movl %eax, %ds'),
             ('mov eax, es', 'movl %es, %eax'),
             ('mov WORD PTR [eax], ds', 'movw %ds, (%eax)'),
             ('mov ds, WORD PTR [eax]', 'movw (%eax), %ds')]:
    ri, ra = intel(i), att(a)
    print('%-26s -> %-30s | %-20s -> %s' % (i, sorted(ri)[:2], a, sorted(ra)[:2]))
for i, a in [('mov ds, eax', 'movl %eax, %ds'),
             ('mov eax, es', 'movl %es, %eax'),
             ('mov WORD PTR [eax], ds', 'movw %ds, (%eax)')]:
    same(intel(i), att(a), '%r vs %r' % (i, a))
