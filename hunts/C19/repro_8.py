# Run: PYTHONPATH=/tmp/wth_C19 /venv/bin/python repro_8.py
import io, contextlib, logging
import miasmx
assert miasmx.__file__.startswith('/tmp/wth_C19/'), miasmx.__file__
from miasmx.arch.ia32_arch import x86mnemo
logging.disable(logging.CRITICAL)

def intel(line):
    """set of candidate encodings (hex) of an Intel-syntax line"""
    with contextlib.redirect_stdout(io.StringIO()):
        return set(b.hex() for b in x86mnemo.asm(line))

def att(line):
    """set of candidate encodings (hex) of an AT&T-syntax line"""
    with contextlib.redirect_stdout(io.StringIO()):
        return set(b.hex() for b in x86mnemo.asm_att(line))

def same(a, b, what):
    assert a == b, "%s\n   only in first : %s\n   only in second: %s" % (what, sorted(a - b), sorted(b - a))

# Defect 8: AT&T 'fnstsw <mem>' yields no encoding although the Intel line
# 'fnstsw WORD PTR [eax]' does (the memory operand never receives its size).
i = intel('fnstsw WORD PTR [eax]')
a = att('fnstsw (%eax)')
print('intel fnstsw WORD PTR [eax] ->', sorted(i)[:3], '...')
print('att   fnstsw (%eax)         ->', sorted(a))
same(intel('fnstcw WORD PTR [eax]'), att('fnstcw (%eax)'), 'fnstcw')   # passes
same(intel('fnstsw ax'), att('fnstsw %ax'), 'fnstsw ax')               # passes
same(i, a, "Intel 'fnstsw WORD PTR [eax]' vs AT&T 'fnstsw (%eax)'")     # fails
