import sys, io, contextlib
import miasmx
assert miasmx.__file__.startswith('/tmp/wth_C19/'), miasmx.__file__
from miasmx.arch.ia32_arch import x86mnemo
import logging
logging.getLogger().setLevel(logging.CRITICAL)
def A(l):
    buf = io.StringIO()
    try:
        with contextlib.redirect_stdout(buf):
            r = x86mnemo.asm(l)
        r = [x.hex() for x in r]
    except Exception as e:
        return 'EXC %s: %s' % (type(e).__name__, str(e)[:80].replace('\n',' '))
    if buf.getvalue():
        return (r, 'OUT:'+buf.getvalue().strip()[:60])
    return r
def T(l):
    buf = io.StringIO()
    try:
        with contextlib.redirect_stdout(buf):
            r = x86mnemo.asm_att(l)
        r = [x.hex() for x in r]
    except Exception as e:
        return 'EXC %s: %s' % (type(e).__name__, str(e)[:80].replace('\n',' '))
    if buf.getvalue():
        return (r, 'OUT:'+buf.getvalue().strip()[:60])
    return r
if __name__ == '__main__':
    for l in sys.argv[1:]:
        if l.startswith('@'):
            print('%-40r %s' % (l, T(l[1:])))
        else:
            print('%-40r %s' % (l, A(l)))
