# Run: PYTHONPATH=/tmp/wth_C19 /venv/bin/python repro_6.py
import io, contextlib, logging
import miasmx
assert miasmx.__file__.startswith('/tmp/wth_C19/'), miasmx.__file__
from miasmx.arch.ia32_arch import x86mnemo
logging.disable(logging.CRITICAL)

def intel(line):
    """set of candidate encodings (hex) of an Intel-syntax line"""
    with contextlib.redirect_stdout(io.StringIO()):
        return set(b.hex() for b in x86mnemo.asm(line))

def att(line):
    """set of candidate encodings (hex) of an AT&T-syntax line"""
    with contextlib.redirect_stdout(io.StringIO()):
        return set(b.hex() for b in x86mnemo.asm_att(line))

def same(a, b, what):
    assert a == b, "%s\n   only in first : %s\n   only in second: %s" % (what, sorted(a - b), sorted(b - a))

# Defect 6: AT&T 'cmovnl' (a mnemonic that ends in 'l' by itself) has its
# last letter stripped as if it were the 'l' size suffix -> 'cmovn', unknown.
i = intel('cmovnl eax, ebx')
a = att('cmovnl %ebx, %eax')
print('intel cmovnl eax, ebx    ->', sorted(i))
print('att   cmovnl %ebx, %eax  ->', sorted(a))
print('att   cmovnll %ebx, %eax ->', sorted(att('cmovnll %ebx, %eax')))
print('att   cmovge %ebx, %eax  ->', sorted(att('cmovge %ebx, %eax')))
same(intel('cmovge eax, ebx'), att('cmovge %ebx, %eax'), 'cmovge')   # passes
same(i, a, "Intel 'cmovnl eax, ebx' vs AT&T 'cmovnl %ebx, %eax'")    # fails
