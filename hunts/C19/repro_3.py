# Run: PYTHONPATH=/tmp/wth_C19 /venv/bin/python repro_3.py
import io, contextlib, logging
import miasmx
assert miasmx.__file__.startswith('/tmp/wth_C19/'), miasmx.__file__
from miasmx.arch.ia32_arch import x86mnemo
logging.disable(logging.CRITICAL)

def intel(line):
    """set of candidate encodings (hex) of an Intel-syntax line"""
    with contextlib.redirect_stdout(io.StringIO()):
        return set(b.hex() for b in x86mnemo.asm(line))

def att(line):
    """set of candidate encodings (hex) of an AT&T-syntax line"""
    with contextlib.redirect_stdout(io.StringIO()):
        return set(b.hex() for b in x86mnemo.asm_att(line))

def same(a, b, what):
    assert a == b, "%s\n   only in first : %s\n   only in second: %s" % (what, sorted(a - b), sorted(b - a))

# Defect 3: an explicit ds: override is dropped by the Intel grammar (unless
# ebp/esp is used) but always kept (prefix 3e) by the AT&T grammar.
a = intel('mov eax, DWORD PTR ds:[ebx]')
b = att('movl %ds:(%ebx), %eax')
print('intel ->', sorted(a)[:4], '...')
print('att   ->', sorted(b)[:4], '...')
# the two grammars agree for every other segment and for ds with ebp:
same(intel('mov eax, DWORD PTR fs:[ebx]'), att('movl %fs:(%ebx), %eax'), 'fs: override')
same(intel('mov eax, DWORD PTR ds:[ebp+4]'), att('movl %ds:4(%ebp), %eax'), 'ds: override with ebp')
same(a, b, "Intel 'mov eax, DWORD PTR ds:[ebx]' vs AT&T 'movl %ds:(%ebx), %eax'")
