# Run: PYTHONPATH=/tmp/wth_C19 /venv/bin/python extra_observations.py   (prints only; minor findings outside the top 8)
import io, contextlib, logging
import miasmx
assert miasmx.__file__.startswith('/tmp/wth_C19/'), miasmx.__file__
from miasmx.arch.ia32_arch import x86mnemo
logging.disable(logging.CRITICAL)

def intel(line):
    """set of candidate encodings (hex) of an Intel-syntax line"""
    with contextlib.redirect_stdout(io.StringIO()):
        return set(b.hex() for b in x86mnemo.asm(line))

def att(line):
    """set of candidate encodings (hex) of an AT&T-syntax line"""
    with contextlib.redirect_stdout(io.StringIO()):
        return set(b.hex() for b in x86mnemo.asm_att(line))

def same(a, b, what):
    assert a == b, "%s\n   only in first : %s\n   only in second: %s" % (what, sorted(a - b), sorted(b - a))

def show(kind, line):
    f = intel if kind == 'intel' else att
    try:
        r = sorted(f(line))
        r = r[:3] + (['...'] if len(r) > 3 else [])
    except Exception as e:
        r = '%s: %s' % (type(e).__name__, str(e).replace('\n', ' ').replace('\t', ' ')[:70])
    print('  %-5s %-36s -> %s' % (kind, line, r))

print("A. displacement outside the brackets overwrites (instead of adds to) an inner displacement")
show('intel', 'mov eax, 4[eax+8]'); show('intel', 'mov eax, [eax+12]'); show('intel', 'mov eax, [eax+4]')
print("B. optional '%' prefix is not accepted on segment registers in the Intel grammar")
show('intel', 'push es'); show('intel', 'push %es'); show('intel', 'mov eax, DWORD PTR es:[ebx]'); show('intel', 'mov eax, DWORD PTR %es:[ebx]')
print("C. top-level 'number+symbol' (term order) is rejected, 'symbol+number' accepted")
show('intel', 'mov eax, DWORD PTR foo+4'); show('intel', 'mov eax, DWORD PTR 4+foo'); show('intel', 'jmp foo-4'); show('intel', 'jmp -4+foo'); show('att', 'jmp -4+foo')
show('intel', 'mov eax, DWORD PTR 4+foo[ebx]'); show('intel', 'mov eax, DWORD PTR foo+4[ebx]')
print("D. AT&T indirect jmp/call through a segment-overridden operand is rejected")
show('intel', 'call DWORD PTR fs:[eax]'); show('att', 'call *%fs:(%eax)')
print("E. Intel 'seg:disp' / bare symbol without PTR is an immediate carrying a segment prefix")
show('intel', 'mov eax, DWORD PTR fs:0x10'); show('intel', 'mov eax, fs:0x10'); show('att', 'movl %fs:0x10, %eax')
print("F. AT&T 'constant + constant' keeps only the right-hand number")
show('att', 'movl 4+4(%eax), %ecx'); show('intel', 'mov ecx, [eax+4+4]'); show('att', 'movl $-4+8, %eax')
print("G. 16-bit registers in an Intel memory operand: NameError('TODO') as soon as '+' is used")
show('intel', 'mov eax, 4[bx]'); show('intel', 'mov eax, [bx+4]'); show('att', 'movl 4(%bx), %eax')
print("H. (not in the property's list) mnemonics and prefixes are case sensitive")
show('intel', 'mov eax, 1'); show('intel', 'MOV eax, 1'); show('intel', 'REP movsd')
