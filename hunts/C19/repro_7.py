# Run: PYTHONPATH=/tmp/wth_C19 /venv/bin/python repro_7.py
import io, contextlib, logging
import miasmx
assert miasmx.__file__.startswith('/tmp/wth_C19/'), miasmx.__file__
from miasmx.arch.ia32_arch import x86mnemo
logging.disable(logging.CRITICAL)

def intel(line):
    """set of candidate encodings (hex) of an Intel-syntax line"""
    with contextlib.redirect_stdout(io.StringIO()):
        return set(b.hex() for b in x86mnemo.asm(line))

def att(line):
    """set of candidate encodings (hex) of an AT&T-syntax line"""
    with contextlib.redirect_stdout(io.StringIO()):
        return set(b.hex() for b in x86mnemo.asm_att(line))

def same(a, b, what):
    assert a == b, "%s\n   only in first : %s\n   only in second: %s" % (what, sorted(a - b), sorted(b - a))

# Defect 7: the AT&T front end only knows a hand-written white list of
# mnemonics; for every other mnemonic the transliteration of an accepted
# Intel line raises ValueError("Mnemonic ... unknown"), and for some names
# an unguarded table lookup raises KeyError.
pairs = [('loop 4', 'loop 4'), ('hlt', 'hlt'), ('rdtsc', 'rdtsc'), ('sysenter', 'sysenter'),
         ('iret', 'iret'), ('xlat', 'xlat'), ('enter 8, 0', 'enter $8, $0'),
         ('rcl eax, 5', 'rcll $5, %eax'), ('rcr bl, 1', 'rcrb $1, %bl'),
         ('lds eax, DWORD PTR [esi]', 'ldsl (%esi), %eax'), ('pop eax', 'pop %eax'),
         ('mov eax, ebx', 'mov %ebx, %eax'),
         ('fcomi st, st(1)', 'fcomi %st(1), %st'), ('pushad', 'pusha'),
         ('fisttp WORD PTR [eax]', 'fisttpw (%eax)')]
failed = []
for i, a in pairs:
    ri = intel(i)
    assert ri, i
    try:
        ra = att(a)
    except Exception as e:
        ra = '%s: %s' % (type(e).__name__, e)
    print('%-28s %-22s | %-22s %s' % (i, sorted(ri)[:2], a, ra if isinstance(ra, str) else sorted(ra)[:2]))
    if ra != ri:
        failed.append(a)
assert not failed, 'AT&T transliterations not assembled like the Intel line: %s' % failed
