# Defect 1: any MMX/SSE instruction carrying an address-size (67), segment or
# lock prefix is mis-decoded (wrong length / wrong addressing form / wrong
# register file) and/or cannot be rendered at all.
from _common import *
bad = []
def check(h, length, must_contain):
    try:
        op = dis(h)
        s = str(op)
    except Exception as e:
        bad.append((h, 'raised %r' % e)); print(h, 'raised %r' % e); return
    print(h, op.l, s)
    if op.l != length: bad.append((h, 'length %d, expected %d' % (op.l, length)))
    for w in must_contain:
        if w not in s: bad.append((h, '%r lacks %r' % (s, w)))

# 67 66 0F 6F 06 34 12 = movdqa xmm0, XMMWORD PTR ds:0x1234 (16-bit ModRM, mod=0 rm=6 -> disp16): 7 bytes
check('67660f6f063412', 7, ['movdqa', 'xmm0', '4660'])       # actual: l=5 'movdqa xmm0, XMMWORD PTR [esi]'
# 67 66 0F FD 30 = paddw xmm6, XMMWORD PTR [bx+si]
check('67660ffd30', 5, ['paddw', 'xmm6', '[bx+si]'])          # actual: '[eax]'
# 64 0F 6F 00 = movq mm0, QWORD PTR fs:[eax]
check('640f6f00', 4, ['movq', ' mm0', 'fs:[eax]'])            # actual: arg[0] is xmm0, str() raises ValueError
# 64 0F 10 00 = movups xmm0, XMMWORD PTR fs:[eax]
check('640f1000', 4, ['movups', 'xmm0', 'fs:[eax]'])          # actual: str() raises ValueError
# 66 64 0F 6E 00 = movd xmm0, DWORD PTR fs:[eax]
check('66640f6e00', 5, ['movd', 'xmm0', 'fs:[eax]'])          # actual: dis() raises NameError('NEVER')
assert not bad, bad
