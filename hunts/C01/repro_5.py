# Defect 5: r/m operands that are architecturally 16-bit (MOV Sreg, LAR, LSL,
# SLDT/STR/LLDT/LTR/VERR/VERW, SMSW/LMSW) are reported with the current
# operand size (DWORD PTR / eax).
from _common import *
bad = []
for h, want in [('8e00', 'WORD PTR [eax]'),     # mov es, WORD PTR [eax]
                ('8c00', 'WORD PTR [eax]'),     # mov WORD PTR [eax], es
                ('0f0200', 'WORD PTR [eax]'),   # lar eax, WORD PTR [eax]
                ('0f0300', 'WORD PTR [eax]'),   # lsl eax, WORD PTR [eax]
                ('0f0000', 'WORD PTR [eax]'),   # sldt WORD PTR [eax]
                ('0f0120', 'WORD PTR [eax]'),   # smsw WORD PTR [eax]
                ('0f00d0', 'ax'),               # lldt ax
                ('0f01f0', 'ax')]:              # lmsw ax
    s = str(dis(h))
    print(h, s)
    ops = [o.strip() for o in s.split(None, 1)[1].split(',')]
    if want not in ops: bad.append((h, s, want))
assert not bad, bad
