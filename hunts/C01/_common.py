# helper shared by the reproducers: makes sure the worktree copy is imported
import sys, logging
sys.path.insert(0, '/tmp/wth_C01')
import miasmx
assert miasmx.__file__.startswith('/tmp/wth_C01/'), miasmx.__file__
from miasmx.arch import ia32_arch
ia32_arch.log.setLevel(logging.CRITICAL)
from miasmx.arch.ia32_arch import x86mnemo
from miasmx.arch.ia32_reg import x86_afs

def dis(hexstr):
    return x86mnemo.dis(bytes.fromhex(hexstr))

def is_mem(a):
    return bool(a.get(x86_afs.ad))
