# Defect 6: INS / OUTS are reported without operands and without a size
# suffix: 6C (insb), 6D (insd) and 66 6D (insw) are indistinguishable, and a
# segment override on OUTS is lost.
from _common import *
r = dict((h, str(dis(h)).strip()) for h in ['6c', '6d', '666d', '6e', '6f', '646e'])
print(r)                    # actual: 'ins' x3, 'outs' x3 ; op.arg == []
assert dis('6c').arg != [] or r['6c'] != r['6d'], "insb and insd render identically: %r" % r['6c']
assert r['6d'] != r['666d']
assert r['6e'] != r['6f']
assert r['6e'] != r['646e']
