# Defect 8: the operand-size prefix is not reflected for PUSHA/POPA (and
# IRET/RET/RETF/ENTER/LEAVE/push-pop Sreg): 66 60 is PUSHA (pushaw, 8 x 16-bit)
# but is reported as 'pushad'; only pushf/popf are special-cased.
from _common import *
op = dis('6660')
print(str(op))              # actual: 'pushad'
assert op.m.name in ('pusha', 'pushaw'), op.m.name
assert dis('6661').m.name in ('popa', 'popaw')
