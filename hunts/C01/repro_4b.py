# Defect 4 (more witnesses, each one fails on its own)
from _common import *
bad = []
for h, want in [('0f01d0', 'xgetbv'), ('0f01d1', 'xsetbv'), ('0f01f9', 'rdtscp'),
                ('0f01c1', 'vmcall'), ('0f01ca', 'clac'), ('0f01cb', 'stac')]:
    op = dis(h)
    print(h, op and str(op))
    if op is not None and op.m.name != want: bad.append((h, str(op), want))
# C5 C0 .. is not "lds eax, eax" (2 bytes): LDS needs a memory operand; in
# 32-bit code C5 with mod=3 is the 2-byte VEX prefix (here vmovlps, 5 bytes)
op = dis('c5c0123456')
print(op and (op.l, str(op)))
if op is not None and op.m.name == 'lds': bad.append(('c5c0123456', str(op), 'VEX / not lds'))
assert not bad, bad
