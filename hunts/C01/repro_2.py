# Defect 2: MOV to/from control/debug registers (0F 20..23): the ModRM mod field
# must be ignored (r/m always names a general register); miasmX decodes
# mod != 3 as a memory operand and swallows SIB / displacement bytes.
from _common import *
bad = []
op = dis('0f2000')          # mov eax, cr0 (mod=00 is ignored by the CPU)
print(op.l, str(op))        # actual: 3 'mov       DWORD PTR [eax], cr0'
if is_mem(op.arg[0]): bad.append("0f2000: r/m operand reported as memory: %s" % op)

op = dis('0f20042490')      # 0F 20 04 = mov esp, cr0 (3 bytes); '24 90' (and al,0x90) follows
print(op.l, str(op))        # actual: 4 'mov       DWORD PTR [esp], cr0'
if op.l != 3 or op.b != bytes.fromhex('0f2004'): bad.append("0f200424: length %d raw %r, expected 3" % (op.l, op.b))

op = dis('0f23801122334490')  # 0F 23 80 = mov dr0, eax (3 bytes)
print(op.l, str(op))          # actual: 7 'mov       dr0, DWORD PTR [eax+1144201745]'
if op.l != 3: bad.append("0f2380..: length %d, expected 3" % op.l)
assert not bad, bad
