# Defect 3: segment-override and address-size prefixes are ignored for the
# string instructions / xlat: the memory operands are hard-wired to
# ds:[esi] / es:[edi] and the rendering is that of the un-prefixed form.
from _common import *
FS = x86_afs.reg_sg.index('fs')
bad = []
op = dis('64a4')            # movs BYTE PTR es:[edi], BYTE PTR fs:[esi]
print(op.prefix, op.arg, str(op))
seg = op.arg[1][x86_afs.segm]
if seg != FS: bad.append("64a4: source segment is %s, expected fs" % x86_afs.reg_sg[seg])
op = dis('64ac')            # lods al, BYTE PTR fs:[esi]
seg = op.arg[0][x86_afs.segm]
if seg != FS: bad.append("64ac: source segment is %s, expected fs" % x86_afs.reg_sg[seg])
op = dis('67a4')            # movs BYTE PTR es:[di], BYTE PTR ds:[si]
if x86_afs.reg_list32.index('esi') in op.arg[1] and op.admode == 'u16' and 'si' not in str(op):
    bad.append("67a4: operands still esi/edi, rendering %r" % str(op))
# the rendering cannot tell the prefixed instructions from the plain ones
for p, q in [('64a4', 'a4'), ('67a4', 'a4'), ('2ea6', 'a6'), ('2ed7', 'd7'), ('646e', '6e')]:
    if str(dis(p)) == str(dis(q)): bad.append("%s renders like %s: %r" % (p, q, str(dis(p))))
assert not bad, bad
