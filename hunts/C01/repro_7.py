# Defect 7: a memory operand that consists of a displacement only is rendered
# as a bare number (no brackets); whenever the size keyword is empty (MMX
# operands, lea, prefetch*, cmpxchg8b) it is indistinguishable from an
# immediate, and "push imm16" / "push WORD PTR [abs]" render identically.
from _common import *
op = dis('0f6f0578563412')  # movq mm0, QWORD PTR ds:0x12345678
print(str(op))              # actual: 'movq      mm0, 305419896'
assert is_mem(op.arg[1])
src = str(op).split(',')[1].strip()
assert '[' in src or 'PTR' in src or ':' in src, "memory operand rendered as immediate: %r" % str(op)
