# Defect 4: opcodes whose r/m operand must be memory (0F 01 /0../3,/7, 0F 00,
# 0F AE, 0F 18, 0F C7 /1, C4, C5, 8D, 62 ...) also accept mod=3, so the
# register-form instructions that share those opcodes are reported as
# nonsensical "lgdt eax" etc.
from _common import *

op = dis('0f01d0')          # XGETBV
print(op.l, str(op))        # actual: 'lgdt      eax'
assert op.m.name == 'xgetbv' and op.arg == [], str(op)
