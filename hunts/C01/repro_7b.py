from _common import *
a = dis('66683412')         # push imm16 0x1234
b = dis('66ff3534120000')   # push WORD PTR ds:0x1234
print(str(a)); print(str(b))        # both: 'push      WORD PTR 4660'
assert is_mem(b.arg[0]) and not is_mem(a.arg[0])
assert str(a) != str(b), "two different instructions render identically: %r" % str(a)
