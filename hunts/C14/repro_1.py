# Left shift by a large count builds the unreduced 2^count-bit integer
# instead of returning 0 (all bits shifted out).
from _common import *
fails = []
for cls in (uint64, int64, uint128, int128):
    n = cls.size
    ucls = {64: uint64, 128: uint128}[n]
    for cnt in (ucls((1 << n) - 1), (1 << n) - 1, uint64(1 << 62)):   # boundary value 2^n-1 as (non-negative) count
        try:
            r = cls(1) << cnt
            assert type(r).size >= n and r == 0, r
        except (MemoryError, OverflowError) as e:
            fails.append((cls.__name__, type(cnt).__name__, type(e).__name__))
# reflected form, plain int on the left
try:
    r = 1 << uint64((1 << 64) - 1)
    assert r == 0
except (MemoryError, OverflowError) as e:
    fails.append(('int', 'uint64', type(e).__name__))
print(fails)
assert not fails, "x << big raises instead of returning 0: %r" % fails
