import operator, itertools, random, collections
import miasmx
assert miasmx.__file__.startswith('/tmp/wth_C14/'), miasmx.__file__
from miasmx.tools import modint as M
U=[M.uint1,M.uint8,M.uint16,M.uint32,M.uint64,M.uint128]
S=[M.int8,M.int16,M.int32,M.int64,M.int128]
def signed(c): return issubclass(c,M.modint)
def red(c,v):
    v%=1<<c.size
    if signed(c) and v>=1<<(c.size-1): v-=1<<c.size
    return v
def bset(n):
    return sorted({0,1,(1<<(n-1))-1,1<<(n-1),(1<<n)-1, 2,3, (1<<n)-2})
ops={'+':operator.add,'-':operator.sub,'*':operator.mul,'&':operator.and_,'|':operator.or_,'^':operator.xor,
 '<<':operator.lshift,'>>':operator.rshift,'%':operator.mod,'**':operator.pow,
 '==':operator.eq,'!=':operator.ne,'<':operator.lt,'<=':operator.le,'>':operator.gt,'>=':operator.ge}
cmpops={'==','!=','<','<=','>','>='}
bad=collections.Counter(); ex={}
def rec(k,info):
    bad[k]+=1; ex.setdefault(k,info)
def check(name,f,a,b,exp_cls):
    # a,b are moduint or int
    va=a.arg if isinstance(a,M.moduint) else a
    vb=b.arg if isinstance(b,M.moduint) else b
    if name in('<<','**') and (vb>300 or vb<0): return
    if name=='>>' and vb<0: return
    if name=='%' and vb==0: return
    exact=f(va,vb)
    try: r=f(a,b)
    except Exception as e:
        rec((name,'exc',type(e).__name__,type(a).__name__,type(b).__name__),(a,b,e)); return
    if name in cmpops:
        if r is not exact: rec((name,'cmp',type(a).__name__,type(b).__name__),(a,b,r,exact))
        return
    if type(r) is not exp_cls and exp_cls is not None:
        rec((name,'type',type(a).__name__,type(b).__name__,type(r).__name__),(a,b,r,exp_cls.__name__)); 
        if not isinstance(r,M.moduint): return
    e=red(type(r),exact)
    if r.arg!=e: rec((name,'val',type(a).__name__,type(b).__name__),(a,b,r,e))
for c1 in U+S:
  for c2 in U+S:
    exp = c1 if c1.size>c2.size else (c2 if c2.size>c1.size else (c1 if signed(c1)==signed(c2) else None))
    for x in bset(c1.size):
      for y in bset(c2.size):
        for n,f in ops.items():
            check(n,f,c1(x),c2(y),exp)
  for x in bset(c1.size):
    for y in bset(c1.size)+[-1,-2,1<<c1.size,(1<<c1.size)+1, -(1<<c1.size)]:
        for n,f in ops.items():
            check(n,f,c1(x),y,c1)
            check(n,f,y,c1(x),c1)
# exhaustive 8-bit
for c1 in (M.uint8,M.int8):
  for x in range(256):
    X=c1(x)
    assert (~X).arg==red(c1,~X.arg) and (-X).arg==red(c1,-X.arg) and abs(X).arg==red(c1,abs(X.arg)) and int(X)==X.arg and hash(X)==hash(X.arg)
    for y in range(256):
      Y=c1(y)
      for n,f in ops.items():
        check(n,f,X,Y,c1)
# mixed-sign commutativity
for k,v in sorted(bad.items(),key=str): print(k,v,ex[k])
