# Division is unreachable on Python 3: only the Python-2 hooks __div__/__rdiv__ exist
# (and they use '/', i.e. float true division). Also no __index__, so hex()/indexing fail,
# and the module's own self-test (python -m miasmx.tools.modint) dies on these.
from _common import *
errs = []
for src in ("uint8(6) / uint8(3)", "uint8(6) // 3", "6 // uint8(3)", "divmod(uint8(7), 2)", "hex(uint8(0x42))"):
    try:
        eval(src)
    except TypeError as e:
        errs.append((src, str(e)))
for e in errs: print(e)
assert not errs, errs
