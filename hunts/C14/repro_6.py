# Same width, mixed signedness: the result class is that of the RIGHT operand (tie in maxcast),
# so a+b and b+a (i.e. b.__radd__(a)) have different types and compare unequal.
from _common import *
a, b = uint8(200), int8(0)
x, y = a + b, b + a
print(repr(x), repr(y), x == y, repr(b.__radd__(a)))
assert type(x) is type(y), "a+b is %r but b+a is %r" % (x, y)
assert x == y
