# Reflected pow leaves the fixed-width world: int ** uintN returns a plain, unreduced int.
from _common import *
r = 2 ** uint8(9)
print(repr(r), repr(uint8(2) ** 9), repr(2 * uint8(200)))
assert isinstance(2 * uint8(200), uint8)               # other reflected operators keep the type
assert isinstance(r, uint8) and r == 0, "expected uint8(0x0), got %r" % (r,)
