# Negative exponent: int ** negative gives a float which __init__ silently truncates.
# 3 is invertible mod 256 (3*171 == 513 == 1 mod 256); the only defensible outcomes are
# uint8(171) (== pow(3,-1,256)) or an exception -- never a silent 0.
from _common import *
try:
    r = uint8(3) ** -1
except (ValueError, ZeroDivisionError, TypeError):
    raise SystemExit(0)
print(repr(r), repr(uint8(3) ** int8(-1)), repr(uint64(3) ** -5))
assert r == pow(3, -1, 256) == 171 and (r * 3) == 1, "uint8(3)**-1 gave %r, expected uint8(0xab) or an exception" % r
