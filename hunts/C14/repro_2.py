# pow computes the exact (astronomically large) power before reducing:
# uint64(3) ** uint64(2**64-1) must be pow(3, 2**64-1, 2**64), instantly.
import subprocess, sys, os
code = r'''
import resource
resource.setrlimit(resource.RLIMIT_AS, (2<<30, 2<<30))
from _common import *
e = (1 << 64) - 1
r = uint64(3) ** uint64(e)
assert type(r) is uint64 and r.arg == pow(3, e, 1 << 64), r
print("ok", r)
'''
try:
    p = subprocess.run([sys.executable, '-c', code], cwd=os.path.dirname(os.path.abspath(__file__)),
                       timeout=20, capture_output=True, text=True)
    out = (p.returncode, p.stdout[-200:], p.stderr[-300:])
except subprocess.TimeoutExpired:
    out = ('timeout after 20s',)
print(out)
assert out[0] == 0, "uint64(3)**uint64(2**64-1) expected uint64(%#x); got %r" % (pow(3, (1 << 64) - 1, 1 << 64), out)
