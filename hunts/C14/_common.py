import miasmx
assert miasmx.__file__.startswith('/tmp/wth_C14/'), miasmx.__file__
from miasmx.tools.modint import *
