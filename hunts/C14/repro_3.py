# pow ignores the width of a fixed-width exponent: result should be the wider type.
from _common import *
r = uint8(2) ** uint16(9)
print(repr(r), repr(uint8(2) * uint16(256)), repr(uint8(2) << uint16(9)))
assert type(uint8(2) * uint16(256)) is uint16          # every other operator widens
assert type(r) is uint16 and r == 0x200, "expected uint16(0x200), got %r" % r
