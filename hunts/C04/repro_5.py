# Defect 5: cwd (66 99) swaps eax and edx instead of sign-extending ax into dx.
from _common import Run
r = Run('6699', eax=0x00018000, edx=0x12345678)
print(r.op, 'eax=%#x edx=%#x (expected eax=0x18000 edx=0x1234ffff)' % (r['eax'], r['edx']))
assert (r['eax'], r['edx']) == (0x00018000, 0x1234ffff)
