# Defect 1: AF is taken from bit 4 of the RESULT instead of the carry/borrow
# out of bit 3 (update_flag_af).  Affects add/adc/sub/sbb/cmp/neg/inc/dec/
# xadd/cmps/scas.
from _common import Run
bad = []
def chk(what, hexcode, exp_af, **regs):
    r = Run(hexcode, **regs)
    got = r['af']
    print('%-28s %-22s AF got %d expected %d' % (what, r.op, got, exp_af))
    if got != exp_af: bad.append(what)
chk('0x10 + 0',        '01d8', 0, eax=0x10, ebx=0)          # add eax, ebx
chk('0x10 - 1',        '29d8', 1, eax=0x10, ebx=1)          # sub eax, ebx
chk('cmp 0x20, 0x10',  '39d8', 0, eax=0x20, ebx=0x10)       # cmp eax, ebx
chk('inc 0x1f',        '40',   1, eax=0x1f)                 # inc eax
chk('dec 0x30',        '48',   1, eax=0x30)                 # dec eax
chk('neg 0x10',        'f7d8', 0, eax=0x10)                 # neg eax
chk('adc 0x0f+0+CF',   '11d8', 1, eax=0x0f, ebx=0, cf=1)    # adc eax, ebx (control: correct by luck)
assert not bad, 'wrong AF for: %s' % bad
