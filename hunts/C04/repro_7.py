# Defect 7: bt/bts/btr/btc address computation (bittest_get):
#  (a) memory operand + register bit offset: negative offsets are shifted
#      logically, so the dword is fetched ~512MB above instead of just below;
#  (b) memory operand + imm8 >= operand size: the immediate must be taken
#      modulo the operand size, the lifter moves to the next dword instead;
#  (c) 16-bit register operand: the lifter crashes (AttributeError).
from _common import Run
bad = []
# (a) bts [esi], ebx  (0f ab 1e)  ebx=-1 -> bit 31 of the dword at esi-4
r = Run('0fab1e', esi=0x1000, ebx=0xffffffff, mem={(0xffc, 32): 0, (0x1000, 32): 0})
print(r.op); print('    mem:', r.m.dump_mem())
try:
    if r.mem(0xffc, 32) != 0x80000000: bad.append('a')
except AssertionError: bad.append('a')
# (b) bts [esi], 32   (0f ba 2e 20) -> bit 0 of the dword at esi
r = Run('0fba2e20', esi=0x1000, mem={(0x1000, 32): 0, (0x1004, 32): 0})
print(r.op); print('    mem:', r.m.dump_mem())
if (r.mem(0x1000, 32), r.mem(0x1004, 32)) != (1, 0): bad.append('b')
# (c) bt ax, bx       (66 0f a3 d8)
try:
    r = Run('660fa3d8', eax=0x0004, ebx=2)
    print(r.op, 'cf =', r['cf'])
    if r['cf'] != 1: bad.append('c')
except AttributeError as ex:
    print('bt ax, bx -> lifter raised AttributeError:', ex); bad.append('c')
assert not bad, 'bit-test defects: %s' % bad
