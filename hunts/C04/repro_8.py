# Defect 8: xchg / xadd between the two byte registers of one dword register
# (al/ah, bl/bh, cl/ch, dl/dh): both operands are written as "whole register
# with one byte replaced", the second write wins and the first is lost.
from _common import Run
r = Run('86c4', eax=0x1234)          # xchg ah, al
print(r.op, 'eax=%#x (expected 0x3412)' % r['eax'])
a = r['eax']
r = Run('0fc0e0', eax=0x0102)        # xadd al, ah : al := al+ah = 3, ah := old al = 2
print(r.op, 'eax=%#x (expected 0x203)' % r['eax'])
b = r['eax']
assert a == 0x3412, 'xchg ah, al'
assert b == 0x0203, 'xadd al, ah'
