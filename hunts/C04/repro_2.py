# Defect 2: cmpxchg loads the accumulator with the SOURCE register instead of
# the destination when the comparison fails; the byte form with ah/ch/dh/bh
# as source also uses AH instead of AL as accumulator.
from _common import Run
# cmpxchg ebx, ecx   (0f b1 cb)   eax=1 != ebx=2  ->  eax := ebx (=2), ebx unchanged
r = Run('0fb1cb', eax=1, ebx=2, ecx=3)
print(r.op, 'eax=%#x ebx=%#x (expected eax=0x2 ebx=0x2)' % (r['eax'], r['ebx']))
ok1 = (r['eax'], r['ebx']) == (2, 2)
# cmpxchg bl, ah     (0f b0 e3)   al=2 == bl=2   ->  ZF=1, bl := ah (=1), eax unchanged
r = Run('0fb0e3', eax=0x0102, ebx=2)
print(r.op, 'eax=%#x ebx=%#x zf=%d (expected eax=0x102 ebx=0x1 zf=1)' % (r['eax'], r['ebx'], r['zf']))
ok2 = (r['eax'], r['ebx'], r['zf']) == (0x102, 1, 1)
assert ok1, 'cmpxchg r32: accumulator received the source operand'
assert ok2, 'cmpxchg r8 with high-byte source: AH used as accumulator'
