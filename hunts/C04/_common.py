"""Tiny helper shared by the reproducers: run ONE instruction on a concrete
machine through the public API (x86mnemo.dis + emul_helper.x86_machine +
emul_helper.emul_lines) and read back registers / flags / memory."""
import binascii
import miasmx
assert miasmx.__file__.startswith('/tmp/wth_C04/'), miasmx.__file__
from miasmx.arch.ia32_arch import x86mnemo
from miasmx.arch import ia32_sem as S
from miasmx.tools import emul_helper
from miasmx.tools.modint import uint8, uint16, uint32
from miasmx.expression.expression import ExprInt, ExprMem, ExprSlice, ExprCompose
from miasmx.expression.expression_helper import expr_simp

NAMES = ('eax', 'ebx', 'ecx', 'edx', 'esi', 'edi', 'esp', 'ebp',
         'cf', 'zf', 'nf', 'of', 'pf', 'af', 'df')     # nf is SF

def const(e):
    """fold a constant expression made of ExprInt / ExprSlice / ExprCompose
    (expr_simp leaves e.g. (0x12,0,8, 0x1234[8:32],8,32) unfolded)"""
    if isinstance(e, ExprInt):
        return int(e.arg)
    if isinstance(e, ExprSlice):
        return (const(e.arg) >> e.start) & ((1 << (e.stop - e.start)) - 1)
    if isinstance(e, ExprCompose):
        return sum((const(x) & ((1 << (b - a)) - 1)) << a for x, a, b in e.args)
    raise AssertionError('not a concrete value: %s' % e)

class Run(object):
    def __init__(self, hexcode, mem=None, **regs):
        self.op = x86mnemo.dis(binascii.unhexlify(hexcode))
        self.m = emul_helper.x86_machine()
        for n in NAMES:
            self.m.pool[getattr(S, n)] = ExprInt(uint32(regs.get(n, 0)))
        for (a, size), v in (mem or {}).items():
            cast = {8: uint8, 16: uint16, 32: uint32}[size]
            self.m.pool[ExprMem(ExprInt(uint32(a)), size)] = ExprInt(cast(v))
        self.eip = emul_helper.emul_lines(self.m, [self.op])
    def expr(self, name):
        return expr_simp(self.m.eval_expr(self.m.pool[getattr(S, name)], {}))
    def __getitem__(self, name):
        return const(self.expr(name))
    def mem(self, a, size):
        v = expr_simp(self.m.eval_expr(ExprMem(ExprInt(uint32(a)), size), {}))
        return const(v)
