# Defect 4: idiv r/m8 never writes the remainder to AH (two partial writes to
# eax, the second one overwrites the first).
from _common import Run, S
from miasmx.expression.expression import ExprInt
from miasmx.tools.modint import uint32
from miasmx.tools import emul_helper
# idiv cl (f6 f9): ax=7, cl=2 -> al=3, ah=1
r = Run('f6f9', eax=7, ecx=2)
e = r.expr('eax')
print(r.op, ' eax =', e)
exprs = emul_helper.get_instr_expr(r.op, ExprInt(uint32(2)), [])
for x in exprs: print('    ', x)
# the quotient op is uninterpreted by eval_abs, so check the structure:
# AH (bits 8..16 of the final eax) must be irem8(...), not the old AH.
assert 'irem8' in str(e), 'AH does not receive the remainder: eax = %s' % e
