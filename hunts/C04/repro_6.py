# Defect 6: cbw (66 98) clears bits 16..31 of eax.
from _common import Run
r = Run('6698', eax=0x12345680)
print(r.op, 'eax=%#x (expected 0x1234ff80)' % r['eax'])
assert r['eax'] == 0x1234ff80
