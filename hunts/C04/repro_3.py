# Defect 3: cmps computes [edi] - [esi]; the processor computes [esi] - [edi].
from _common import Run
# cmpsb (a6): [esi]=1, [edi]=2  ->  1-2 = 0xff: CF=1 SF=1 ZF=0
r = Run('a6', esi=0x1000, edi=0x2000, mem={(0x1000, 8): 1, (0x2000, 8): 2})
got = (r['cf'], r['nf'], r['zf'])
print(r.op, 'CF,SF,ZF got', got, 'expected (1, 1, 0)')
# repe cmpsb (f3 a6) over "\x01\x01\x01\x01" vs "\x01\x01\x01\x02": stops on the 4th byte, "below"
r2 = Run('f3a6', esi=0x1000, edi=0x2000, ecx=5,
         mem={(0x1000, 32): 0x01010101, (0x2000, 32): 0x02010101})
got2 = (r2['cf'], r2['nf'], r2['ecx'])
print(r2.op, 'CF,SF,ecx got', got2, 'expected (1, 1, 1)')
assert got == (1, 1, 0), 'cmpsb flags are those of [edi]-[esi]'
assert got2 == (1, 1, 1)
