# fpatan / fyl2x / fyl2xp1 / fsincos: the result is written to a slot that the appended stack shift overwrites
from _common import *
from miasmx.arch.ia32_sem import float_st0, float_st1
l, m = emulate('d9f3', {})     # fpatan
print(l, ' st0 ->', m.pool[float_st0], '   st1 ->', m.pool[float_st1])
for h in ['d9f3', 'd9f1', 'd9f9', 'd9fb']:
    try:
        assert_no_double_write(h)
    except AssertionError as ex:
        print('VIOLATION:', ex)
assert 'fatan' in str(m.pool[float_st0]), "after fpatan st0 should hold atan(st1/st0) but is %s" % m.pool[float_st0]
