# idiv r/m8: AH (remainder) and AL (quotient) are written by two separate whole-eax assignments
from _common import *
from miasmx.arch.ia32_sem import eax, ecx
l, m = emulate('f6f9', {eax: ExprInt(uint32(7)), ecx: ExprInt(uint32(2))})   # idiv cl
print(l, ' eax ->', m.pool[eax])
l2, m2 = emulate('f6f1', {eax: ExprInt(uint32(7)), ecx: ExprInt(uint32(2))})  # div cl, for comparison
print(l2, ' eax ->', m2.pool[eax])
assert 'irem8' in str(m.pool[eax]), "remainder of idiv cl never reaches ah: eax = %s" % m.pool[eax]
assert_no_double_write('f6f9')
