# pop esp / pop sp: esp is assigned twice
from _common import *
for h in ['5c', '665c']:
    try:
        assert_no_double_write(h)
    except AssertionError as ex:
        print('VIOLATION:', ex); failed = True
assert not globals().get('failed'), "pop esp writes esp twice"
