# MMX/SSE memory operand with a scaled index: the scale constant is 64/128 bits wide
from _common import *
def find_mems(e, out):
    if isinstance(e, ExprMem): out.append(e)
    for a in getattr(e, 'args', []):
        find_mems(a[0] if isinstance(a, tuple) else a, out)
    return out
def widths(e, out):
    if isinstance(e, ExprOp):
        out.append((e.op, [a.get_size() for a in e.args]))
        for a in e.args: widths(a, out)
    return out
bad = []
for h in ['0ffc448d12',        # paddb mm0, [ebp+ecx*4+0x12]
          '660ffc448d12',      # paddb xmm0, [ebp+ecx*4+0x12]
          '0f6f0c8d78563412',  # movq mm1, [ecx*4+0x12345678]
          '660f2f448d12']:     # comisd xmm0, [ebp+ecx*4+0x12]
    l, e = lift(h)
    mem = find_mems(e[0].src, [])[0]
    ws = widths(mem.arg, [])
    print(h, l, ' address:', mem.arg, ws)
    for op, w in ws:
        if len(set(w)) != 1: bad.append((h, op, w))
assert not bad, "address arithmetic with operands of different widths: %s" % bad
