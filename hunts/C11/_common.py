# shared helper for the reproducers (public API only)
import io, contextlib, logging
import miasmx
assert miasmx.__file__.startswith('/tmp/wth_C11/'), "wrong miasmx imported: %s" % miasmx.__file__
logging.disable(logging.CRITICAL)
from miasmx.arch.ia32_arch import x86mnemo
from miasmx.tools import emul_helper
from miasmx.tools.modint import uint32
from miasmx.expression.expression import ExprInt, ExprId, ExprMem, ExprOp, ExprAff

def lift(hexstr):
    """disassemble + lift one instruction; returns (instr, [ExprAff...])"""
    l = x86mnemo.dis(bytes.fromhex(hexstr))
    assert l is not None, "not decodable: " + hexstr
    return l, emul_helper.get_instr_expr(l, ExprInt(uint32(l.offset + l.l)), [])

def written(exprs):
    return [str(x.dst) for x in exprs]

def assert_no_double_write(hexstr):
    l, e = lift(hexstr)
    w = written(e)
    dups = sorted(set(d for d in w if w.count(d) > 1))
    print("%-12s %-28s -> %s" % (hexstr, l, [str(x) for x in e]))
    assert not dups, "%s (%s): storage written by two assignments: %s" % (hexstr, l, dups)

def emulate(hexstr, init):
    l = x86mnemo.dis(bytes.fromhex(hexstr))
    m = emul_helper.x86_machine()
    for k, v in init.items():
        m.pool[k] = v
    emul_helper.emul_lines(m, [l])
    return l, m
