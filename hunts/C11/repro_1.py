# xchg / xadd / cmpxchg whose two written operands live in the same 32-bit register
from _common import *
from miasmx.arch.ia32_sem import eax
# semantic consequence: xchg al, ah does not exchange
l, m = emulate('86e0', {eax: ExprInt(uint32(0x11223344))})
got = m.pool[eax]
print(l, '  eax: 0x11223344 ->', got, ' (expected 0x11224433)')
l2, m2 = emulate('0fc0e0', {eax: ExprInt(uint32(0x11220304))})   # xadd al, ah
print(l2, ' eax: 0x11220304 ->', m2.pool[eax], ' (expected 0x11220407)')
for h in ['86e0',      # xchg al, ah
          '87c0',      # xchg eax, eax
          '0fc0e0',    # xadd al, ah
          '0fc1c9',    # xadd ecx, ecx
          '0fb0dc',    # cmpxchg ah, bl   (accumulator al and destination ah are both "eax")
          '0fb1d8']:   # cmpxchg eax, ebx
    try:
        assert_no_double_write(h)
    except AssertionError as ex:
        print('VIOLATION:', ex)
        bad = True
assert str(got) == '0x11224433', "xchg al, ah on eax=0x11223344 gives %s" % got
