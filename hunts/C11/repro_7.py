# fstp/fistp/fisttp st(i), i>=1: destination written twice and st(i-1) never updated
from _common import *
l, e = lift('ddda')     # fstp st(2): architecturally  st0<-st1, st1<-st0, st2<-st3, ...
w = dict()
for x in e: w.setdefault(str(x.dst), []).append(str(x.src))
print(l, {k: v for k, v in w.items() if k.startswith('float_st')})
for h in ['ddd9', 'ddda', 'dddf', 'dffa', 'ddca']:
    try:
        assert_no_double_write(h)
    except AssertionError as ex:
        print('VIOLATION:', ex)
assert w.get('float_st2') == ['float_st3'] and w.get('float_st1') == ['float_st0'], \
    "fstp st(2): float_st2 is assigned %s and float_st1 is assigned %s (expected st2<-[st3], st1<-[st0])" % (w.get('float_st2'), w.get('float_st1'))
