# mov r/m16, Sreg / mov Sreg, r/m16 with segment register number 6 or 7: decoder accepts, lifter crashes
from _common import *
for h in ['8cf0', '8cf8', '8c30', '8ef0', '8e38']:
    l = x86mnemo.dis(bytes.fromhex(h))
    assert l is not None and l.m.name == 'mov'
    try:
        e = emul_helper.get_instr_expr(l, ExprInt(uint32(l.l)), [])
        print(h, [str(x) for x in e])
    except IndexError as ex:
        print(h, 'decodes as "mov" but lifting raises IndexError:', ex)
        failed = True
assert not globals().get('failed'), "a decodable mov cannot be lifted (IndexError in dict_to_Expr)"
