# fucompp: two float_pop() blocks are concatenated; in the parallel IR that pops only once
from _common import *
from miasmx.arch.ia32_sem import float_st0, float_stack_ptr
l, m = emulate('dae9', {})
print(l, ' st0 ->', m.pool[float_st0], '(expected float_st2)   stack_ptr ->', m.pool[float_stack_ptr])
try:
    assert_no_double_write('dae9')
except AssertionError as ex:
    print('VIOLATION:', ex)
assert str(m.pool[float_st0]) == 'float_st2', "fucompp must pop twice: st0 should become old st2, got %s" % m.pool[float_st0]
