# Defect 3: the AT&T rendering of an indirect call/jmp through a segment-overridden
# memory operand ("call *%gs:16", the i386 glibc syscall gate; "jmp *%cs:18(%esi)")
# is correct GNU syntax, but the matching miasmX parser (x86mnemo.asm_att) cannot
# parse it back: the grammar has no rule for '*' followed by '%seg:'.
from _common_repro import *
problems = []
for hx in ['65ff1510000000',   # call *%gs:0x10
           '2eff6612',         # jmp  *%cs:0x12(%esi)
           '64ff5424f0']:      # call *%fs:-0x10(%esp)
    i = dis(hx)
    for fmt in ('att_syntax', 'att_syntax objdump'):
        txt = i.__str__(asm_format=fmt)
        g = gnu_as(txt, 'att')
        try:
            back = hexes(x86mnemo.asm_att(txt))
            ok = hx in back
        except Exception as e:
            back, ok = 'EXCEPTION %r' % e, False
        print('%-16s %-28r GNU as: %-16s miasmX asm_att: %s' % (hx, txt, g, 'ok' if ok else back))
        if not ok: problems.append((hx, fmt))
    # the Intel rendering of the same instruction does round-trip
    assert hx in hexes(x86mnemo.asm(str(i)))
assert not problems, "AT&T rendering not parsed back: %s" % problems
