# Defect 1: SSE/MMX instruction carrying a segment-override (or 0x67) prefix:
# rendering crashes, or shows the wrong operands / wrong memory size.
# The byte strings are exactly what GNU as emits for TLS-style accesses:
#   movq   %fs:(%eax),%xmm0   -> 64 f3 0f 7e 00
#   movsd  %gs:(%eax),%xmm0   -> 65 f2 0f 10 00
#   movups %gs:0xc8,%xmm0     -> 65 0f 10 05 c8 00 00 00
#   paddb  %fs:(%eax),%mm0    -> 64 0f fc 00
from _common_repro import *
problems = []
def check(hx, intel_expected, att_expected):
    i = dis(hx)
    for fmt, exp in (('intel_syntax noprefix', intel_expected), ('att_syntax', att_expected)):
        try:
            got = ' '.join(i.__str__(asm_format=fmt).split())
        except Exception as e:
            got = 'EXCEPTION %r' % e
        print('%-18s %-22s actual: %-45s expected: %s' % (hx, fmt, got, exp))
        if got != exp:
            problems.append((hx, fmt, got))
check('64f30f7e00',       'movq xmm0, QWORD PTR fs:[eax]',    'movq %fs:(%eax), %xmm0')
check('65f20f1000',       'movsd xmm0, QWORD PTR gs:[eax]',   'movsd %gs:(%eax), %xmm0')
check('650f1005c8000000', 'movups xmm0, XMMWORD PTR gs:200',  'movups %gs:200, %xmm0')
check('640ffc00',         'paddb mm0, fs:[eax]',              'paddb %fs:(%eax), %mm0')
check('670f1000',         'movups xmm0, XMMWORD PTR [bx+si]', 'movups (%bx,%si), %xmm0')
assert not problems, "%d wrong/crashing renderings" % len(problems)
