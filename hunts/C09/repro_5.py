# Defect 5: Intel-syntax rendering of SSE/SSE4 instructions whose memory operand is
# narrower than the vector register: the size keyword is always derived from the
# register class (XMMWORD PTR, or DWORD PTR for the pinsr/pextr family), so the text
# is rejected by GNU as ("operand size mismatch"). The AT&T rendering (no size
# keyword) of the same bytes is accepted.
from _common_repro import *
import re
problems = []
cases = [  # bytes, size keyword expected (what objdump -M intel prints)
    ('660f3a0b00 01'.replace(' ', ''), 'QWORD PTR'),   # roundsd xmm0, QWORD PTR [eax], 1
    ('660f3a0a0001',                   'DWORD PTR'),   # roundss xmm0, DWORD PTR [eax], 1
    ('660f383012',                     'QWORD PTR'),   # pmovzxbw xmm2, QWORD PTR [edx]
    ('660f382100',                     'DWORD PTR'),   # pmovsxbd xmm0, DWORD PTR [eax]
    ('660f383200',                     'WORD PTR'),    # pmovzxbq xmm0, WORD PTR [eax]
    ('f20f1238',                       'QWORD PTR'),   # movddup xmm7, QWORD PTR [eax]
    ('0fe730',                         'QWORD PTR'),   # movntq QWORD PTR [eax], mm6
    ('660fc40802',                     'WORD PTR'),    # pinsrw xmm1, WORD PTR [eax], 2
    ('660f3a20080 2'.replace(' ', ''), 'BYTE PTR'),    # pinsrb xmm1, BYTE PTR [eax], 2
    ('660f3a140802',                   'BYTE PTR'),    # pextrb BYTE PTR [eax], xmm1, 2
    ('660f3a150802',                   'WORD PTR'),    # pextrw WORD PTR [eax], xmm1, 2
]
for hx, kw in cases:
    i = dis(hx)
    txt = str(i)
    got = re.search(r'(\w+ PTR)', txt)
    got = got.group(1) if got else None
    g = gnu_as(txt, 'intel')
    ga = gnu_as(i.__str__(asm_format='att_syntax'), 'att')
    print('%-14s %-45r size keyword: %-12s expected: %-10s GNU as(intel): %s | GNU as(att): %s'
          % (hx, txt, got, kw, g, ga))
    if got != kw or (g is not None and g != hx):
        problems.append(hx)
assert not problems, "wrong Intel memory-operand size for %s" % problems
