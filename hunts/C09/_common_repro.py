# shared helper for the reproducers (run with PYTHONPATH=/tmp/wth_C09 /venv/bin/python)
import binascii, logging, os, subprocess, tempfile, shutil
import miasmx
assert miasmx.__file__.startswith('/tmp/wth_C09/'), miasmx.__file__
from miasmx.arch.ia32_arch import x86mnemo
logging.disable(logging.CRITICAL)

def dis(hx):
    i = x86mnemo.dis(binascii.unhexlify(hx))
    assert i is not None and i.l * 2 == len(hx), "not decodable: %s" % hx
    return i

def hexes(cands):
    return [binascii.hexlify(c).decode() for c in cands]

def gnu_as(line, syntax):
    """assemble one line with GNU as --32; returns hex string, or 'ERROR: ...'"""
    if shutil.which('as') is None:
        return None
    d = tempfile.mkdtemp()
    try:
        hdr = {'intel': '.intel_syntax noprefix', 'att': '.att_syntax'}[syntax]
        open(os.path.join(d, 'a.s'), 'w').write('%s\n.text\n%s\n' % (hdr, line))
        p = subprocess.run(['as', '--32', '-o', os.path.join(d, 'a.o'), os.path.join(d, 'a.s')],
                           capture_output=True, text=True)
        if p.returncode:
            return 'ERROR: ' + p.stderr.strip().splitlines()[-1].split('Error: ')[-1]
        subprocess.run(['objcopy', '-O', 'binary', '-j', '.text', os.path.join(d, 'a.o'),
                        os.path.join(d, 'a.bin')], check=True)
        return binascii.hexlify(open(os.path.join(d, 'a.bin'), 'rb').read()).decode()
    finally:
        shutil.rmtree(d)
