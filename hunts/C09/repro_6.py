# Defect 6: non-SSE instructions whose memory operand does not have the size of the
# operand-size attribute (x87 environment/state, packed BCD, descriptor-table and
# selector operands, mov to/from segment register) are rendered with the generic
# "DWORD PTR"/"QWORD PTR" keyword (Intel) or an 'l' suffix (AT&T mov Sreg).
# GNU as rejects these texts.
from _common_repro import *
problems = []
cases = [  # bytes, what objdump -M intel prints
    ('d930',     'fnstenv [eax]'),           # emitted for fegetenv()/feholdexcept()
    ('d920',     'fldenv [eax]'),
    ('dd30',     'fnsave [eax]'),
    ('0fae00',   'fxsave [eax]'),            # _fxsave() intrinsic
    ('0fae08',   'fxrstor [eax]'),
    ('df20',     'fbld TBYTE PTR [eax]'),
    ('0f0100',   'sgdtd [eax]'),
    ('0f0010',   'lldt WORD PTR [eax]'),
    ('8c4c0800', 'mov WORD PTR [eax+ecx*1+0x0],cs'),
]
for hx, ref in cases:
    i = dis(hx)
    txt = str(i)
    g = gnu_as(txt, 'intel')
    print('%-10s objdump: %-34s miasmX intel: %-36r GNU as: %s' % (hx, ref, txt, g))
    if g is None:       # no GNU as around: fall back on a textual check
        if 'DWORD PTR' in txt or 'QWORD PTR' in txt: problems.append(hx)
    elif g != hx:
        problems.append(hx)
# AT&T side of the same root cause: mov %sreg, mem gets an 'l' suffix
i = dis('8c4c0800')
txt = i.__str__(asm_format='att_syntax')
g = gnu_as(txt, 'att')
back = hexes(x86mnemo.asm_att(txt))
print('8c4c0800   miasmX att: %r   GNU as: %s   miasmX asm_att: %s' % (txt, g, back))
if '8c4c0800' not in back or (g is not None and g != '8c4c0800'):
    problems.append('8c4c0800/att')
assert not problems, "renderings rejected by GNU as: %s" % problems
