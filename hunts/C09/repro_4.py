# Defect 4: multi-byte NOP (0f 1f /0, the padding gcc/gas emit) in AT&T syntax.
# It is rendered as a bare "nop <mem>" without size suffix; x86mnemo.asm_att returns
# no candidate at all for that text, and the 16-bit form (nopw, 66 0f 1f ...) is
# rendered identically to the 32-bit one, so GNU as turns nopw into a (shorter) nopl.
from _common_repro import *
problems = []
for hx, gnu_txt in [('0f1f00',               'nopl (%eax)'),
                    ('0f1f440000',           'nopl 0x0(%eax,%eax,1)'),
                    ('0f1f8000000000',       'nopl 0x0(%eax)'),
                    ('660f1f440000',         'nopw 0x0(%eax,%eax,1)'),
                    ('662e0f1f840000000000', 'nopw %cs:0x0(%eax,%eax,1)')]:
    i = dis(hx)
    txt = i.__str__(asm_format='att_syntax')
    back = hexes(x86mnemo.asm_att(txt))
    g = gnu_as(txt, 'att')
    print('%-22s objdump: %-28s miasmX: %-26r asm_att -> %s   GNU as -> %s' % (hx, gnu_txt, txt, back[:3], g))
    if hx not in back: problems.append(hx)
    # Intel rendering of the same bytes is fine (modulo the order of the 66/2e prefixes)
    assert sorted(binascii.unhexlify(hx)) in [sorted(binascii.unhexlify(c)) for c in hexes(x86mnemo.asm(str(i)))], str(i)
assert not problems, "AT&T long-NOP rendering cannot be parsed back: %s" % problems
