# Defect 8: direct far jmp/call (EA / 9A, ptr16:32).
#  - re-assembling the rendering swaps selector and offset (a different target);
#  - the AT&T rendering uses the non-GNU mnemonic 'jmpf' (instead of ljmp/lcall),
#    loses the '$' of one operand and is rejected by GNU as.
from _common_repro import *
problems = []
for hx, gnu_att, gnu_intel in [('ea7ac8000000c8', 'ljmp $0xc800,$0xc87a', 'jmp 0xc800:0xc87a'),
                               ('9abc8800000000', 'lcall $0x0,$0x88bc',   'call 0x0:0x88bc')]:
    i = dis(hx)
    for fmt, asm, syn in (('intel_syntax noprefix', x86mnemo.asm, 'intel'), ('att_syntax', x86mnemo.asm_att, 'att')):
        txt = i.__str__(asm_format=fmt)
        try:
            back = hexes(asm(txt))
        except Exception as e:
            back = 'EXCEPTION %r' % e
        g = gnu_as(txt, syn)
        print('%-15s %-24r parse-back: %-20s GNU as: %s' % (hx, txt, back, g))
        if not (isinstance(back, list) and hx in back): problems.append((hx, fmt, 'parse-back'))
        if syn == 'att' and g is not None and g != hx: problems.append((hx, fmt, 'gnu as'))
# the correct GNU text is itself mis-assembled by miasmX (selector/offset swapped)
back = hexes(x86mnemo.asm_att('ljmp $0xc800,$0xc87a'))
print("asm_att('ljmp $0xc800,$0xc87a') ->", back, ' GNU as ->', gnu_as('ljmp $0xc800,$0xc87a', 'att'))
if 'ea7ac8000000c8' not in back: problems.append('ljmp')
assert not problems, problems
