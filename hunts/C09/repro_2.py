# Defect 2: the 'att_syntax objdump' variant drops the AT&T size suffix whenever the
# instruction has no immediate, even if its only operand is a memory operand
# (nothing left that tells the size). The text then denotes another instruction:
# GNU as picks the default size (l / s), the miasmX AT&T parser rejects it.
from _common_repro import *
problems = []
cases = [                      # bytes, expected mnemonic (what real objdump prints)
    ('fe8880000000', 'decb'),  # decb  0x80(%eax)
    ('f620',         'mulb'),  # mulb  (%eax)
    ('d24500',       'rolb'),  # rolb  %cl,(%ebp)     (%cl does not give the size)
    ('dc4301',       'faddl'), # faddl 0x1(%ebx)      (64-bit), 'fadd' means fadds to gas
    ('df2b',         'fildll'),# fildll (%ebx)        ('fildq' is accepted too)
    ('df03',         'filds'), # filds (%ebx)         all three fild sizes print as 'fild'
    ('db03',         'fildl'),
    ('6668f301',     'pushw'), # pushw $0x1f3
]
for hx, exp in cases:
    i = dis(hx)
    txt = i.__str__(asm_format='att_syntax objdump')
    mn = txt.split()[0]
    try:
        back = hexes(x86mnemo.asm_att(txt))
    except Exception as e:
        back = 'EXCEPTION %r' % e
    g = gnu_as(txt, 'att')
    ok_mn = mn == exp or (exp == 'fildll' and mn == 'fildq')
    ok_back = isinstance(back, list) and hx in back
    print('%-14s rendered %-26r mnemonic expected %-7s miasmX parse-back: %s   GNU as: %s'
          % (hx, txt, exp, 'ok' if ok_back else back, g))
    if not ok_mn or not ok_back or (g is not None and g != hx):
        problems.append(hx)
assert not problems, "objdump-variant rendering lost the operand size for %s" % problems
