# Defect 7: instructions with an address-size prefix (0x67).
#  (a) a memory operand built on 16-bit registers is rendered correctly ("[bx]",
#      "4(%si)"), but both miasmX parsers silently treat bx/si/di/bp as ebx/esi/...,
#      i.e. the text is assembled to a DIFFERENT instruction (or the Intel parser
#      dies with NameError: name 'TODO' is not defined);
#  (b) for string instructions and jcxz the prefix is dropped from the rendering, so
#      the text denotes the 32-bit-address instruction (GNU as drops the 67 too).
from _common_repro import *
problems = []
for hx, ref in [('678b07',   'mov eax, DWORD PTR [bx]'),
                ('678b4404', 'mov eax, DWORD PTR [si+4]'),
                ('678b00',   'mov eax, DWORD PTR [bx+si]'),
                ('67a5',     'movs DWORD PTR es:[di], DWORD PTR ds:[si]   (addr16 movsd)'),
                ('67e3fe',   'jcxz $')]:
    i = dis(hx)
    for fmt, asm, syn in (('intel_syntax noprefix', x86mnemo.asm, 'intel'), ('att_syntax', x86mnemo.asm_att, 'att')):
        txt = i.__str__(asm_format=fmt)
        try:
            back = hexes(asm(txt))
        except Exception as e:
            back = 'EXCEPTION %r' % e
        g = gnu_as(txt, syn) if hx != '67e3fe' else '(relative branch, skipped)'
        ok = isinstance(back, list) and hx in back
        print('%-9s %-26r parse-back: %-46s GNU as: %s' % (hx, txt, back if not isinstance(back, list) else back[:2], g))
        if not ok: problems.append((hx, fmt))
assert not problems, "0x67-prefixed instructions do not survive render+parse: %s" % problems
