# Defect 7: 'mov r/m, Sreg' / 'mov Sreg, r/m' (8C / 8E) with ModRM.reg = 6 or 7
# (no such segment register, #UD on hardware) is decoded as an instruction,
# which then cannot be rendered (reg_sg[6] is None -> AttributeError).
from _common import *
bad = []
for h in ['8cf0', '8cf8', '8e30', '8e38', '668cf1']:
    i = x86mnemo.dis(bytes.fromhex(h))
    if i is None:
        print(h, '-> None (ok)'); continue
    for fmt in (INTEL,):
        try: print(h, '->', i.__str__(asm_format=fmt))
        except Exception as e:
            print(h, '-> decoded', i.m.name, i.arg, 'render EXC', repr(e)); bad.append((h, e))
assert not bad, "decoded but not renderable: %r" % bad
