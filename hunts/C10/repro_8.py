# Defect 8: x87 '/digit' memory-only table entries are declared with no_rm
# instead of [rmr], so ModRM.mod == 3 is not rejected:
#   DC D0+i / DC D8+i -> 'fcom'/'fcomp' with ONE f64 "register" operand -> __str__ IndexError
#   DB F8+i           -> 'fstp' with an f80 "register" operand (invalid opcode) -> KeyError 'f80'
from _common import *
bad = []
for h in ['dcd0', 'dcd9', 'dcdf', 'dbf8', 'dbff']:
    i = x86mnemo.dis(bytes.fromhex(h))
    if i is None:
        print(h, '-> None (ok)'); continue
    for fmt in (INTEL, ATT):
        try: print(h, fmt, '->', i.__str__(asm_format=fmt))
        except Exception as e:
            print(h, fmt, '-> decoded', i.m.name, i.arg, 'render EXC', repr(e)); bad.append((h, e))
assert not bad, "decoded but not renderable: %r" % bad
