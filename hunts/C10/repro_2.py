# Defect 2: parse_ad.dict_mul multiplies *every* value of the operand dict by
# the constant, including the string metadata ('size': 'u32', 'txt'), i.e. it
# performs Python string repetition with an attacker-chosen 31-bit count.
# 'mov eax, [ecx*0x7fffffff]' tries to build a 6 GB string -> MemoryError
# (or several seconds + GBs of RAM when memory is available).
import resource
from _common import *
resource.setrlimit(resource.RLIMIT_AS, (2 << 30, 2 << 30))   # 2 GB cap keeps the demo harmless
kind, r = try_asm(x86mnemo.asm, 'mov eax, [ecx*0x7fffffff]')
print(kind, repr(r)[:80])
assert kind in ('ok', 'documented'), "internal error instead of []/ValueError: %r" % (r,)
