import logging, sys, io, contextlib
import miasmx
assert miasmx.__file__.startswith('/tmp/wth_C10/'), miasmx.__file__
logging.disable(logging.CRITICAL)
from miasmx.arch.ia32_arch import x86mnemo
INTEL = 'intel_syntax noprefix'
ATT = 'att_syntax binutils'
def try_asm(fn, text):
    """returns ('ok', list) | ('documented', exc) | ('internal', exc)"""
    try:
        with contextlib.redirect_stdout(io.StringIO()):
            r = fn(text)
    except ValueError as e:
        if type(e) is ValueError:
            return 'documented', e
        return 'internal', e
    except BaseException as e:
        return 'internal', e
    return 'ok', r
