# Defect 4: operand count is never validated before args[0]/args[1]/args[2]
# are indexed -> IndexError for a mnemonic with too few operands.
from _common import *
bad = []
for fn, texts in [(x86mnemo.asm,     ['push', 'int', 'out', 'rcl', 'movq', 'lea eax', 'xchg eax', 'test eax',
                                      'prefetchw', 'shufps xmm0, xmm1', 'pinsrw mm0, eax']),
                  (x86mnemo.asm_att, ['xchg', 'test %eax', 'pushl', 'leal', 'int', 'out', 'movq', 'pextrw %mm0, %eax'])]:
    for t in texts:
        kind, r = try_asm(fn, t)
        print('%-8s %-22r %s %r' % (fn.__name__, t, kind, r))
        if kind == 'internal': bad.append((t, r))
assert not bad, "internal errors: %r" % bad
