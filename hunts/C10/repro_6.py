# Defect 6: AT&T mnemonic-suffix stripping treats the last letter of any
# mnemonic whose name[:-1] is in a suffix table as a size suffix and looks
# it up without checking -> KeyError.  'bts'->'bt'+'s', 'shld'->'shl'+'d',
# 'btr', 'btc', 'fistp', 'fcomi', 'movsx' ... are all *valid* AT&T mnemonics.
from _common import *
bad = []
for t in ['bts %eax, %ebx', 'btr %eax, %ebx', 'btc %eax, %ebx', 'shld $1, %eax, %ebx', 'shrd %cl, %eax, %ebx',
          'fistp (%eax)', 'fcomi %st(1), %st', 'movsx %al, %eax', 'incq %eax', 'popt %eax', 'movz']:
    kind, r = try_asm(x86mnemo.asm_att, t)
    print('%-24r %s %r' % (t, kind, r if kind != 'ok' else [x.hex() for x in r][:2]))
    if kind == 'internal': bad.append((t, r))
# the suffixed spellings work, so the instructions themselves are supported:
assert try_asm(x86mnemo.asm_att, 'btsl %eax, %ebx') == ('ok', [bytes.fromhex('0fabc3')])
assert not bad, "internal errors: %r" % bad
