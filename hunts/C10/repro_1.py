# Defect 1: address-size prefix 0x67 is ignored for every MMX/SSE opcode:
# the ModRM byte is decoded with 32-bit addressing, so SIB/disp32 bytes that
# belong to the NEXT instruction are swallowed (over-read), and a complete
# instruction at the end of a buffer is reported as absent.
from _common import *
# 67 66 0f 6f 04      movdqa xmm0, XMMWORD PTR [si]      (5 bytes, 16-bit ModRM: rm=4 -> [si], no SIB)
# 90                  nop
ins = bytes.fromhex('67660f6f04')
i = x86mnemo.dis(ins + b'\x90' + b'\xcc'*8)
print('decoded:', i, 'l =', i.l, 'bytes =', i.b.hex())
j = x86mnemo.dis(ins)     # exactly the instruction, nothing after
print('exact-length buffer ->', j)
assert i.l == 5, "over-read: consumed %d bytes (%s), instruction is 5 bytes long" % (i.l, i.b.hex())
assert j is not None, "complete 5-byte instruction reported as absent"
