# Defect 3: an MMX/SSE instruction carrying any non-mandatory prefix
# (segment override, lock, 0x67) decodes, but cannot be rendered:
# x86_mn.__str__ does mmx_prefixes.index(prefix.pop()) -> ValueError.
from _common import *
bad = []
for h in ['3e0f6f00',      # movq mm0, QWORD PTR ds:[eax]
          '650f6f00',      # movq mm0, QWORD PTR gs:[eax]
          '66640f6f00',    # movdqa xmm0, XMMWORD PTR fs:[eax]   (66 first, segment last)
          '260f2800']:     # movaps xmm0, XMMWORD PTR es:[eax]
    i = x86mnemo.dis(bytes.fromhex(h))
    assert i is not None
    for fmt in (INTEL, ATT):
        try:
            print(h, fmt, '->', i.__str__(asm_format=fmt))
        except Exception as e:
            print(h, fmt, '-> EXC', repr(e)); bad.append((h, fmt, e))
assert not bad, "decoded instruction cannot be rendered: %r" % bad[0][2]
