# Defect 5: x87 memory operand whose size is missing or not one of
# f32/f64/f80/u16/u32 -> KeyError from a dict literal used as a size map
# in asm_candidates (digit-afs branch).
from _common import *
bad = []
for fn, texts in [(x86mnemo.asm,     ['fld [eax]', 'fadd [eax]', 'fild [eax]', 'fld BYTE PTR [eax]', 'fstp XMMWORD PTR [eax]']),
                  (x86mnemo.asm_att, ['fld (%eax)', 'fsub 3', 'fst (%ebx)'])]:
    for t in texts:
        kind, r = try_asm(fn, t)
        print('%-8s %-26r %s %r' % (fn.__name__, t, kind, r if kind != 'ok' else [x.hex() for x in r][:2]))
        if kind == 'internal': bad.append((t, r))
assert not bad, "internal errors: %r" % bad
