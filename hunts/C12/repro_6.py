# Defect 6: asm(l, symbol_off=[]) appends to its default list: a process-wide list that grows with
# every call (memory leak, state shared by all callers).
import miasmx; assert miasmx.__file__.startswith("/tmp/wth_C12/"), miasmx.__file__
from miasmx.arch.ia32_arch import x86mnemo
hidden = type(x86mnemo).asm.__defaults__[0]
n0 = len(hidden)
for i in range(100):
    x86mnemo.asm('mov eax, ebx')
print("default symbol_off list: %d entries before, %d after 100 calls" % (n0, len(hidden)))
assert len(hidden) == n0, "asm() accumulated %d entries in its default argument" % (len(hidden) - n0)
