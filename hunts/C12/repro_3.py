# Defect 3: eval_ExprMem marks the memory expression it returns with a hidden flag (is_term = True).
# The flag is not part of ==, str() or copy(), yet it decides whether the expression is evaluated:
# two structurally equal expressions evaluate differently in the same machine state.
import miasmx; assert miasmx.__file__.startswith("/tmp/wth_C12/"), miasmx.__file__
from miasmx.expression.expression import ExprInt, ExprMem
from miasmx.expression.expression_eval_abstract import eval_abs
from miasmx.tools.modint import uint32
from miasmx.arch.ia32_arch import x86mnemo
from miasmx.arch.ia32_sem import eax, init_ebx
from miasmx.tools import emul_helper

# block 1:  mov eax, [ebx]     (summary: eax = @32[init_ebx])
m1 = emul_helper.x86_machine()
emul_helper.emul_lines(m1, [x86mnemo.dis(b'\x8b\x03')])
summary = m1.pool[eax]
fresh = ExprMem(init_ebx, 32)
assert summary == fresh and str(summary) == str(fresh) == '@32[init_ebx]'

# state in which that memory cell is known
m2 = eval_abs({ExprMem(init_ebx, 32): ExprInt(uint32(0x42))})
a = str(m2.eval_expr(fresh, {}))
b = str(m2.eval_expr(summary.copy(), {}))
c = str(m2.eval_expr(summary, {}))
print("fresh:", a, " copy of summary:", b, " summary object:", c, " (is_term=%r)" % summary.is_term)
assert a == b == '0x42'
assert c == a, "equal expressions, same state: %s vs %s" % (c, a)
