# Defect 7: the shared Intel lexer keeps its line counter between calls: after a line containing a
# quoted newline, the same failing asm() call reports another error message.
import miasmx; assert miasmx.__file__.startswith("/tmp/wth_C12/"), miasmx.__file__
from miasmx.arch.ia32_arch import x86mnemo
import io, contextlib
def err(t):
    try:
        with contextlib.redirect_stdout(io.StringIO()):
            return repr(x86mnemo.asm(t))
    except Exception as e:
        return '%s: %s' % (type(e).__name__, e)
a = err('mov eax eax')
err('mov eax, "x\n\ny"')                        # another (failing) call
b = err('mov eax eax')
print(a.splitlines()[0]); print(b.splitlines()[0])
assert a == b, "same call, different outcome"
