# Defect 8: every eval_abs() adds one more handler to the process-wide logger "expr_eval_int" (and
# resets its level): what machine.log emits depends on how many machines were ever created.
import miasmx; assert miasmx.__file__.startswith("/tmp/wth_C12/"), miasmx.__file__
import logging, io
from miasmx.expression.expression_eval_abstract import eval_abs
def emitted(m):
    # number of handlers a record logged through m.log goes to
    return len(m.log.handlers)
m = eval_abs({})
n0 = emitted(m)
logging.getLogger("expr_eval_int").setLevel(logging.ERROR)     # application configuration
for i in range(10):
    eval_abs({})                                  # other machine instances
n1 = emitted(m)
lvl = logging.getLogger("expr_eval_int").level
print("handlers behind m.log: %d, then %d; level reset to %s" % (n0, n1, logging.getLevelName(lvl)))
assert n1 == n0, "m.log now writes every record %d times" % n1
assert lvl == logging.ERROR
