# Defect 5: lifting writes into the instruction object it is given (slot arg_expr), and the stored
# value aliases the list the lifter keeps appending to.
import miasmx; assert miasmx.__file__.startswith("/tmp/wth_C12/"), miasmx.__file__
from miasmx.arch.ia32_arch import x86mnemo
from miasmx.tools import emul_helper
from miasmx.expression.expression import ExprInt
from miasmx.tools.modint import uint32

SLOTS = ('opmode', 'admode', 'mnemo_mode', 'cmt', 'prefix', 'm', 'arg', 'offset', 'l', 'b', 'txt', 'arg_expr')
snap = lambda op: dict((s, repr(getattr(op, s))) for s in SLOTS if hasattr(op, s))
op = x86mnemo.dis(b'\x8b\x43\x04')              # mov eax, [ebx+4]
before = snap(op)
emul_helper.get_instr_expr(op, ExprInt(uint32(3)), [])
after = snap(op)
print("new attributes:", sorted(set(after) - set(before)))
assert after == before, "lifting modified the instruction: %s" % sorted(set(after) ^ set(before))
