# Defect 1: with an EMPTY parser-table cache directory, importing the x86 module (AT&T parser) and the
# first asm() call (lazy import of the Intel parser) leave sys.path replaced by [cache dir]:
# every later import of a not-yet-loaded module fails.  With a pre-populated directory nothing happens.
# run: PYTHONPATH=/tmp/wth_C12 /venv/bin/python repro_1.py
import os, sys, subprocess, tempfile, shutil

CHILD = r'''
import sys
before = list(sys.path)
import miasmx
assert miasmx.__file__.startswith("/tmp/wth_C12/"), miasmx.__file__
from miasmx.arch.ia32_arch import x86mnemo          # builds the AT&T parser
after_import = (sys.path == before)
sys.path[:] = before
x86mnemo.asm("nop")                                   # first asm(): builds the Intel parser
after_asm = (sys.path == before)
try:
    import json.tool                                   # any module not loaded yet
    later_import = "ok"
except ImportError as e:
    later_import = "ImportError"
print(after_import, after_asm, later_import)
'''
d = tempfile.mkdtemp(prefix="empty_cache_")
try:
    env = dict(os.environ, TMPDIR=d, PYTHONPATH="/tmp/wth_C12")
    runs = []
    for i in range(2):       # 1st process: empty cache dir; 2nd process: tables left by the 1st
        out = subprocess.run([sys.executable, "-c", CHILD], env=env, capture_output=True, text=True)
        assert out.returncode == 0, out.stderr
        runs.append(out.stdout.strip())
    print("empty cache dir        :", runs[0], "  (sys.path kept by import / kept by asm() / later import)")
    print("pre-populated cache dir:", runs[1])
    assert runs[0] == runs[1] == "True True ok", \
        "sys.path is clobbered when the table cache is empty: %r vs %r" % (runs[0], runs[1])
finally:
    shutil.rmtree(d, ignore_errors=True)
