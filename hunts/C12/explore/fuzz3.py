import sys
import fuzz1
from fuzz1 import *
if os.environ.get('NO_IS_TERM'):
    ExprMem.is_term = property(lambda self: False, lambda self, v: None)
_step = World.step
def step(self):
    rng = self.rng
    if self.machines and self.exprs and rng.random() < 0.3:
        r = call(rng.choice(self.machines).eval_expr, rng.choice(self.exprs), {})
        if r[0] == 'OK': self.exprs.append(r[1])
        return
    if self.machines and rng.random() < 0.1:
        m = rng.choice(self.machines)
        vals = [v for k, v in m.pool.items()]
        if vals: self.exprs.append(rng.choice(vals))
        return
    _step(self)
World.step = step

def make_probe2(rng):
    # probes on chained values: evaluate in m2 an expression obtained from m1
    seed = rng.randrange(1<<30)
    bs = [rnd_bytes(rng) for _ in range(3)]
    def th():
        rr = random.Random(seed)
        m1 = emul_helper.x86_machine()
        for b in bs:
            op = x86mnemo.dis(b)
            if op is not None:
                try: emul_helper.emul_lines(m1, [op])
                except Exception: pass
        m2 = eval_abs({S.init_eax: ExprInt(uint32(0x1000)), ExprMem(ExprInt(uint32(0x1000)),32):ExprInt(uint32(7)), ExprMem(S.init_esp,32):ExprInt(uint32(9))})
        out = []
        for k, v in sorted(m1.pool.items(), key=lambda kv: str(kv[0])):
            r = call(m2.eval_expr, v, {})
            r2 = call(m2.eval_expr, v.copy(), {})
            out.append((str(k), D(r), D(r) == D(r2)))
        return out
    return ('chain %s'%[binascii.hexlify(b).decode() for b in bs], th)

def trial3(seed):
    rng = random.Random(seed)
    desc, th = make_probe2(rng) if rng.random() < 0.5 else make_probe(rng)
    r0 = call(th)
    res = []
    if desc.startswith('chain') and r0[0] == 'OK':
        badc = [x[0] for x in r0[1] if not x[2]]
        if badc: res.append(('COPYDIFF', seed, desc, badc[:5]))
    w = World(rng)
    for i in range(rng.randrange(1, 51)): w.step()
    r1 = call(th)
    if r0 != r1: res.append(('PROBE3', seed, desc, repr(r0)[:500], repr(r1)[:500]))
    return res

if __name__ == '__main__':
    lo, hi = int(sys.argv[1]), int(sys.argv[2])
    for seed in range(lo, hi):
        r, wfd = os.pipe()
        pid = os.fork()
        if pid == 0:
            os.close(r)
            try: res = trial3(seed)
            except BaseException as e: res = [('CRASH', seed, traceback.format_exc()[-800:])]
            os.write(wfd, repr(res).encode()); os._exit(0)
        os.close(wfd)
        data = b''
        while True:
            c = os.read(r, 65536)
            if not c: break
            data += c
        os.close(r); os.waitpid(pid, 0)
        for x in (eval(data.decode()) if data else [('NODATA', seed)]):
            print(x); sys.stdout.flush()
