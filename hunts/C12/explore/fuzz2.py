# shared-object probes
import sys
from fuzz1 import *

def trial2(seed):
    rng = random.Random(seed)
    w = World(rng)
    res = []
    # shared objects
    ops = []
    while len(ops) < 3:
        r = call(x86mnemo.dis, rnd_bytes(rng), rng.choice(ATTRS))
        if r[0]=='OK' and r[1] is not None: ops.append(r[1])
    w.ops.extend(ops)
    exprs = [rnd_expr(rng, 0, rng.choice([32,32,8,16,1])) for _ in range(3)]
    w.exprs.extend(exprs)
    ms = [emul_helper.x86_machine(),
          eval_abs({S.eax:S.init_eax, S.ebx:ExprInt(uint32(0x1234)), ExprMem(ExprInt(uint32(0x1234)),32):ExprInt(uint32(7)), ExprMem(S.init_eax,32):S.init_ebx}),
          eval_abs({})]
    # advance machine 0 a bit so it has memory
    for op in ops:
        call(emul_helper.emul_lines, ms[0], [op])
    def probe():
        out = []
        for op in ops:
            out.append(call(lambda: (D(emul_helper.get_instr_expr(op, ExprInt(uint32(op.offset+op.l)), [])), str(op), op.__str__('att_syntax'))))
        for e in exprs:
            out.append(call(lambda: D(expr_simp(e))))
            for m in ms:
                out.append(call(lambda: D(m.eval_expr(e, {}))))
        for op in ops:
            # evaluation of lifted expr srcs on read-only machines
            r = call(emul_helper.get_instr_expr, op, ExprInt(uint32(op.offset+op.l)), [])
            if r[0]=='OK':
                for a in r[1]:
                    for m in ms:
                        out.append(call(lambda: D(m.eval_expr(a.src, {}))))
        out.append(D(ms))
        return out
    r0 = probe()
    # history: machines in w.machines are separate instances; ms only used read-only
    w.machines = [emul_helper.x86_machine(), eval_abs({}), eval_abs({S.eax:ExprInt(uint32(5))})]
    for i in range(rng.randrange(1, 51)):
        w.step()
        if rng.random() < 0.2:
            call(rng.choice(ms).eval_expr, rng.choice(w.exprs), {})
    r1 = probe()
    if r0 != r1:
        idx = [i for i,(a,b) in enumerate(zip(r0,r1)) if a!=b]
        res.append(('PROBE2', seed, idx[:5], repr(r0[idx[0]])[:500], repr(r1[idx[0]])[:500]))
    return res

if __name__ == '__main__':
    lo, hi = int(sys.argv[1]), int(sys.argv[2])
    for seed in range(lo, hi):
        r, wfd = os.pipe()
        pid = os.fork()
        if pid == 0:
            os.close(r)
            try: res = trial2(seed)
            except BaseException as e: res = [('CRASH', seed, traceback.format_exc()[-800:])]
            os.write(wfd, repr(res).encode()); os._exit(0)
        os.close(wfd)
        data = b''
        while True:
            c = os.read(r, 65536)
            if not c: break
            data += c
        os.close(r); os.waitpid(pid, 0)
        for x in (eval(data.decode()) if data else [('NODATA', seed)]):
            print(x); sys.stdout.flush()
