import sys, hashlib, os, tempfile
d = tempfile.mkdtemp(); tempfile.tempdir = d
p0 = list(sys.path)
import miasmx.core.parse_ad, miasmx.arch.ia32_att
sys.path[:] = p0
from fuzz1 import *
texts_i = set(); texts_a = set()
rng = random.Random(7)
for i in range(4000):
    b = rnd_bytes(rng)
    r = call(x86mnemo.dis, b)
    if r[0]=='OK' and r[1] is not None:
        r2 = call(str, r[1]); r3 = call(r[1].__str__, 'att_syntax')
        if r2[0]=='OK': texts_i.add(r2[1])
        if r3[0]=='OK': texts_a.add(r3[1])
texts_i = sorted(texts_i) + ['mov eax eax', 'mov eax, [ebx+', 'add eax, 1+2*3', 'mov eax, DWORD PTR fs:[4]', 'mov eax, -4[ebx]', 'mov eax, 4+foo[ebx]', 'lea eax, [ebx*2+ecx-8]', 'mov eax, OFFSET FLAT:foo+4-bar']
texts_a = sorted(texts_a) + ['movl %eax %eax', 'movl foo+4-bar(%ebx,%ecx,2), %eax', 'movl $foo-bar+4, %eax', 'movl (foo-bar)+4, %eax', 'movl 1+2+3(%eax), %ebx']
for t in texts_i:
    print('I', t, hashlib.md5(repr(call(x86mnemo.asm, t)).encode()).hexdigest())
for t in texts_a:
    print('A', t, hashlib.md5(repr(call(x86mnemo.asm_att, t)).encode()).hexdigest())
h = hashlib.md5()
for f in sorted(os.listdir(d)):
    if f.endswith('.py'):
        h.update(open(os.path.join(d, f),'rb').read())
print('TABLES', h.hexdigest())
