import os, sys, random, traceback, io, contextlib
from hlib import *
import logging
logging.disable(logging.CRITICAL)

if os.environ.get('NO_IS_EVAL'):
    Expr.is_eval = property(lambda self: False, lambda self, v: None)

SEEDS = ['dbe9','dbd8','def9','a4','06','d8c1','f2ae','ec','66ec','c6450002','c64500fe','662e0f1f840000000000',
 '660f72d101','f390','ffe0','3effe0','f30f1efb','93','8b4304','89e5','55','c3','e8fcffffff','0fb6c0','f3a5','f3a4','66a5',
 '8d4c2404','83e4f0','ff71fc','c70424000000','a100000000','8e d8'.replace(' ',''),'8cc8','0f20c0','0f22c0','d9ee','d9c9','dd1c24',
 '660f6fc1','0f6fc1','f30f7e0424','0fa4c205','0fadd0','c1e004','d3e0','d1e0','f7f1','f7f9','f6f1','0fafc3','6bc30a','69c300010000',
 '9c','9d','6650','668b03','678b07','26a1000000000', 'cd80', '0f05', 'f0ff03', '8703', '0fc1d8', '0fb113','98','99','6698','6699',
 'aa','ab','66ab','ac','ad','ae','af','a6','a7','c9','c8100000','60','61','9e','9f','d7','0fa2','0f31','0fc8','0fbcc3','0fbdc3','0fa3c3','0fabc3',
 '8a6301', '8ae3','00e3','30e4', '0fbe4301','0fb74301','660fbec3', 'e2fe','e3fe','74fe','0f84fcffffff','ebfe','ea785634121000','9a785634121000','c20400','cb',
 '6a01','6810000000','666a01', 'd0c0','d0c8','d0d0','d0d8','c0c003','c0d003','d3c0','d3d8', 'd1f8','c1f81f', '0fc7 0b'.replace(' ',''),'27','2f','37','3f','d40a','d50a']
SEEDS = [s for s in SEEDS if len(s)%2==0]

def rnd_bytes(rng):
    r = rng.random()
    if r < 0.5:
        b = bytearray(binascii.unhexlify(rng.choice(SEEDS)))
        if rng.random() < 0.5 and len(b):
            i = rng.randrange(len(b)); b[i] = rng.randrange(256)
        if rng.random() < 0.2:
            b = bytearray([rng.choice([0x66,0x67,0xf2,0xf3,0x26,0x2e,0x36,0x3e,0x64,0x65,0xf0])]) + b
        return bytes(b) + bytes(rng.randrange(256) for _ in range(8))
    return bytes(rng.randrange(256) for _ in range(rng.randrange(1,16)))

def call(f, *a, **k):
    try:
        with contextlib.redirect_stdout(io.StringIO()), contextlib.redirect_stderr(io.StringIO()):
            return ('OK', f(*a, **k))
    except BaseException as e:
        if isinstance(e, (KeyboardInterrupt, SystemExit)): raise
        return ('EXC', type(e).__name__, str(e)[:200])

REGS = [S.eax, S.ebx, S.ecx, S.edx, S.esi, S.edi, S.esp, S.ebp]
def rnd_expr(rng, depth=0, size=32):
    r = rng.random()
    T = {8:uint8,16:uint16,32:uint32,64:uint64,1:uint1}
    if depth > 3 or r < 0.25:
        if size == 32 and rng.random() < 0.6:
            return rng.choice(REGS + [S.init_eax, S.init_ebx, ExprId('sym%d'%rng.randrange(3))])
        if size == 1 and rng.random()<0.5:
            return rng.choice([S.zf, S.cf, S.nf, S.of])
        if size == 16 and rng.random()<0.5:
            return rng.choice([S.es, S.ds, S.cs, S.ss])
        return ExprInt(T[size](rng.choice([0,1,2,4,0xff,0x7f,0x80,0xffffffff,0x80000000,rng.randrange(1<<32)])))
    if r < 0.5:
        op = rng.choice(['+','-','*','^','&','|','>>','<<','a>>','<<<','>>>','==','parity','-1','!'])
        if op == '-1': return ExprOp('-', rnd_expr(rng, depth+1, size))
        if op in ('parity','!'): return ExprOp(op, rnd_expr(rng, depth+1, size))
        n = 2 if op not in ('+','^','&','|','*') else rng.randrange(2,4)
        return ExprOp(op, *[rnd_expr(rng, depth+1, size) for _ in range(n)])
    if r < 0.6 and size in (8,16,32):
        return ExprMem(rnd_expr(rng, depth+1, 32), size)
    if r < 0.7 and size in (8,16,1):
        a = rnd_expr(rng, depth+1, 32)
        st = rng.choice([0,8,16]) if size==8 else (rng.choice([0,16]) if size==16 else rng.randrange(32))
        return ExprSlice(a, st, st+size)
    if r < 0.8:
        return ExprCond(rnd_expr(rng, depth+1, rng.choice([1,32])), rnd_expr(rng, depth+1, size), rnd_expr(rng, depth+1, size))
    if r < 0.9 and size == 32:
        k = rng.choice([8,16])
        return ExprCompose([(rnd_expr(rng, depth+1, k),0,k),(ExprSlice(rnd_expr(rng, depth+1, 32),k,32),k,32)])
    return rnd_expr(rng, depth+1, size)

ATTRS = [{}, {}, {}, {'opmode':'u16'}, {'admode':'u16'}, {'opmode':'u16','admode':'u16'}]

class World(object):
    """objects shared through a history"""
    def __init__(self, rng):
        self.rng = rng
        self.ops = []
        self.texts_intel = ['nop','mov eax, ebx','push es','add eax, DWORD PTR [ebx+ecx*4+8]','jmp 2','ret 4','xchg eax, ebx','bogus eax','mov eax,','imul eax, 3', 'lea eax, [ebx+4]']
        self.texts_att = ['nop','movl %ebx, %eax','pushl %es','addl 8(%ebx,%ecx,4), %eax','jmp 2','ret $4','xchgl %ebx, %eax','bogus %eax','movl %eax,', 'imull $3, %eax']
        self.exprs = []
        self.machines = []
        self.lifted = []

    def step(self):
        rng = self.rng
        k = rng.choice(['dis','dis','asm','asm_att','lift','lift','simp','eval_expr','eval_instr','eval_instr','newmachine','emul'])
        if k == 'dis':
            b = rnd_bytes(rng); at = rng.choice(ATTRS)
            r = call(x86mnemo.dis, b, at)
            if r[0]=='OK' and r[1] is not None:
                op = r[1]; self.ops.append(op)
                r2 = call(str, op)
                if r2[0]=='OK' and at == {}: self.texts_intel.append(r2[1])
                r3 = call(op.__str__, 'att_syntax')
                if r3[0]=='OK' and at == {}: self.texts_att.append(r3[1])
        elif k == 'asm':
            call(x86mnemo.asm, rng.choice(self.texts_intel))
        elif k == 'asm_att':
            call(x86mnemo.asm_att, rng.choice(self.texts_att))
        elif k == 'lift' and self.ops:
            op = rng.choice(self.ops)
            r = call(emul_helper.get_instr_expr, op, ExprInt(uint32(op.offset+op.l)), [])
            if r[0]=='OK': self.lifted.append(r[1]); self.exprs.extend([a.src for a in r[1]])
        elif k == 'simp':
            e = rng.choice(self.exprs) if self.exprs and rng.random()<0.5 else rnd_expr(rng, 0, rng.choice([32,32,8,16,1]))
            self.exprs.append(e)
            call(expr_simp, e)
        elif k == 'newmachine' or not self.machines:
            r = rng.random()
            if r<0.5: self.machines.append(emul_helper.x86_machine())
            elif r<0.8: self.machines.append(eval_abs({S.eax:S.init_eax, S.ebx:ExprInt(uint32(rng.randrange(1<<32)))}))
            else: self.machines.append(eval_abs({}))
        elif k == 'eval_expr':
            e = rng.choice(self.exprs) if self.exprs and rng.random()<0.5 else rnd_expr(rng, 0, rng.choice([32,32,8,16,1]))
            self.exprs.append(e)
            call(rng.choice(self.machines).eval_expr, e, {})
        elif k == 'eval_instr' and self.lifted:
            call(rng.choice(self.machines).eval_instr, rng.choice(self.lifted))
        elif k == 'emul' and self.ops:
            call(emul_helper.emul_lines, rng.choice(self.machines), [rng.choice(self.ops)])

def make_probe(rng):
    """returns (description, thunk) ; thunk builds everything fresh from plain python data"""
    k = rng.choice(['dis','asm','asm_att','lift','simp','eval','emul'])
    if k == 'dis':
        b = rnd_bytes(rng); at = rng.choice(ATTRS)
        def th():
            at2 = dict(at)
            op = x86mnemo.dis(b, at2)
            return (D(op), None if op is None else (str(op), op.__str__('att_syntax')), at2 == at)
        return ('dis %s %r'%(binascii.hexlify(b).decode(), at), th)
    if k in ('asm','asm_att'):
        # need a text: disassemble something in a *child*? use fixed lists + generated text computed lazily
        b = rnd_bytes(rng)
        def th():
            op = x86mnemo.dis(b)
            if op is None: return None
            t = str(op) if k=='asm' else op.__str__('att_syntax')
            return (t, x86mnemo.asm(t) if k=='asm' else x86mnemo.asm_att(t))
        return ('%s of dis %s'%(k, binascii.hexlify(b).decode()), th)
    if k == 'lift':
        b = rnd_bytes(rng); at = rng.choice(ATTRS)
        def th():
            op = x86mnemo.dis(b, dict(at))
            if op is None: return None
            d0 = D(op)
            ex = emul_helper.get_instr_expr(op, ExprInt(uint32(op.offset+op.l)), [])
            return (D(ex), [str(e) for e in ex])
        return ('lift %s %r'%(binascii.hexlify(b).decode(), at), th)
    if k == 'simp':
        seed = rng.randrange(1<<30); sz = rng.choice([32,32,8,16,1])
        def th():
            e = rnd_expr(random.Random(seed), 0, sz)
            d0 = D(e)
            r = expr_simp(e)
            return (D(r), str(r), D(e) == d0)
        return ('simp seed=%d sz=%d'%(seed, sz), th)
    if k == 'eval':
        seed = rng.randrange(1<<30); sz = rng.choice([32,32,8,16,1]); mk = rng.randrange(3)
        def th():
            rr = random.Random(seed)
            e = rnd_expr(rr, 0, sz)
            if mk == 0: m = emul_helper.x86_machine()
            elif mk == 1: m = eval_abs({S.eax:S.init_eax, S.ebx:ExprInt(uint32(0x1234)), ExprMem(ExprInt(uint32(0x1234)),32):ExprInt(uint32(7))})
            else: m = eval_abs({})
            d0 = D(e); p0 = D(m)
            r = m.eval_expr(e, {})
            return (D(r), str(r), D(e)==d0, D(m)==p0)
        return ('eval seed=%d sz=%d mk=%d'%(seed, sz, mk), th)
    if k == 'emul':
        bs = [rnd_bytes(rng) for _ in range(rng.randrange(1,4))]
        def th():
            m = emul_helper.x86_machine()
            out = []
            for b in bs:
                op = x86mnemo.dis(b)
                if op is None: out.append(None); continue
                d0 = D(op)
                out.append(str(emul_helper.emul_lines(m, [op])))
            return (out, m.dump_id(), m.dump_mem())
        return ('emul %s'%[binascii.hexlify(b).decode() for b in bs], th)

def trial(seed, hist_len=50, check_state=False, s0=None):
    rng = random.Random(seed)
    desc, th = make_probe(rng)
    r0 = call(th)
    w = World(rng)
    for i in range(rng.randrange(1, hist_len+1)):
        w.step()
    r1 = call(th)
    res = []
    if r0 != r1:
        res.append(('PROBE', seed, desc, repr(r0)[:600], repr(r1)[:600]))
    if check_state:
        s1 = shared_state(False)
        d = diff_state(s0, s1)
        d = [x for x in d if x not in ('defaults.x86_mnemo_metaclass.asm',)]
        if d: res.append(('STATE', seed, d))
    return res

if __name__ == '__main__':
    lo, hi = int(sys.argv[1]), int(sys.argv[2])
    cs = len(sys.argv) > 3
    s0 = shared_state(False) if cs else None
    for seed in range(lo, hi):
        r, wfd = os.pipe()
        pid = os.fork()
        if pid == 0:
            os.close(r)
            try:
                res = trial(seed, check_state=cs, s0=s0)
            except BaseException as e:
                res = [('CRASH', seed, traceback.format_exc()[-800:])]
            os.write(wfd, repr(res).encode())
            os._exit(0)
        os.close(wfd)
        data = b''
        while True:
            c = os.read(r, 65536)
            if not c: break
            data += c
        os.close(r); os.waitpid(pid, 0)
        res = eval(data.decode()) if data else [('NODATA', seed)]
        for x in res:
            print(x); sys.stdout.flush()
