# exploration helpers (not part of the reproducers)
import os, sys, binascii, random
from miasmx.arch.ia32_arch import x86mnemo, x86mndb, x86_mn, mnemonic
import miasmx.arch.ia32_arch as A
import miasmx.arch.ia32_sem as S
import miasmx.arch.ia32_att as ATT
import miasmx.core.parse_ad as PAD
from miasmx.arch.ia32_reg import x86_afs
from miasmx.tools import emul_helper
from miasmx.expression.expression import *
from miasmx.expression.expression_helper import expr_simp
from miasmx.expression.expression_eval_abstract import eval_abs, mpool
from miasmx.tools.modint import *
import types

def D(x, flags=False, seen=None, depth=0):
    """deep structural dump"""
    if seen is None: seen = {}
    if depth > 60: return '<deep>'
    if x is None or isinstance(x, (bool, int, float, str, bytes)):
        return (type(x).__name__, x)
    if isinstance(x, moduint):
        return (type(x).__name__, x.arg)
    if id(x) in seen:
        return ('<cycle>',)
    if isinstance(x, Expr):
        c = type(x).__name__
        if isinstance(x, ExprInt): r = (c, D(x.arg))
        elif isinstance(x, ExprId): r = (c, x.name, x.size, x.is_reg) + ((x.is_term,) if flags else ())
        elif isinstance(x, ExprMem): r = (c, D(x.arg, flags), x.size, D(x.segm, flags))
        elif isinstance(x, ExprOp): r = (c, x.op, tuple(D(a, flags) for a in x.args))
        elif isinstance(x, ExprSlice): r = (c, D(x.arg, flags), x.start, x.stop)
        elif isinstance(x, ExprCond): r = (c, D(x.cond, flags), D(x.src1, flags), D(x.src2, flags))
        elif isinstance(x, ExprCompose): r = (c, tuple((D(a[0], flags), a[1], a[2]) for a in x.args))
        elif isinstance(x, ExprAff): r = (c, D(x.dst, flags), D(x.src, flags))
        else: r = (c,)
        if flags:
            r = r + (('T', x.is_term, 'E', x.is_eval),)
        return r
    seen = dict(seen); seen[id(x)] = 1
    if isinstance(x, dict):
        return ('dict', tuple(sorted(((D(k, flags, seen, depth+1), D(v, flags, seen, depth+1)) for k, v in x.items()), key=repr)))
    if isinstance(x, (list, tuple)):
        return (type(x).__name__, tuple(D(a, flags, seen, depth+1) for a in x))
    if isinstance(x, (set, frozenset)):
        return ('set', tuple(sorted((D(a, flags, seen, depth+1) for a in x), key=repr)))
    if isinstance(x, mpool):
        return ('mpool', D(x.pool_id, flags, seen, depth+1), D(x.pool_mem, flags, seen, depth+1))
    if isinstance(x, x86_mn):
        return ('x86_mn', tuple((s, D(getattr(x, s), flags, seen, depth+1)) for s in
            ('opmode','admode','mnemo_mode','cmt','prefix','m','arg','offset','l','b','arg_expr') if hasattr(x, s)))
    if isinstance(x, mnemonic):
        return ('mnemonic', D(x.__dict__, flags, seen, depth+1))
    if isinstance(x, eval_abs):
        return ('eval_abs', D(x.pool, flags, seen, depth+1))
    if isinstance(x, (types.FunctionType, types.BuiltinFunctionType, types.MethodType, type, types.ModuleType)):
        return ('callable', getattr(x, '__name__', '?'))
    if hasattr(x, '__dict__'):
        return (type(x).__name__, D(x.__dict__, flags, seen, depth+1))
    return ('obj', type(x).__name__)

def module_state(mod, flags=False):
    out = {}
    for k, v in vars(mod).items():
        if k.startswith('__'): continue
        if isinstance(v, (types.ModuleType, types.FunctionType, type, types.BuiltinFunctionType)): continue
        if k in ('log', 'console_handler', 'lexer_att', 'lexer_intel', 'parser_att', 'parser_intel', 'lexer', 'parser'): continue
        out[k] = D(v, flags)
    return out

def shared_state(flags=False):
    st = {}
    for name, mod in (('A', A), ('S', S), ('ATT', ATT), ('PAD', PAD), ('EH', emul_helper)):
        for k, v in module_state(mod, flags).items():
            st[name+'.'+k] = v
    st['x86_afs'] = D(x86_afs.__dict__)
    # function defaults
    import miasmx.expression.expression_eval_abstract as EA
    for fn in (x86_mn.__class__.dis, x86_mn.__class__.asm, emul_helper.get_instr_expr, S.dict_to_Expr,
               eval_abs.eval_expr_no_cache, eval_abs.eval_ExprMem, eval_abs.eval_ExprOp, eval_abs.eval_ExprId,
               eval_abs.eval_ExprCond, eval_abs.eval_ExprSlice, eval_abs.eval_ExprCompose, Expr.replace_expr,
               x86_mn.__init__):
        st['defaults.'+fn.__qualname__] = D(fn.__defaults__, flags)
    return st

def diff_state(a, b):
    return [k for k in sorted(set(a)|set(b)) if a.get(k) != b.get(k)]
