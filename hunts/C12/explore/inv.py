# input-preservation invariants
import sys
from fuzz1 import *
lo, hi = int(sys.argv[1]), int(sys.argv[2])
bad = {}
def note(k, msg):
    if k not in bad or len(bad[k]) < 5:
        bad.setdefault(k, []).append(msg)
for seed in range(lo, hi):
    rng = random.Random(seed)
    # dis + str + lift + emul input preservation
    b = rnd_bytes(rng); at = rng.choice(ATTRS); at2 = dict(at)
    r = call(x86mnemo.dis, b, at2)
    if at2 != at: note('dis-attrib', (b, at))
    if r[0] == 'OK' and r[1] is not None:
        op = r[1]
        d0 = D(op)
        call(str, op); call(op.__str__, 'att_syntax'); call(op.__str__, 'att_syntax objdump')
        if D(op) != d0: note('str-mutates-op', binascii.hexlify(b))
        args = []
        r2 = call(emul_helper.get_instr_expr, op, ExprInt(uint32(5)), args)
        d1 = D(op)
        if d1 != d0:
            note('lift-mutates-op', (binascii.hexlify(b), [x for x in zip(d0[1], d1[1]) if x[0]!=x[1]][:1], len(d0[1]), len(d1[1])))
        if r2[0] == 'OK':
            ex = r2[1]
            dex = D(ex)
            m = emul_helper.x86_machine()
            r3 = call(m.eval_instr, ex)
            if D(ex) != dex: note('eval_instr-mutates-exprs', binascii.hexlify(b))
            # evaluate each src read-only
            p0 = D(m)
            for a in ex:
                call(m.eval_expr, a.src, {})
            if D(m) != p0: note('eval_expr-mutates-machine', binascii.hexlify(b))
            if D(ex) != dex: note('eval_expr-mutates-exprs', binascii.hexlify(b))
            for a in ex:
                call(expr_simp, a)
            if D(ex) != dex: note('simp-mutates-exprs', binascii.hexlify(b))
        m = emul_helper.x86_machine()
        d2 = D(op)
        call(emul_helper.emul_lines, m, [op])
        if D(op) != d2: note('emul-mutates-op', binascii.hexlify(b))
    e = rnd_expr(rng, 0, rng.choice([32,32,8,16,1]))
    d0 = D(e)
    call(expr_simp, e)
    if D(e) != d0: note('simp-mutates', (seed, str(e)))
    for mk in range(3):
        if mk == 0: m = emul_helper.x86_machine()
        elif mk == 1: m = eval_abs({S.eax:S.init_eax, S.ebx:ExprInt(uint32(0x1234)), ExprMem(ExprInt(uint32(0x1234)),32):ExprInt(uint32(7)), ExprMem(S.init_eax,32):S.init_ebx})
        else: m = eval_abs({})
        p0 = D(m)
        call(m.eval_expr, e, {})
        if D(e) != d0: note('eval-mutates-expr', (seed, str(e)))
        if D(m) != p0: note('eval-mutates-machine', (seed, str(e)))
for k, v in bad.items():
    print(k, len(v), v[:3])
print('done')
