import sys, hashlib
from fuzz1 import *
lo, hi = int(sys.argv[1]), int(sys.argv[2])
for seed in range(lo, hi):
    rng = random.Random(seed)
    desc, th = make_probe(rng)
    r = call(th)
    print(seed, desc[:60], hashlib.md5(repr(r).encode()).hexdigest())
