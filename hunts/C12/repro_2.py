# Defect 2: the eval_cache={} default of eval_expr_no_cache / eval_Expr* is ONE dict shared by every
# call on every eval_abs instance: a machine returns values computed in another machine's state.
import miasmx; assert miasmx.__file__.startswith("/tmp/wth_C12/"), miasmx.__file__
from miasmx.expression.expression import ExprId, ExprInt, ExprOp
from miasmx.expression.expression_eval_abstract import eval_abs
from miasmx.tools.modint import uint32

m1 = eval_abs({ExprId('r'): ExprInt(uint32(1))})
m2 = eval_abs({ExprId('r'): ExprInt(uint32(2))})
expr = lambda: ExprOp('+', ExprId('r'), ExprInt(uint32(0x10)))     # fresh objects each time

reference = str(m2.eval_expr_no_cache(expr(), {}))   # explicit cache: '0x12'
m1.eval_expr_no_cache(expr())                        # a call on ANOTHER machine instance
got = str(m2.eval_expr_no_cache(expr()))             # same probe on m2, default cache
print("m2 with explicit cache:", reference, "  m2 after a call on m1:", got,
      "  entries in the shared default dict:", len(eval_abs.eval_expr_no_cache.__defaults__[0]))
assert reference == '0x12'
assert got == reference, "m2 (r = 2) evaluated r+0x10 to %s: the value of machine m1 (r = 1)" % got
