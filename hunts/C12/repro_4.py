# Defect 4: a dis() that FAILS (returns None) leaves the caller's bin_stream advanced by the bytes
# it happened to consume; repeating the same call gives another result.
import miasmx; assert miasmx.__file__.startswith("/tmp/wth_C12/"), miasmx.__file__
from miasmx.arch.ia32_arch import x86mnemo
from miasmx.core.bin_stream import bin_stream
import logging; logging.disable(logging.CRITICAL)

bs = bin_stream(b'\x0f\xff\x90\xc3')          # 0F FF: no such instruction, then nop, ret
first = x86mnemo.dis(bs)
off = bs.offset
second = x86mnemo.dis(bs)                       # same call, same arguments
print("first:", first, " offset after failure:", off, " second:", second)
assert first is None
assert off == 0, "failed dis() consumed %d byte(s) of the stream" % off
assert second is None
