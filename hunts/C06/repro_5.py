# Defect 5: a slice of a constant whose width is not 1/8/16/32/64 is never folded,
# so writing an 8/16-bit sub-register of a constant register does not give a constant.
from _common import *
from miasmx.expression.expression import ExprId, ExprInt32, ExprInt8, ExprCompose, ExprSlice, ExprMem
from miasmx.expression.expression_eval_abstract import eval_abs

fails = []
ebx = ExprId('ebx')
# what the lifter builds for "mov bl, 0x10":  ebx = (0x10,0,8, ebx[8:32],8,32)
e = ExprCompose([(ExprInt8(0x10), 0, 8), (ExprSlice(ExprId('ebx'), 8, 32), 8, 32)])
r = eval_abs({ebx: ExprInt32(0x12345678)}).eval_expr(e, {})
if not is_const(r, 0x12345610, 32):
    fails.append("mov bl,0x10 with ebx=0x12345678 gives %s, expected 0x12345610" % r)

# same limitation, crash variant: reading 24 bits of a 32-bit word whose first byte is bound
s1 = ExprId('s1')
e = ExprCompose([(ExprId('b', 8), 0, 8), (ExprSlice(ExprMem(ExprId('s1'), 32), 0, 24), 8, 32)])
try:
    eval_abs({ExprMem(s1, 8): ExprInt8(0)}).eval_expr(e, {})
except KeyError as ex:
    fails.append("KeyError(%s) in merge_sliceto_slice for a 24-bit Compose holding a constant" % ex)
assert not fails, "\n".join(fails)
