# Defect 4: rcl evaluators ('<<<c_rez' / '<<<c_cf') drop the most significant bit of the operand
from _common import *
from miasmx.expression.expression import ExprId, ExprInt32, ExprInt8, ExprOp
from miasmx.expression.expression_eval_abstract import eval_abs

fails = []
def ev(op, a, cnt, cf):
    return eval_abs({}).eval_expr(ExprOp(op, a, cnt, cf), {})
# rcl 0x80000000, 1 with CF=0  ->  result 0, CF=1   (IA-32 SDM, RCL)
r = ev('<<<c_cf', ExprInt32(0x80000000), ExprInt32(1), ExprInt32(0))
if not is_const(r, 1, 32): fails.append("CF of rcl(0x80000000,1,cf=0) = %s, expected 0x1" % r)
# rcl 0x80000000, 2 with CF=0  ->  result 1
r = ev('<<<c_rez', ExprInt32(0x80000000), ExprInt32(2), ExprInt32(0))
if not is_const(r, 1, 32): fails.append("rcl(0x80000000,2,cf=0) = %s, expected 0x1" % r)
# 8 bit: rcl 0xFF, 1 with CF=0 -> CF=1
r = ev('<<<c_cf', ExprInt8(0xFF), ExprInt8(1), ExprInt8(0))
if not is_const(r, 1, 8): fails.append("CF of rcl8(0xFF,1,cf=0) = %s, expected 0x1" % r)
assert not fails, "\n".join(fails)
