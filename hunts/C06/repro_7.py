# Defect 7: shift/rotate count narrower than the shifted operand (what the x86 lifter
# produces for "sar eax, cl": count is ecx[0:8]&0x1F, 8 bits) is rejected.
from _common import *
from miasmx.expression.expression import ExprId, ExprInt32, ExprInt8, ExprOp
from miasmx.expression.expression_eval_abstract import eval_abs
from miasmx.expression.expression_helper import expr_simp

fails = []
eax, ecx = ExprId('eax'), ExprId('ecx')
cnt = ExprOp('&', ExprId('ecx')[0:8], ExprInt8(0x1f))
# (a) evaluator: 'a>>' is missing from eval_abs.op_size_no_check ('a<<' is listed instead)
try:
    r = eval_abs({eax: ExprInt32(0x100), ecx: ExprInt32(4)}).eval_expr(ExprOp('a>>', ExprId('eax'), cnt), {})
    if not is_const(r, 0x10, 32): fails.append("(a) sar(0x100, cl=4) = %s, expected 0x10" % r)
except ValueError as ex:
    fails.append("(a) sar(0x100, cl=4) raises ValueError: %s" % ex)
# same through the emulator
from miasmx.tools import emul_helper
from miasmx.arch import ia32_sem
m = emul_helper.x86_machine()
m.pool[ia32_sem.eax] = ExprInt32(0x100); m.pool[ia32_sem.ecx] = ExprInt32(4)
try:
    emul_helper.emul_lines(m, [lift('d3f8')])            # sar eax, cl
except ValueError as ex:
    fails.append("(a') emulating 'sar eax, cl' with constant eax/ecx raises ValueError: %s" % str(ex)[:60])
# (b) simplifier: constant folding of '>>'/'<<' insists on equal widths
try:
    r = eval_abs({}).eval_expr(ExprOp('>>', ExprInt32(0x100), ExprInt8(4)), {})
    if not is_const(r, 0x10, 32): fails.append("(b) 0x100 >> 4 = %s" % r)
except ValueError as ex:
    fails.append("(b) (0x100 >> 0x4:8) raises ValueError: %s" % ex)
# (c) simplifier: merging two rotates adds counts of different widths, ill-typed result
try:
    e = ExprOp('>>>', ExprOp('>>>', ExprId('s'), ExprOp('&', ExprId('ecx'), ExprInt32(0x1f))), ExprInt8(3))
    r = eval_abs({ExprId('s'): ExprInt32(0x80), ecx: ExprInt32(1)}).eval_expr(e, {})
    if not is_const(r, 0x8, 32): fails.append("(c) ror(ror(0x80,1),3) = %s, expected 0x8" % r)
except ValueError as ex:
    fails.append("(c) ror(ror(s, ecx&0x1f), 3:8) raises ValueError: %s" % str(ex)[:60])
assert not fails, "\n".join(fails)
