import binascii, random, sys, collections, traceback, logging
from miasmx.arch.ia32_arch import x86mnemo
from miasmx.tools import emul_helper
from miasmx.tools.modint import *
from miasmx.expression.expression import *
from miasmx.expression.expression_eval_abstract import eval_abs
from miasmx.arch import ia32_sem
from fuzz import Ref, Unsupported, T, M
logging.disable(logging.CRITICAL)
r = random.Random(int(sys.argv[1]) if len(sys.argv)>1 else 0)
N = int(sys.argv[2]) if len(sys.argv)>2 else 3000
def ids_of(e):
    return get_expr_ids(e)
cnt = collections.Counter(); ex = collections.defaultdict(list)
ops1 = [0x00,0x01,0x02,0x03,0x08,0x09,0x0b,0x10,0x11,0x13,0x18,0x19,0x1b,0x20,0x21,0x23,0x28,0x29,0x2b,0x30,0x31,0x33,0x38,0x39,0x3b,0x84,0x85,0x86,0x87,0x88,0x89,0x8a,0x8b,0x8d,0xc0,0xc1,0xd0,0xd1,0xd2,0xd3,0xf6,0xf7,0xfe,0xff,0x80,0x81,0x83,0x69,0x6b]
ops2 = [0xa3,0xa4,0xa5,0xab,0xac,0xad,0xaf,0xb3,0xb6,0xb7,0xba,0xbb,0xbc,0xbd,0xbe,0xbf,0xc0,0xc1,0x40,0x44,0x4c,0x90,0x94,0x9f]
seen=set()
for it in range(N):
    pre = r.choice([b'', b'', b'\x66'])
    if r.random() < 0.6:
        b = pre + bytes([r.choice(ops1), r.randrange(256)]) + bytes(r.randrange(256) for _ in range(6))
    elif r.random() < 0.8:
        b = pre + bytes([0x0f, r.choice(ops2), r.randrange(256)]) + bytes(r.randrange(256) for _ in range(6))
    else:
        b = pre + bytes([(r.choice([0x40,0x48,0x50,0x58,0x90,0x91,0x98,0x99,0x9e,0x9f,0xa8,0xa9,0xb0,0xb8,0xc9,0xf5,0xf8,0xf9,0xfc,0xfd,0x27,0x2f,0x37,0x3f,0xd4,0xd5,0xd7,0xe0,0xe2,0xe3,0x0f])+r.randrange(0,8))&0xff]) + bytes(r.randrange(256) for _ in range(6))
    try:
        op = x86mnemo.dis(b)
        if op is None: continue
        exs = emul_helper.get_instr_expr(op, ExprInt(uint32(0x1000+op.l)), [])
    except Exception as e:
        cnt['lifterr'] += 1; continue
    name = str(op)
    for aff in exs:
        try:
            src = aff.src
            ids = ids_of(src)
        except Exception:
            cnt['idserr'] += 1; continue
        val = {}; st = {}
        for i in ids:
            v = r.choice([0,1,0x1f,0x20,0x80,0xff,0x7fffffff,0x80000000,0xffffffff,r.getrandbits(32),r.getrandbits(32),r.getrandbits(5)]) & M(i.size)
            val[i.name] = v
            st[i] = ExprInt(T[i.size](v)) if i.size in T else None
        if any(v is None for v in st.values()): cnt['oddsize']+=1; continue
        # memory: leave unbound; result may contain mems -> use Ref with init mem
        try:
            exp = Ref(val, {}).den(src)
        except Unsupported as u:
            cnt['skip']+=1; continue
        except Exception as e:
            cnt['referr']+=1; ex[('referr', type(e).__name__)].append((name, str(aff), str(e))); continue
        try:
            m = eval_abs(st)
            res = m.eval_expr(src.copy(), {})
        except Exception as e:
            tb = traceback.extract_tb(sys.exc_info()[2])[-1]
            cnt['exc']+=1; ex[('exc', type(e).__name__, tb.name, tb.lineno)].append((name, str(aff), str(e)[:80], dict((k, hex(v)) for k,v in val.items()))); continue
        try:
            got = Ref(val, {}).den(res)
        except Exception as e:
            cnt['resexc']+=1; ex[('resexc', type(e).__name__)].append((name, str(aff), str(res))); continue
        hasmem = 'ExprMem' in repr(type(res)) or '@' in str(res)
        if got != exp:
            cnt['mismatch']+=1; ex[('mismatch', name.split()[0])].append((name, str(aff), 'got %#x exp %#x res=%s'%(got,exp,res), dict((k, hex(v)) for k,v in val.items())))
        elif not isinstance(res, ExprInt) and not hasmem:
            cnt['symbolic']+=1; ex[('symbolic', name.split()[0])].append((name, str(aff), str(res)))
        else: cnt['ok']+=1
print(cnt)
for k, l in sorted(ex.items(), key=str):
    print('=====', k, len(l))
    for x in l[:2]: print('   ', x)
print('---- invalid cast breakdown')
c = collections.Counter(); first = {}
for k, l in ex.items():
    if k[0]=='exc' and k[2]=='eval_ExprOp':
        for x in l:
            c[x[0].split()[0]] += 1; first.setdefault(x[0].split()[0], x)
print(c)
for k,v in first.items(): print(k, v)
