# Defect 2: expr_simp rewrites ((A & mask) >> shift) to 0 when mask == 2**shift
from _common import *
from miasmx.expression.expression import ExprId, ExprInt32, ExprOp
from miasmx.expression.expression_eval_abstract import eval_abs
from miasmx.expression.expression_helper import expr_simp

eax = ExprId('eax')
e = ExprOp('>>', ExprOp('&', ExprId('eax'), ExprInt32(0x10)), ExprInt32(4))    # bit 4 of eax
r = eval_abs({eax: ExprInt32(0x10)}).eval_expr(e, {})
s = expr_simp(ExprOp('>>', ExprOp('&', ExprId('eax'), ExprInt32(0x10)), ExprInt32(4)))
assert is_const(r, 1, 32), "((eax & 0x10) >> 4) with eax=0x10 evaluates to %s (expr_simp gives %s), expected 0x1" % (r, s)
