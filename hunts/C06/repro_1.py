# Defect 1: eval_expr writes an "is_eval" flag on the expression objects it
# returns; an identifier evaluated once while unbound is never looked up again.
from _common import *
from miasmx.expression.expression import ExprId, ExprInt32, ExprOp
from miasmx.expression.expression_eval_abstract import eval_abs

fails = []

# (a) minimal: same identifier object, two states
a = ExprId('a')
assert eval_abs({}).eval_expr(a, {}) == a              # unbound: stays 'a' (correct)
r = eval_abs({a: ExprInt32(5)}).eval_expr(a, {})       # bound to 5 in a NEW machine
if not is_const(r, 5, 32):
    fails.append("(a) a bound to 5 evaluates to %s, expected 0x5" % r)
# a structurally equal but fresh object works, so the result depends on object history
assert is_const(eval_abs({a: ExprInt32(5)}).eval_expr(ExprId('a'), {}), 5, 32)

# (b) a previous *result* is never re-evaluated in a later state
x, y = ExprId('x'), ExprId('y')
res = eval_abs({}).eval_expr(ExprOp('+', ExprId('x'), ExprId('y')), {})   # x+y, nothing bound
r = eval_abs({x: ExprInt32(1), y: ExprInt32(2)}).eval_expr(res, {})
if not is_const(r, 3, 32):
    fails.append("(b) x+y with x=1,y=2 evaluates to %s, expected 0x3" % r)

# (c) through the emulator: mov eax, es ; mov es, ebx ; mov ecx, es
from miasmx.tools import emul_helper
from miasmx.arch.ia32_sem import ecx, es, init_ebx
m = emul_helper.x86_machine()
emul_helper.emul_lines(m, [lift('8cc0', 0), lift('8ec3', 2), lift('8cc1', 4)])
if m.pool[ecx] != init_ebx:
    fails.append("(c) after 'mov eax,es; mov es,ebx; mov ecx,es' ecx = %s, expected %s (es = %s)"
                 % (m.pool[ecx], init_ebx, m.pool[es]))

assert not fails, "\n".join(fails)
