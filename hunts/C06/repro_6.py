# Defect 6: ExprInt equality/hash ignore the width, so the evaluation cache returns the
# result of a *different-width* expression.
from _common import *
from miasmx.expression.expression import ExprId, ExprInt8, ExprInt16, ExprOp, ExprCompose, ExprCond
from miasmx.expression.expression_eval_abstract import eval_abs

fails = []
# (a) wrong value: rol8(0x81,1)=0x03 ; rol16(0x0081,1)=0x0102 ; both inside one 32-bit Compose
e1 = ExprOp('<<<', ExprInt8(0x81), ExprInt8(1))
e2 = ExprOp('<<<', ExprInt16(0x81), ExprInt16(1))
assert is_const(eval_abs({}).eval_expr(ExprOp('<<<', ExprInt16(0x81), ExprInt16(1)), {}), 0x102, 16)  # alone: fine
r = eval_abs({}).eval_expr(ExprCompose([(e1, 0, 8), (ExprInt8(0), 8, 16), (e2, 16, 32)]), {})
if not is_const(r, 0x01020003, 32):
    fails.append("(a) (rol8(0x81,1), 0, rol16(0x81,1)) evaluates to %s, expected 0x1020003" % r)
# (b) wrong width: zero-extension of a setcc-like conditional byte to 32 bits
e = ExprCompose([(ExprCond(ExprId('zf', 1), ExprInt8(1), ExprInt8(0)), 0, 8),
                 (ExprInt16(0), 8, 24), (ExprInt8(0), 24, 32)])
r = eval_abs({}).eval_expr(e, {})
if r.get_size() != 32:
    fails.append("(b) zero-extended zf?(1,0) evaluates to %s of width %d, expected width 32" % (r, r.get_size()))
assert not fails, "\n".join(fails)
