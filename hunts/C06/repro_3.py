# Defect 3: a memory cell bound under an address that is not in expr_simp normal
# form is never found, even when reading literally the same expression.
from _common import *
from miasmx.expression.expression import ExprId, ExprInt32, ExprMem
from miasmx.expression.expression_eval_abstract import eval_abs

esp = ExprId('esp')
cell = ExprMem(esp - ExprInt32(4), 32)                 # @32[(esp+(- 0x4))]
m = eval_abs({cell: ExprInt32(0x1234)})
assert cell in m.pool                                  # the state does bind the cell
r = m.eval_expr(ExprMem(ExprId('esp') - ExprInt32(4), 32), {})
assert is_const(r, 0x1234, 32), "@32[esp-4] bound to 0x1234 evaluates to %s, expected 0x1234" % r
