# Additional observations (not among the 8 numbered defects); prints one line each.
from _common import *
from miasmx.expression.expression import *
from miasmx.expression.expression_eval_abstract import eval_abs
from miasmx.tools.modint import uint1
def t(name, f, expected):
    try: got = str(f())
    except BaseException as ex: got = 'EXC %s: %s' % (type(ex).__name__, str(ex)[:60])
    print('%-52s got %-40s expected %s' % (name, got, expected))
a = ExprId('a')
t("E1 double evaluation {a: 1+a}, (a?(1,2),0xff)", lambda: eval_abs({a: ExprOp('+', ExprInt32(1), ExprId('a'))}).eval_expr(
    ExprCompose([(ExprCond(ExprId('a'), ExprInt8(1), ExprInt8(2)), 0, 8), (ExprInt8(0xff), 8, 16)]), {}), "(a+0x1)?(0xFF01,0xFF02)")
fs = ExprId('fs', 16)
t("E2 fs:@32[0x30] when only @32[0x30] is bound", lambda: eval_abs({ExprMem(ExprInt32(0x30), 32): ExprInt32(1)}).eval_expr(ExprMem(ExprInt32(0x30), 32, segm=fs), {}), "fs:@32[0x30]")
t("E2 fs:@32[0x30], empty state", lambda: eval_abs({}).eval_expr(ExprMem(ExprInt32(0x30), 32, segm=fs), {}), "fs:@32[0x30]")
t("E3 rol64(1, 40)", lambda: eval_abs({}).eval_expr(ExprOp('<<<', ExprInt64(1), ExprInt64(40)), {}), "0x10000000000")
t("E3 bsf64(1<<40)", lambda: eval_abs({}).eval_expr(ExprOp('bsf', ExprInt64(1 << 40)), {}), "0x28")
t("E4 !(1:1)", lambda: eval_abs({}).eval_expr(ExprOp('!', ExprInt(uint1(1))), {}), "0x0")
t("E5 1:64 << (1<<40)", lambda: eval_abs({ExprId('c', 64): ExprInt64(1 << 40)}).eval_expr(ExprOp('<<', ExprInt64(1), ExprId('c', 64)), {}), "0x0")
