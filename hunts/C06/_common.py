# shared helpers for the reproducers (not a source file of the project)
import logging, binascii
import miasmx
assert miasmx.__file__.startswith('/tmp/wth_C06/'), miasmx.__file__
logging.disable(logging.CRITICAL)
from miasmx.expression.expression import ExprInt

def is_const(e, value, size):
    """True iff e is the constant `value` of width `size` (ExprInt.__eq__ ignores the width)."""
    return isinstance(e, ExprInt) and int(e.arg) == value and e.get_size() == size

def lift(hexstr, offset=0):
    from miasmx.arch.ia32_arch import x86mnemo
    op = x86mnemo.dis(binascii.unhexlify(hexstr))
    op.offset = offset
    return op
