# Defect 8: the constant evaluator of 'int_32_to_double' (fldz / fld1) crashes
from _common import *
import struct
from miasmx.expression.expression import ExprInt32, ExprOp
from miasmx.expression.expression_eval_abstract import eval_abs

fails = []
try:
    r = eval_abs({}).eval_expr(ExprOp('int_32_to_double', ExprInt32(1)), {})
    # if it ever stops crashing: the current formula reinterprets the bits as a float32
    # and truncates it back to an integer, so 1 -> 0
    if isinstance(r, ExprInt) and int(r.arg) == 0:
        fails.append("int_32_to_double(1) = %s, which cannot denote 1.0" % r)
except struct.error as ex:
    fails.append("int_32_to_double(1) raises struct.error: %s" % ex)
from miasmx.tools import emul_helper
try:
    emul_helper.emul_lines(emul_helper.x86_machine(), [lift('d9e8')])     # fld1
except struct.error as ex:
    fails.append("emulating 'fld1' raises struct.error: %s" % ex)
assert not fails, "\n".join(fails)
