import random, sys, traceback, collections
import miasmx
assert miasmx.__file__.startswith('/tmp/wth_C06/')
from miasmx.expression.expression import *
from miasmx.expression.expression_eval_abstract import eval_abs
from miasmx.expression.expression_helper import expr_simp
from miasmx.tools.modint import *
import logging
T = {1:uint1, 8:uint8,16:uint16,32:uint32,64:uint64}
def mk(size, v): return ExprInt(T[size](v))
M = lambda s:(1<<s)-1

class Unsupported(Exception): pass

def initmem(addr):  # initial memory byte
    return (addr*2654435761 >> 7) & 0xff

class Ref:
    def __init__(self, val, membytes):
        self.val = val      # name -> int for ids
        self.mem = membytes # addr -> byte override
    def rd(self, addr, size):
        v = 0
        for i in range(size//8):
            a = (addr+i) & 0xffffffff
            b = self.mem.get(a, initmem(a))
            v |= b << (8*i)
        return v
    def den(self, e):
        if isinstance(e, ExprInt):
            return int(e.arg) & M(e.get_size())
        if isinstance(e, ExprId):
            return self.val[e.name] & M(e.size)
        if isinstance(e, ExprMem):
            return self.rd(self.den(e.arg), e.size)
        if isinstance(e, ExprSlice):
            return (self.den(e.arg) >> e.start) & M(e.stop-e.start)
        if isinstance(e, ExprCond):
            return self.den(e.src1) if self.den(e.cond) else self.den(e.src2)
        if isinstance(e, ExprCompose):
            v = 0
            for x, a, b in e.args:
                v |= (self.den(x) & M(b-a)) << a
            return v
        if isinstance(e, ExprOp):
            s = e.args[0].get_size()
            m = M(s)
            a = [self.den(x) for x in e.args]
            op = e.op
            if op == '+': return sum(a) & m
            if op == '*':
                r = 1
                for x in a: r *= x
                return r & m
            if op == '^':
                r = 0
                for x in a: r ^= x
                return r & m
            if op == '&':
                r = m
                for x in a: r &= x
                return r
            if op == '|':
                r = 0
                for x in a: r |= x
                return r & m
            if op == '-':
                if len(a) == 1: return (-a[0]) & m
                return (a[0]-a[1]) & m
            if op == '<<': return (a[0] << a[1]) & m if a[1] < 4096 else 0
            if op == '>>': return (a[0] >> a[1]) & m if a[1] < 4096 else 0
            if op == 'a>>':
                sv = a[0] - (1<<s) if a[0] >> (s-1) else a[0]
                return (sv >> min(a[1], 4096)) & m
            if op == '<<<':
                r = a[1] % s
                return ((a[0] << r) | (a[0] >> (s-r))) & m
            if op == '>>>':
                r = a[1] % s
                return ((a[0] >> r) | (a[0] << (s-r))) & m
            if op in ('<<<c_rez', '<<<c_cf', '>>>c_rez', '>>>c_cf'):
                r = (a[1] & 0x1f) % (s+1)
                big = ((a[2]&1) << s) | a[0]
                mm = M(s+1)
                if op.startswith('<<<'):
                    big = ((big << r) | (big >> (s+1-r))) & mm
                else:
                    big = ((big >> r) | (big << (s+1-r))) & mm
                return big & m if op.endswith('rez') else big >> s
            if op == '==': return int(a[0] == a[1])
            if op == '<': return int(a[0] < a[1])
            if op == '!': return a[0] ^ m
            if op == 'parity':
                return 1 - bin(a[0] & 0xff).count('1') % 2
            if op == 'bsf':
                if a[-1] == 0: raise Unsupported('bsf0')
                return (a[-1] & -a[-1]).bit_length()-1
            if op == 'bsr':
                if a[-1] == 0: raise Unsupported('bsr0')
                return a[-1].bit_length()-1
            if op == '*lo': return (a[0]*a[1]) & m
            if op == '*hi': return ((a[0]*a[1]) >> s) & m
            raise Unsupported(op)
        raise Unsupported(type(e))

SYMS = ['s0','s1','s2']      # free symbols (32 bit)
REGS = ['r0','r1','r2','r3'] # registers 32-bit possibly bound
REGS8 = ['b0','b1']
REGS16 = ['w0','w1']
FLAGS = ['f0','f1']          # 32-bit flag-like
# memory cells at addresses
def mem_addrs():
    return [ExprInt32(0x1000), ExprInt32(0x2000), ExprId('s0')+ExprInt32(8), ExprId('s1')]

class Gen:
    def __init__(self, rnd, ops, leaves_sym_only=False, allow_mem=True):
        self.r = rnd; self.ops = ops; self.sym_only = leaves_sym_only; self.allow_mem = allow_mem
    def const(self, size):
        r = self.r
        c = r.choice([0,1,2,3,4,7,8,0x10,0x1f,0x20,0x21,0x7f,0x80,0xff,0x100,0x8000,0xffff,0x80000000,0xffffffff, r.getrandbits(64), r.getrandbits(5)])
        return mk(size, c & M(size))
    def leaf(self, size):
        r = self.r
        k = r.random()
        if k < 0.3: return self.const(size)
        if size == 32:
            names = SYMS if self.sym_only else SYMS+REGS+FLAGS
            if self.allow_mem and k > 0.85:
                return ExprMem(self.addr(), 32)
            return ExprId(r.choice(names), 32)
        if size == 8:
            if self.allow_mem and k > 0.9: return ExprMem(self.addr(), 8)
            if not self.sym_only and k < 0.6: return ExprId(r.choice(REGS8), 8)
            return ExprSlice(self.leaf(32), *r.choice([(0,8),(8,16),(24,32)]))
        if size == 16:
            if self.allow_mem and k > 0.9: return ExprMem(self.addr(), 16)
            if not self.sym_only and k < 0.6: return ExprId(r.choice(REGS16), 16)
            return ExprSlice(self.leaf(32), *r.choice([(0,16),(16,32),(8,24)]))
        if size == 1:
            b = r.randrange(32)
            return ExprSlice(self.leaf(32), b, b+1)
        if size == 64:
            return ExprCompose([(self.leaf(32),0,32),(self.leaf(32),32,64)])
        raise ValueError(size)
    def addr(self):
        return self.r.choice(mem_addrs())
    def expr(self, size, depth):
        r = self.r
        if depth <= 0 or r.random() < 0.15:
            return self.leaf(size)
        k = r.choice(self.ops)
        d = depth-1
        if size == 1 and k not in ('slice','cond','==','<','^','&','|'):
            k = 'slice'
        if k in ('+','*','^','&','|'):
            n = r.choice([2,2,2,3,4])
            return ExprOp(k, *[self.expr(size, d) for _ in range(n)])
        if k == '-':
            if r.random() < 0.5: return ExprOp('-', self.expr(size,d))
            return ExprOp('-', self.expr(size,d), self.expr(size,d))
        if k in ('<<','>>','a>>','<<<','>>>'):
            if size == 64 and k in ('<<<','>>>') and NOKNOWN[0]: return self.leaf(size)
            cs = r.choice([size, size, 8]) if (size != 64 and MIXED[0]) else size
            if r.random()<0.5: cnt = self.const(cs)
            else: cnt = ExprOp('&', self.expr(cs, d), mk(cs, 0x1f))
            return ExprOp(k, self.expr(size,d), cnt)
        if k in ('<<<c_rez','<<<c_cf','>>>c_rez','>>>c_cf'):
            cs = r.choice([size, 8]) if MIXED[0] else size
            cf = r.choice([ExprId(r.choice(FLAGS),32), mk(32, r.randrange(2))]) 
            return ExprOp(k, self.expr(size,d), self.expr(cs, d) if r.random()<0.5 else self.const(cs), cf)
        if k in ('==','<'):
            s2 = r.choice([8,16,32])
            e = ExprOp(k, self.expr(s2,d), self.expr(s2,d))
            # result has size s2
            if s2 == size: return e
            if size < s2: return ExprSlice(e, 0, size)
            return ExprCompose([(e,0,s2),(mk(size, 0),s2,size)]) if size in T else self.leaf(size)
        if k in ('!','parity','bsf','bsr'):
            if size == 64 and k == 'bsf' and NOKNOWN[0]: return self.leaf(size)
            return ExprOp(k, self.expr(size,d))
        if k in ('*lo','*hi'):
            if size == 64 and NOKNOWN[0]: return self.leaf(size)
            return ExprOp(k, self.expr(size,d), self.expr(size,d))
        if k == 'slice':
            big = r.choice([s for s in (8,16,32,64) if s >= size])
            if big == size: return self.expr(size, d)
            st = r.choice([0,0, r.randrange(0, big-size+1), (r.randrange(0,(big-size)//8+1))*8])
            return ExprSlice(self.expr(big, d), st, st+size)
        if k == 'cond':
            cs = r.choice([1,8,32])
            return ExprCond(self.expr(cs,d), self.expr(size,d), self.expr(size,d))
        if k == 'compose':
            if size == 8:
                return self.expr(size, d)
            cuts = {16:[[8,8]], 32:[[8,24],[16,16],[8,8,16],[1,31],[24,8],[8,8,8,8],[16,8,8]], 64:[[32,32],[8,56],[16,48]], 1:[[1]]}[size]
            parts = r.choice(cuts)
            out = []; pos = 0
            for p in parts:
                if p in T: x = self.expr(p, d)
                else:
                    # slice of a bigger thing
                    big = 32 if p < 32 else 64
                    x = ExprSlice(self.expr(big, d), 0, p)
                out.append((x, pos, pos+p)); pos += p
            return ExprCompose(out)
        if k == 'special':
            if size not in (8,16,32): return self.leaf(size)
            A = self.expr(size, d)
            c = lambda: mk(size, r.choice([0,1,2,3,4,5,7,8,15,16,31,32, size, size-1, 1<<r.randrange(size), (1<<r.randrange(size))-1, (1<<r.randrange(size))+1]) & M(size))
            w = r.randrange(12)
            if w == 0:
                mk_, sh_ = c(), c()
                if int(mk_.arg) == 2**int(sh_.arg) and NOKNOWN[0]: sh_ = mk(size, 0)
                return ExprOp('>>', ExprOp('&', A, mk_), sh_)
            if w == 1: return ExprOp('==', ExprOp('|', A, c()), mk(size,0))
            if w == 2: return ExprOp(r.choice(['<<<','>>>']), ExprOp(r.choice(['<<<','>>>']), A, c()), c())
            if w == 3: return ExprOp('+', A, self.expr(size,d), ExprOp('-', A))
            if w == 4: return ExprOp('-', ExprOp('+', A, self.expr(size,d), c()))
            if w == 5: return ExprCond(ExprOp('-', A), self.expr(size,d), self.expr(size,d))
            if w == 6: return ExprOp(r.choice(['<<','>>']), ExprOp(r.choice(['<<','>>']), A, c()), c())
            if w == 7: return ExprOp(r.choice(['<<<','>>>']), A, c())
            if w == 8: return ExprOp('^', A, self.expr(size,d), A)
            if w == 9: return ExprOp('-', A, ExprOp('-', self.expr(size,d)))
            if w == 10: return ExprOp('<<', ExprOp('&', A, c()), c())
            if w == 11: return ExprOp('==', ExprOp('&', A, c()), c())
        if k == 'mem':
            return ExprMem(self.addr() if r.random()<0.7 else ExprOp('+', self.expr(32,d), mk(32,0)), size if size in (8,16,32) else 32) if size in (8,16,32) else self.leaf(size)
        raise ValueError(k)

def make_state(r, gsym):
    """returns pool dict (fresh objects)"""
    st = {}
    for n in REGS+FLAGS:
        k = r.random()
        if k < 0.35: st[ExprId(n,32)] = gsym.const(32) if n in REGS else mk(32, r.randrange(2))
        elif k < 0.7: st[ExprId(n,32)] = gsym.expr(32, 2) if n in REGS else ExprCompose([(gsym.leaf(1),0,1),(mk(32,0),1,32)])
    for n in REGS8:
        k = r.random()
        if k < 0.35: st[ExprId(n,8)] = gsym.const(8)
        elif k < 0.7: st[ExprId(n,8)] = gsym.expr(8,2)
    for n in REGS16:
        k = r.random()
        if k < 0.35: st[ExprId(n,16)] = gsym.const(16)
        elif k < 0.7: st[ExprId(n,16)] = gsym.expr(16,2)
    for a in mem_addrs():
        k = r.random()
        sz = r.choice(MEMSIZES)
        if k < 0.3: st[ExprMem(a, sz)] = gsym.const(sz)
        elif k < 0.6: st[ExprMem(a, sz)] = gsym.expr(sz, 2)
    return st

MEMSIZES = [32]
MIXED=[True]
NOKNOWN=[True]

def run_one(seed, ops, depth, size=None, verbose=False, allow_mem=True):
    r = random.Random(seed)
    g = Gen(r, ops, allow_mem=allow_mem)
    gsym = Gen(r, [o for o in ops if o not in ('mem',)], leaves_sym_only=True, allow_mem=False)
    st = make_state(r, gsym)
    size = size or r.choice([8,16,32,32,32])
    e = g.expr(size, depth)
    estr = str(e); ststr = dict((str(k), str(v)) for k,v in st.items())
    # valuations
    vals = []
    for _ in range(3):
        v = {'s0': 0x10000 + r.randrange(0,0x1000)*0x100, 's1': 0x400000 + r.randrange(0,0x1000)*0x100, 's2': r.getrandbits(32)}
        # unbound regs need a valuation too
        for n in REGS+FLAGS+REGS8+REGS16: v[n] = r.getrandbits(32)
        for n in FLAGS: v[n] &= 1
        vals.append(v)
    # expected
    exps = []
    try:
        for v in vals:
            base = Ref(v, {})
            v2 = dict(v); mem = {}
            for k, b in st.items():
                if isinstance(k, ExprId): v2[k.name] = base.den(b)
                else:
                    a = base.den(k.arg); bv = base.den(b)
                    for i in range(k.size//8): mem[(a+i)&0xffffffff] = (bv >> (8*i)) & 0xff
            exps.append(Ref(v2, mem).den(e))
    except Unsupported as u:
        return ('skip', str(u), estr, ststr)
    try:
        m = eval_abs(st)
        res = m.eval_expr(e, {})
    except Exception as ex:
        tb = traceback.extract_tb(sys.exc_info()[2])[-1]
        return ('exc', '%s:%s @%s:%d'%(type(ex).__name__, str(ex)[:60], tb.name, tb.lineno), estr, ststr)
    try:
        for v, exp in zip(vals, exps):
            got = Ref(v, {}).den(res)
            if got != exp or res.get_size() != size:
                return ('mismatch', 'got %#x exp %#x res=%s size %s/%s'%(got, exp, res, res.get_size(), size), estr, ststr)
    except Unsupported as u:
        return ('skip', str(u), estr, ststr)
    except Exception as ex:
        return ('resexc', '%s:%s res=%s'%(type(ex).__name__, ex, res), estr, ststr)
    return ('ok', '', estr, ststr)

if __name__ == '__main__':
    import argparse
    ap = argparse.ArgumentParser()
    ap.add_argument('--ops', default='+,*,^,&,|,-,<<,>>,<<<,>>>,<<<c_rez,<<<c_cf,==,<,!,parity,bsf,bsr,slice,cond,compose,mem')
    ap.add_argument('--n', type=int, default=2000)
    ap.add_argument('--depth', type=int, default=3)
    ap.add_argument('--seed0', type=int, default=0)
    ap.add_argument('--memsizes', default='32')
    ap.add_argument('--show', type=int, default=3)
    ap.add_argument('--nomem', action='store_true')
    ap.add_argument('--nomixed', action='store_true')
    a = ap.parse_args()
    MEMSIZES[:] = [int(x) for x in a.memsizes.split(',')]
    ops = a.ops.split(',')
    MIXED[0] = not a.nomixed
    logging.disable(logging.CRITICAL)
    cnt = collections.Counter(); ex = collections.defaultdict(list)
    for s in range(a.seed0, a.seed0+a.n):
        k, info, estr, ststr = run_one(s, ops, a.depth, allow_mem=not a.nomem)
        cnt[k] += 1
        if k in ('exc','mismatch','resexc'):
            key = (k, info.split(':')[0] + ' ' + info.split(' @')[-1])
            ex[key if k=='exc' else k].append((len(estr), s, info, estr, ststr))
    print(cnt)
    for key, l in sorted(ex.items(), key=lambda x:str(x[0])):
        l.sort()
        print('=====', key, len(l))
        for ln, s, info, estr, ststr in l[:a.show]:
            print('  seed', s, info); print('    e =', estr); print('    st=', ststr)
