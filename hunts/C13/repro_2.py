# Defect 2: signed (modint) constants are only normalised when two constants
# get folded, so the result depends on the nesting of the operands.
import miasmx
assert miasmx.__file__.startswith('/tmp/wth_C13/'), miasmx.__file__
from miasmx.expression.expression import ExprId, ExprInt, ExprOp
from miasmx.expression.expression_helper import expr_simp
from miasmx.tools.modint import int32, uint32

def mk():
    return ExprId('a', 32), ExprId('c', 32), ExprInt(int32(-1))

a, c, s = mk()
e1 = ExprOp('^', a, s, c, c)                              # a ^ -1 ^ c ^ c
a, c, s = mk()
e2 = ExprOp('^', s, ExprOp('^', ExprOp('^', a, c), c))    # -1 ^ ((a ^ c) ^ c)
s1, s2 = expr_simp(e1), expr_simp(e2)
print(e1, '=>', s1)
print(e2, '=>', s2)
# the "same" constant in its two spellings is not even equal
a, c, s = mk()
u = expr_simp(ExprOp('+', a, ExprInt(int32(-1))))
v = expr_simp(ExprOp('+', a, ExprInt(uint32(0xFFFFFFFF))))
print(u, 'vs', v, '-> equal:', u == v)
assert str(s1) == str(s2) and s1 == s2, 're-association changed the simplified form'
