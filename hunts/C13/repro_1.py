# Defect 1: evaluation results / state dumps depend on what was evaluated earlier
# in the same process (is_eval flag stored on shared expression objects).
import binascii, io, contextlib
import miasmx
assert miasmx.__file__.startswith('/tmp/wth_C13/'), miasmx.__file__
from miasmx.expression.expression import ExprId, ExprInt32
from miasmx.expression.expression_eval_abstract import eval_abs
from miasmx.arch.ia32_arch import x86mnemo
from miasmx.tools import emul_helper

def state(hexs):
    ops = [x86mnemo.dis(binascii.unhexlify(h)) for h in hexs]
    m = emul_helper.x86_machine()
    emul_helper.emul_lines(m, ops)
    return m.dump_id() + m.dump_mem()

# (a) instruction level: the same two instructions on a fresh machine
seq = ['8edb', '8cd9']            # mov ds, ebx ; mov ecx, ds
first = state(seq)
assert 'ecx init_ebx' in first, first
state(['8cd9'])                   # an unrelated fresh machine reads ds once
second = state(seq)               # same program, fresh machine again
print('first :', [x for x in first if x.startswith('ecx')])
print('second:', [x for x in second if x.startswith('ecx')])

# (b) the same thing with the bare evaluator API
x = ExprId('x', 32)
assert str(eval_abs({x: ExprInt32(5)}).eval_expr(x, {})) == '0x5'
eval_abs({}).eval_expr(x, {})     # x unknown here: returned as is, and tagged
r = eval_abs({x: ExprInt32(5)}).eval_expr(x, {})
print('eval of x in {x: 5} ->', r)

assert first == second, 'state dump of the same program differs inside one process'
assert str(r) == '0x5'
