# Defect 5: folding a constant shift builds the unbounded Python integer first.
import time, resource
import miasmx
assert miasmx.__file__.startswith('/tmp/wth_C13/'), miasmx.__file__
from miasmx.expression.expression import ExprOp, ExprInt32, ExprInt64
from miasmx.expression.expression_helper import expr_simp
resource.setrlimit(resource.RLIMIT_AS, (2 << 30, 2 << 30))    # keep the machine safe
# 64 bits: x << -1, i.e. a shift by 0xFFFFFFFFFFFFFFFF
e = ExprOp('<<', ExprInt64(0x80), ExprOp('-', ExprInt64(1)))
try:
    r = expr_simp(e)
    print(e, '=>', r)
except MemoryError:
    r = None
    print(e, 'raises MemoryError (expected 0x0)')
# 32 bits: works, but allocates 256 MB and takes seconds
t = time.time()
try:
    r32 = expr_simp(ExprOp('<<', ExprInt32(1), ExprInt32(0x7FFFFFFF)))
    print('32-bit result', r32, 'in %.1fs' % (time.time() - t))
except MemoryError:
    print('32-bit case: MemoryError too')
assert r is not None and str(r) == '0x0'
