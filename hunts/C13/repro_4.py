# Defect 4: a Compose whose total width is not 1/8/16/32/64 and that has a
# constant piece cannot be simplified (KeyError in merge_sliceto_slice).
import miasmx
assert miasmx.__file__.startswith('/tmp/wth_C13/'), miasmx.__file__
from miasmx.expression.expression import ExprId, ExprInt8, ExprInt32, ExprCompose, ExprSlice, ExprOp
from miasmx.expression.expression_helper import expr_simp
a = ExprId('a', 32)
e = ExprCompose([(ExprInt8(0x12), 0, 8), (a[8:24], 8, 24)])      # a 24-bit value
# typical context: the 24-bit compose is one piece of a 32-bit one
f = ExprCompose([(ExprCompose([(ExprInt8(0x12), 0, 8), (a[8:24], 8, 24)]), 0, 24), (ExprInt8(0), 24, 32)])
bad = []
for x in (e, f):
    try:
        print(x, '=>', expr_simp(x))
    except KeyError as k:
        print(x, 'raises KeyError', k)
        bad.append(x)
assert not bad
