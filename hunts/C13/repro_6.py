# Defect 6: Slice(Mem) -> smaller Mem forgets the segment, so expressions that
# differ (es: / ds: / no segment) get the identical "canonical" form.
import miasmx
assert miasmx.__file__.startswith('/tmp/wth_C13/'), miasmx.__file__
from miasmx.expression.expression import ExprId, ExprMem, ExprSlice
from miasmx.expression.expression_helper import expr_simp
a = ExprId('a', 32)
es = ExprId('es', 16, is_reg=True); ds = ExprId('ds', 16, is_reg=True)
e1 = ExprSlice(ExprMem(a, 32, es), 0, 8)
e2 = ExprSlice(ExprMem(a, 32, ds), 0, 8)
s1, s2 = expr_simp(e1), expr_simp(e2)
print(e1, '=>', s1)
print(e2, '=>', s2)
print(ExprSlice(ExprMem(a, 32, es), 8, 16), '=>', expr_simp(ExprSlice(ExprMem(a, 32, es), 8, 16)))
assert e1 != e2
assert s1 != s2, 'es:@32[a][0:8] and ds:@32[a][0:8] both became %s' % s1
