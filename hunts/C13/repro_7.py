# Defect 7 (minor): the fix-point test of the simplifier uses the loose ExprInt
# equality (width is ignored), so a constant piece of a Compose keeps or changes
# its type depending on the order in which things were written; visible through
# get_size() / the modint class, although str() and == agree.
import miasmx
assert miasmx.__file__.startswith('/tmp/wth_C13/'), miasmx.__file__
from miasmx.expression.expression import ExprId, ExprInt8, ExprCompose, ExprOp
from miasmx.expression.expression_helper import expr_simp

def x():   # pieces given in ascending order
    return ExprCompose([(ExprInt8(5), 0, 8), (ExprId('a', 32)[8:32], 8, 32)])
def y():   # same value, pieces given in descending order
    return ExprCompose([(ExprId('a', 32)[8:32], 8, 32), (ExprInt8(5), 0, 8)])

def shape(e):
    return [(type(p[0]).__name__, p[0].get_size(), p[1], p[2]) for p in e.args]

r1 = expr_simp(ExprOp('|', x(), y()))
r2 = expr_simp(ExprOp('|', y(), x()))
print(r1, shape(r1))
print(r2, shape(r2))
assert str(r1) == str(r2) and r1 == r2          # loose comparison: fine
assert shape(r1) == shape(r2), 'operand order of | changed the type of the constant piece'
