# Defect 3: x ^ x, x + (-x), x - x crash when x has a width that is not 1/8/16/32/64.
import miasmx
assert miasmx.__file__.startswith('/tmp/wth_C13/'), miasmx.__file__
from miasmx.expression.expression import ExprId, ExprOp, ExprSlice
from miasmx.expression.expression_helper import expr_simp
a, b = ExprId('a', 32), ExprId('b', 32)
ok = expr_simp(ExprOp('|', a[0:4], b[0:4], a[0:4]))
print('|  ->', ok)                       # (a[0:4]|b[0:4]) fine
bad = []
for e in [ExprOp('^', a[0:4], b[0:4], a[0:4]),         # expected b[0:4]
          ExprOp('+', a[8:32], b[8:32], ExprOp('-', a[8:32])),   # expected b[8:32]
          ExprOp('-', a[1:32], a[1:32])]:              # expected a 31-bit zero / unchanged
    try:
        print(e, '=>', expr_simp(e))
    except KeyError as x:
        print(e, 'raises KeyError', x)
        bad.append(e)
assert not bad, 'simplifier raised KeyError on %d well-typed expressions' % len(bad)
