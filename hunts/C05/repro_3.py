# Defect 3: constant folding of << and >> insists on equal widths of value and count, although the
# project (x86 lifter: 'shr eax, cl'; evaluator: op_size_no_check) uses 8-bit counts for wider values.
import _common
from miasmx.expression.expression import ExprId, ExprOp, ExprInt8, ExprInt32
from miasmx.expression.expression_helper import expr_simp
from miasmx.expression.expression_eval_abstract import eval_abs

e = ExprOp('>>', ExprInt32(16), ExprInt8(1))
# the project's own evaluator gives 0x8
m = eval_abs({})
print('evaluator:', m.eval_ExprOp(e))
assert m.eval_ExprOp(e) == ExprInt32(8)

# what a user of the lifter gets: 'shr eax, cl' then substitute known register values and simplify
eax, ecx = ExprId('eax', 32), ExprId('ecx', 32)
shr = ExprOp('>>', eax, ExprOp('&', ecx[0:8], ExprInt8(0x1f)))        # as built by ia32_sem.shr
try:
    s = expr_simp(shr.replace_expr({eax: ExprInt32(16), ecx: ExprInt32(1)}))
    print(s)
except ValueError as ex:
    print('expr_simp raises', repr(ex))
    raise AssertionError('expr_simp(%s) raised %r, expected 0x8' % (e, ex))
assert s == ExprInt32(8) and s.get_size() == 32
