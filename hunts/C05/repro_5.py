# Defect 5: every rule that creates a constant looks the width up in tab_size_int {1,8,16,32,64}:
# KeyError for any other width (4-bit nibbles, 48-bit lgdt operand, 80/128-bit registers, ...)
import _common
from miasmx.expression.expression import ExprId, ExprOp, ExprCompose, ExprInt, ExprInt8, ExprInt16
from miasmx.expression.expression_helper import expr_simp
from miasmx.tools.modint import uint1

x = ExprId('x', 32)
fails = []
def run(e, expected=None):
    try:
        s = expr_simp(e); print(e, '->', s)
    except KeyError as ex:
        print(e, 'raises KeyError', ex); fails.append('%s: KeyError(%s)' % (e, ex))
nib = x[0:4]
run(ExprOp('^', nib, nib))                          # expected: 0 on 4 bits (or left unchanged)
run(ExprOp('+', nib, ExprOp('-', nib)))             # idem
b0, b1 = ExprInt(uint1(1)), ExprInt(uint1(0))
run(ExprCompose([(b0, 0, 1), (b1, 1, 2), (x[0:2], 2, 4)]))        # 4-bit compose with constant pieces
run(ExprCompose([(ExprInt8(1), 0, 8), (ExprInt16(1), 8, 24)]))   # 24-bit compose of constants
assert not fails, fails
