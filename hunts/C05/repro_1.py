# Defect 1: Slice(Mem, 0, 8k) -> Mem(size=8k) forgets the segment of the memory access
import _common
from miasmx.expression.expression import ExprId, ExprMem, ExprSlice
from miasmx.expression.expression_helper import expr_simp

fs = ExprId('fs', 16)
x = ExprId('x', 32)
e = ExprSlice(ExprMem(x, 32, fs), 0, 16)          # low word of fs:[x]
s = expr_simp(e)
print(e, '->', s)                                 # fs:@32[x][0:16] -> @16[x]
expected = ExprMem(x, 16, fs)                      # fs:@16[x]
# the simplified expression reads another memory location (flat [x] instead of fs:[x]):
# for any memory in which fs:[x] and [x] differ the value changes
assert isinstance(s, ExprMem) and s.segm == fs, 'segment lost: %s -> %s (expected %s)' % (e, s, expected)
assert s == expected
