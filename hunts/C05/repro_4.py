# Defect 4: shift counts are used as unbounded Python shift/exponent operands:
#   int << int folding computes 1 << (2**63) ; the (A & mask) >> shift rule computes 2**shift
# -> MemoryError / tens of seconds and gigabytes instead of the result 0.
import _common, resource, signal, time
resource.setrlimit(resource.RLIMIT_AS, (1 << 30, 1 << 30))   # 1 GB cap so the test machine survives
from miasmx.expression.expression import ExprId, ExprOp, ExprInt32, ExprInt64
from miasmx.expression.expression_helper import expr_simp

class Timeout(Exception): pass
def _alarm(*a): raise Timeout()
signal.signal(signal.SIGALRM, _alarm)

fails = []
def run(e, expected):
    t = time.time(); signal.alarm(10)
    try:
        s = expr_simp(e)
        signal.alarm(0)
        print(e, '->', s, '%.1fs' % (time.time() - t))
        if s != expected or time.time() - t > 5: fails.append('%s: slow or wrong: %s' % (e, s))
    except (MemoryError, OverflowError, Timeout) as ex:
        signal.alarm(0)
        print(e, 'raises', repr(ex), '%.1fs' % (time.time() - t))
        fails.append('%s: %r (expected %s)' % (e, ex, expected))

a64 = ExprId('a', 64); a32 = ExprId('a', 32)
run(ExprOp('<<', ExprInt64(1), ExprInt64(1 << 63)), ExprInt64(0))                           # folding, line 191
run(ExprOp('>>', ExprOp('&', a64, ExprInt64(1)), ExprInt64(1 << 63)), ExprInt64(0))         # 2**shift, line 280
run(ExprOp('<<', ExprInt32(3), ExprInt32(0xECD232EB)), ExprInt32(0))                        # 32 bit: ~0.5 GB, seconds
assert not fails, fails
