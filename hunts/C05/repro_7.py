# Defect 7 (expression.py, building expressions rather than simplifying them): ~e on a 1-bit expression
import _common
from miasmx.expression.expression import ExprId, ExprOp, ExprInt
from miasmx.expression.expression_helper import expr_simp
from miasmx.tools.modint import uint1
cf = ExprId('cf', 1)
try:
    e = ~cf
except KeyError as ex:
    raise AssertionError('~cf raised KeyError(%s); expected (cf^0x1)' % ex)
assert expr_simp(e) == ExprOp('^', cf, ExprInt(uint1(1)))
