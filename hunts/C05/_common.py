import sys
sys.path.insert(0, '/tmp/wth_C05')
import miasmx
assert miasmx.__file__.startswith('/tmp/wth_C05/'), 'wrong miasmx imported: %s' % miasmx.__file__
