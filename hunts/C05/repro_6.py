# Defect 6: expr_simp is recursive in the depth of the tree and re-walks the whole sub-tree after every
# rewrite step: RecursionError from ~250 nested rounds (default recursion limit), cubic time below that.
import _common, time, sys
from miasmx.expression.expression import ExprId, ExprOp, ExprInt32
from miasmx.expression.expression_helper import expr_simp
assert sys.getrecursionlimit() == 1000
def chain(n):
    e = ExprId('x', 32)
    for i in range(n):                      # eax = (eax + y_i) ^ c_i   -- e.g. an unrolled hashing loop
        e = ExprOp('^', ExprOp('+', e, ExprId('y%d' % i, 32)), ExprInt32(i + 1))
    return e
for n in (100, 200):
    t = time.time(); expr_simp(chain(n)); print(n, 'rounds: %.2fs' % (time.time() - t))
try:
    expr_simp(chain(300))
except RecursionError as ex:
    raise AssertionError('expr_simp raised RecursionError on a 600-deep well-typed expression')
