# Defect 2: merging two rotations adds/subtracts the two counts without looking at their widths.
# The x86 lifter builds rotations/shifts of a 32-bit value with the 8-bit count cl and with
# 32-bit immediates, so the merged count is an ill-typed sum (8-bit + 32-bit):
#   - both counts constant  -> ValueError('diff size!') out of expr_simp
#   - symbolic              -> result contains '+' over operands of different widths
#   - a count narrower than log2(width) (1-bit) -> wrong value, the sum wraps at the count's width
import _common
from miasmx.expression.expression import ExprId, ExprOp, ExprInt, ExprInt8, ExprInt32
from miasmx.expression.expression_helper import expr_simp
from miasmx.tools.modint import uint1

eax = ExprId('eax', 32)
fails = []

# (a) ror eax, cl (cl == 3) ; rol eax, 6      expected: eax <<< 3 (or any equivalent rotation)
e = ExprOp('<<<', ExprOp('>>>', eax, ExprInt8(3)), ExprInt32(6))
try:
    s = expr_simp(e)
    print(e, '->', s)
except ValueError as ex:
    print(e, 'raises', repr(ex))
    fails.append('a: %r' % ex)

# (a') the same through the emulator (sequence taken from tests/test_emul.py, with cl made concrete)
from miasmx.arch.ia32_arch import x86mnemo
from miasmx.tools import emul_helper
lines = [x86mnemo.dis(x86mnemo.asm_att(l)[0]) for l in ['movb $3, %cl', 'rorl %cl, %eax', 'roll $6, %eax']]
try:
    emul_helper.emul_lines(emul_helper.x86_machine(), lines)
except ValueError as ex:
    print('emul_lines raises', repr(ex))
    fails.append("a': %r" % ex)

# (b) symbolic: the merged count mixes widths
cl = ExprId('ecx', 32)[0:8]
s = expr_simp(ExprOp('<<<', ExprOp('>>>', eax, cl), ExprInt32(6)))
print(s)                                           # (eax >>> (ecx[0:8]+0xFFFFFFFA))
cnt = s.args[1]
if isinstance(cnt, ExprOp) and len(set(a.get_size() for a in cnt.args)) != 1:
    fails.append('b: ill-typed count %s sizes %s' % (cnt, [a.get_size() for a in cnt.args]))

# (c) value: 1-bit counts, 8-bit value: rotate left by x then by y, x = y = 1 -> rotation by 2,
#     simplified to a <<< (x+y) where x+y is computed on 1 bit -> rotation by 0
a = ExprId('a', 8); x1 = ExprId('x', 1); y1 = ExprId('y', 1)
s = expr_simp(ExprOp('<<<', ExprOp('<<<', a, x1), y1))
print(s)                                           # (a <<< (x+y))
s1 = expr_simp(s.replace_expr({x1: ExprInt(uint1(1)), y1: ExprInt(uint1(1)), a: ExprInt8(0x81)}))
print(s1)                                          # 0x81 ; rol(rol(0x81,1),1) == 0x06
if not (isinstance(s1, ExprOp) and s1.op == '<<<' and int(s1.args[1].arg) % 8 == 2):
    fails.append('c: (0x81 <<< 1) <<< 1 simplified to %s, expected a rotation by 2 (0x06)' % s1)
assert not fails, fails
