# Defect 1: a 16-bit *memory/register operand* makes the assembler add an
# operand-size prefix 0x66 even for MMX/SSE instructions, where 0x66 is a
# mandatory-prefix selector: 'pinsrw mm0, WORD PTR [eax], 1' is encoded as
# 'pinsrw xmm0, WORD PTR [eax], 1'.
from _common import *
line = 'pinsrw mm0, WORD PTR [eax], 1'
c = asm(line); show(line, c)
# IA-32: PINSRW mm, r32/m16, imm8 = 0F C4 /r ib (no prefix); 66 0F C4 is the XMM form
assert c, 'no candidate'
assert c[0] == H('0f c4 00 01'), 'first candidate %s is not 0fc40001 (pinsrw mm0)' % c[0].hex()
assert not any(b.startswith(b'\x66') for b in c), 'a candidate selects the XMM form'
# same root cause: doubled 0x66 for the XMM forms, redundant 0x66 on lldt/lmsw/verr ...
line = 'pmovsxbq xmm0, WORD PTR [eax]'
c = asm(line); show(line, c)
assert c[0] == H('66 0f 38 22 00'), c[0].hex()
line = 'lldt ax'
c = asm(line); show(line, c)
assert c[0] == H('0f 00 d0'), c[0].hex()
