# Defect 4: string instructions written with explicit operands silently lose
# the segment override of the source operand.
from _common import *
tests = [
    (asm,     'movsb BYTE PTR es:[edi], BYTE PTR fs:[esi]', '64 a4'),
    (asm_att, 'movsb %fs:(%esi),%es:(%edi)',                '64 a4'),
    (asm,     'cmpsd DWORD PTR gs:[esi], DWORD PTR es:[edi]', '65 a7'),
    (asm,     'lodsb BYTE PTR fs:[esi]',                     '64 ac'),
    (asm_att, 'lodsb %fs:(%esi)',                            '64 ac'),
]
bad = []
for f, line, exp in tests:
    c = f(line); show(line, c)
    if c != [H(exp)]:
        bad.append((line, [b.hex() for b in c], exp))
assert not bad, bad
