# Defect 3: 'movq xmm, m64' with a segment override (or any other prefix)
# yields only invalid encodings F3 0F 6E /r (undefined opcode) instead of
# F3 0F 7E /r.
from _common import *
ok = asm('movq xmm0, QWORD PTR [eax]')
show('movq xmm0, QWORD PTR [eax]', ok)
assert ok[0] == H('f3 0f 7e 00')
line = 'movq xmm0, QWORD PTR fs:[eax]'
c = asm(line); show(line, c)
line2 = 'movq %fs:(%eax), %xmm0'
c2 = asm_att(line2); show(line2, c2)
for cc in (c, c2):
    assert cc, 'no candidate'
    assert cc[0] == H('64 f3 0f 7e 00'), 'first candidate is %s, expected 64f30f7e00' % cc[0].hex()
    assert not any(b[:4] == H('64 f3 0f 6e') for b in cc), 'invalid opcode F3 0F 6E emitted'
