# Defect 7: far jump with immediate operands: AT&T 'ljmp $seg, $off' is
# encoded with segment and offset exchanged; the Intel spelling used by the
# assembler ('jmpf seg, off') is the opposite of what the disassembler prints.
from _common import *
line = 'ljmp $1, $2'                  # GNU as: ea 02 00 00 00 01 00  (jmp 0x1:0x2)
c = asm_att(line); show(line, c)
line2 = 'ljmp $0x10, $0x12345678'     # GNU as: ea 78 56 34 12 10 00
c2 = asm_att(line2); show(line2, c2)
# round trip through the project's own disassembler
b = H('ea 02 00 00 00 01 00')
txt = str(x86mnemo.dis(b))
rt = asm(txt)
print('dis(%s) = %r ; asm(that) = %s' % (b.hex(), txt, [x.hex() for x in rt]))
assert c == [H('ea 02 00 00 00 01 00')], [x.hex() for x in c]
assert c2 == [H('ea 78 56 34 12 10 00')], [x.hex() for x in c2]
assert rt == [b], 'asm(dis(x)) != x'
