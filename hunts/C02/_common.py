# Shared helper for the reproducers: import the worktree's miasmx and offer
# an optional objdump-based pretty printer (only used for display).
import sys, os, subprocess, tempfile, logging, io, contextlib
sys.path.insert(0, '/tmp/wth_C02')
import miasmx
assert miasmx.__file__.startswith('/tmp/wth_C02/'), miasmx.__file__
from miasmx.arch.ia32_arch import x86mnemo
logging.disable(logging.CRITICAL)

def H(s):
    return bytes.fromhex(s.replace(' ', ''))

def quiet(f, *a):
    buf = io.StringIO()
    with contextlib.redirect_stdout(buf), contextlib.redirect_stderr(buf):
        return f(*a)

def asm(line):
    return quiet(x86mnemo.asm, line)

def asm_att(line):
    return quiet(x86mnemo.asm_att, line)

def objdump(b):
    """independent reference disassembly (GNU objdump), for display only"""
    try:
        d = tempfile.mkdtemp()
        p = os.path.join(d, 'x.bin')
        open(p, 'wb').write(b + b'\x90' * 15)
        out = subprocess.run(['objdump', '-D', '-b', 'binary', '-mi386', '-M', 'intel', p],
                             capture_output=True, text=True).stdout
        for l in out.splitlines():
            if l.strip().startswith('0:'):
                return l.split('\t', 2)[-1].strip()
    except Exception as e:
        return '?'
    return '?'

def show(line, cands):
    print('%-48s ->' % line)
    for b in cands[:4]:
        print('      %-24s %s' % (b.hex(), objdump(b)))
    if len(cands) > 4:
        print('      ... (%d candidates)' % len(cands))
