# Defect 8: the width/class of a register used inside a memory operand is
# forgotten: [bx] is assembled as [ebx], [al] and [st] as [eax].
from _common import *
bad = []
for f, line in [(asm, 'mov eax, [bx]'), (asm_att, 'movl (%bx), %eax'), (asm, 'mov edx, [al]'),
                (asm, 'mov edx, DWORD PTR [st]'), (asm, 'mov eax, [si+4]')]:
    try:
        c = f(line)
    except Exception as e:
        print('%-30s rejected: %r' % (line, e)); continue
    show(line, c)
    # a correct encoding of 16-bit addressing needs the 0x67 prefix;
    # [al] / [st] are not addresses at all and must be rejected
    wrong = [b for b in c if not b.startswith(b'\x67')]
    if wrong:
        bad.append((line, wrong[0].hex()))
assert not bad, bad
