# Defect 2: 'pmovmskb r32, xmm' is encoded without the mandatory 0x66 prefix,
# i.e. as 'pmovmskb r32, mm' (both syntaxes).
from _common import *
line = 'pmovmskb eax, xmm0'
c = asm(line); show(line, c)
line2 = 'pmovmskb %xmm0, %eax'
c2 = asm_att(line2); show(line2, c2)
# IA-32: PMOVMSKB r32, xmm = 66 0F D7 /r ; 0F D7 /r is PMOVMSKB r32, mm
assert c == [H('66 0f d7 c0')], [b.hex() for b in c]
assert c2 == [H('66 0f d7 c0')], [b.hex() for b in c2]
