# Extra B: register class / operand size of the operands is not validated;
# the line is accepted and a DIFFERENT instruction is encoded.
from _common import *
cases = [
    'paddb eax, ebx',            # -> paddb mm0, mm3
    'xorps ax, bx',              # -> xorpd xmm0, xmm3 (16-bit reg adds 0x66 = other instruction)
    'movaps xmm9, [eax]',        # -> movaps xmm1, [eax] (xmm9 does not exist in IA-32)
    'imul mm1, mm2, 4',          # -> imul ecx, edx, 4
    'imul al, bl, 4',            # -> imul eax, ebx, 4
    'xor eax, BYTE PTR [eax]',   # -> xor eax, DWORD PTR [eax]
    'xor al, WORD PTR [eax]',    # -> 66 32 00
    'movd DWORD PTR [eax], eax', # -> movd [eax], mm0
    'lea ax, eax',               # -> lea ax, [eax]
    'push eax+4',                # -> push 4   (register term dropped)
    'add eax, ebx+1',            # -> add eax, 1
]
bad = []
for line in cases:
    try:
        c = asm(line)
    except Exception as e:
        print(line, 'rejected', repr(e)); continue
    show(line, c)
    if c: bad.append((line, c[0].hex(), objdump(c[0])))
assert not bad, bad
