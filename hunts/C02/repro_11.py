# Extra C: the mnemonic table generates names that are not IA-32 instructions
# (xorss, andsd, orss, movass, movmskpREPZ ...); they assemble to undefined opcodes.
from _common import *
bad = []
for line in ['xorss xmm0, xmm1', 'andsd xmm0, xmm1', 'orss xmm0, [eax]', 'movass xmm0, xmm1',
             'movmskpREPZ eax, xmm0', 'unpcklss xmm0, xmm1', 'shufsd xmm0, xmm1, 1', 'rcppd xmm0, xmm1']:
    c = asm(line); show(line, c)
    if c: bad.append((line, c[0].hex(), objdump(c[0])))
assert not bad, bad
