# Defect 5 (Intel parser): in 'disp[expr]' the outer displacement REPLACES the
# displacement found inside the brackets instead of being added to it.
from _common import *
tests = [
    ('mov eax, DWORD PTR 4[ebx+8]',   '8b 43 0c'),   # [ebx+12]
    ('mov eax, DWORD PTR -4[ebp+8]',  '8b 45 04'),   # [ebp+4]
    ('mov eax, 4[ebx+8]',             '8b 43 0c'),
    ('mov eax, DWORD PTR 4+foo[ebx+8]', '8b 43 0c'), # symbol assembled as 0
]
bad = []
for line, exp in tests:
    c = asm(line); show(line, c)
    if not c or c[0] != H(exp):
        bad.append((line, c[0].hex() if c else None, exp))
assert not bad, bad
