# Extra A: valid register-register SSE lines get an additional candidate that
# is an undefined opcode (memory-only store form used with mod=11), and
# MMX 'pextrw r32, mm, imm8' gets the SSE4.1 opcode without its 0x66 prefix.
from _common import *
INVALID = {
    'movhlps xmm0, xmm1': '0f 13',   # 0F 13 /r = MOVLPS m64,xmm : register form undefined
    'movlhps xmm0, xmm1': '0f 17',
    'movddup xmm0, xmm1': 'f2 0f 13',
    'movshdup xmm0, xmm1': 'f3 0f 17',
    'movsldup xmm0, xmm1': 'f3 0f 13',
    'pextrw eax, mm0, 1': '0f 3a 15', # 0F 3A 15 needs 66 and an XMM source
}
bad = []
for line, pfx in INVALID.items():
    c = asm(line); show(line, c)
    for b in c:
        if b.startswith(H(pfx)):
            bad.append((line, b.hex()))
assert not bad, bad
