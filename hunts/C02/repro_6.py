# Defect 6 (AT&T parser): 'constant + constant' keeps only the right-hand
# number ($1+2 == 2, 4+4(%ebx) == 4(%ebx)).
from _common import *
tests = [
    ('movl $1+2, %eax',       'b8 03 00 00 00'),
    ('movl 4+4(%ebx), %eax',  '8b 43 08'),
    ('pushl $-1+2',           '6a 01'),
    ('addl $100+100, %ecx',   '81 c1 c8 00 00 00'),   # 200 does not fit imm8
]
bad = []
for line, exp in tests:
    c = asm_att(line); show(line, c)
    if not c or c[0] != H(exp):
        bad.append((line, c[0].hex() if c else None, exp))
assert not bad, bad
