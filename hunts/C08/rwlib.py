# Helper shared by the reproducers: disassemble + lift through the public API
# and compute the read / write sets of the lifted semantics.
import binascii, os, sys
import miasmx
assert os.path.realpath(miasmx.__file__).startswith('/tmp/wth_C08/'), \
    "wrong miasmx imported: %s" % miasmx.__file__
from miasmx.arch.ia32_arch import x86mnemo
from miasmx.tools import emul_helper
from miasmx.tools.modint import uint32
from miasmx.expression.expression import ExprInt, ExprMem

def lift(hexbytes):
    op = x86mnemo.dis(binascii.unhexlify(hexbytes))
    assert op is not None, "not disassembled: %s" % hexbytes
    exprs = emul_helper.get_instr_expr(op, ExprInt(uint32(0x1000)), [])
    return op, exprs

def rw(exprs, lenient=True):
    """names of everything read / written by a list of ExprAff.
    lenient=True additionally counts the address registers of a memory
    destination as read (the most generous interpretation)."""
    R, W = set(), set()
    for e in exprs:
        R |= e.get_r(mem_read=True)
        if lenient and isinstance(e.dst, ExprMem):
            R |= e.dst.arg.get_r(mem_read=True)
        W |= e.get_w()
    return set(str(x) for x in R), set(str(x) for x in W)

def check(hexbytes, need_r=(), need_w=(), lenient=True):
    op, ex = lift(hexbytes)
    R, W = rw(ex, lenient)
    print("%-16s %-34s" % (hexbytes, op))
    for e in ex:
        print("        %s" % e)
    print("        R = %s" % sorted(R))
    print("        W = %s" % sorted(W))
    miss_r = sorted(set(need_r) - R)
    miss_w = sorted(set(need_w) - W)
    if miss_r: print("   ***  missing from read set : %s" % miss_r)
    if miss_w: print("   ***  missing from write set: %s" % miss_w)
    return miss_r, miss_w
