# Defect 5: fcomip / fucomip compare, set ZF/PF/CF *and pop the x87 stack*.
# The lifted semantics has no pop: none of st0..st7 / the stack pointer is in the
# write set (and st1..st7, which move into st0..st6, are not read).
import sys, os; sys.path.insert(0, os.path.dirname(os.path.abspath(__file__)))
from rwlib import *
bad = []
for hx in ['dff1',    # fcomip  st, st(1)
           'dfe9']:   # fucomip st, st(1)
    need_w = ['float_st%d' % i for i in range(7)] + ['float_stack_ptr', 'zf', 'pf', 'cf']
    need_r = ['float_st%d' % i for i in range(8)]
    mr, mw = check(hx, need_r=need_r, need_w=need_w)
    if mr or mw: bad.append((hx, mr, mw))
# control: the non-popping and the status-word popping variants are fine
assert check('dbf1', need_r=['float_st0', 'float_st1'], need_w=['zf', 'pf', 'cf']) == ([], [])  # fcomi
assert check('dde9', need_w=['float_st0', 'float_stack_ptr']) == ([], [])                        # fucomp st(1)
assert not bad, "fcomip/fucomip do not pop: %s" % bad
