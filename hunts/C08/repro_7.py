# Defect 7: cmpxchg8b m64 compares EDX:EAX with the memory operand; ZF and the new
# value of memory / EDX:EAX depend on the initial EAX and EDX, which are NOT in the
# read set (zf is computed by an operator with no argument at all).
import sys, os; sys.path.insert(0, os.path.dirname(os.path.abspath(__file__)))
from rwlib import *
mr, mw = check('0fc70b',                     # cmpxchg8b [ebx]
               need_r=['eax', 'edx', 'ebx', 'ecx'],
               need_w=['eax', 'edx', 'zf'])
op, ex = lift('0fc70b')
zf_src = [e.src for e in ex if str(e.dst) == 'zf'][0]
print("        zf depends on: %s" % sorted(str(x) for x in zf_src.get_r(True)))
mem = [e.dst for e in ex if isinstance(e.dst, ExprMem)][0]
print("        memory operand size: %s bits (IA-32: 64)" % mem.size)
assert not mr and not mw, "cmpxchg8b: missing reads %s, missing writes %s" % (mr, mw)
