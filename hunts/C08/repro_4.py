# Defect 4: "store and pop" x87 instructions with a register destination.
#   fstp st(i):  st(i) <- st0, then pop.  Architecturally (old values on the right)
#       new st(i-1) = old st0, new st(j) = old st(j+1) for every other j.
#   * fstp st(0) (the usual "pop and discard" idiom): new st0 = old st1, but st1 is
#     NOT in the read set (the model says st0 keeps its value).
#   * fstp st(i), i >= 2: st(i-1) is modified (it receives old st0) but is NOT in the
#     write set (the model assigns st(i) twice instead).
import sys, os; sys.path.insert(0, os.path.dirname(os.path.abspath(__file__)))
from rwlib import *
bad = []
mr, mw = check('ddd8', need_r=['float_st1'], need_w=['float_st0'])     # fstp st(0)
if mr or mw: bad.append(('fstp st(0)', mr, mw))
for i in range(2, 8):
    hx = 'dd%02x' % (0xd8 + i)                                          # fstp st(i)
    mr, mw = check(hx, need_r=['float_st0'], need_w=['float_st%d' % (i-1)])
    if mr or mw: bad.append(('fstp st(%d)' % i, mr, mw))
    op, ex = lift(hx)
    dsts = [str(e.dst) for e in ex]
    dup = sorted(set(d for d in dsts if dsts.count(d) > 1))
    if dup: print("        (destination assigned twice in one instruction: %s)" % dup)
# same helper, arithmetic flavour: fdivrp st(3), st  -> after the pop new st0 = old st1,
# but st1 is not read (the model leaves the quotient in st0 instead of st2)
mr, mw = check('def3', need_r=['float_st0', 'float_st1', 'float_st3'])
if mr: bad.append(('fdivrp st(3), st', mr, mw))
assert not bad, "x87 store/arith-and-pop with register operand: %s" % bad
