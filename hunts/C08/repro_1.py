# Defect 1: shifts / rotates with a masked count of 0 leave EFLAGS untouched on
# IA-32, so the final ZF/SF/PF/OF (CF/OF for rotates) equal the *initial* ones.
# The lifted semantics assigns these flags unconditionally from the operands, so
# they are in the write set but NOT in the read set.
import sys, os; sys.path.insert(0, os.path.dirname(os.path.abspath(__file__)))
from rwlib import *
from miasmx.arch.ia32_sem import ecx, ebx, zf, nf, pf, of, cf, init_zf
bad = []
for hx, need in [
    ('d3e3', ['zf', 'nf', 'pf', 'of']),   # shl ebx, cl
    ('d3eb', ['zf', 'nf', 'pf', 'of']),   # shr ebx, cl
    ('d3fb', ['zf', 'nf', 'pf', 'of']),   # sar ebx, cl
    ('0fa5c3', ['zf', 'nf', 'pf', 'of']), # shld ebx, eax, cl
    ('0fadc3', ['zf', 'nf', 'pf', 'of']), # shrd ebx, eax, cl
    ('c1e320', ['zf', 'nf', 'pf', 'of']), # shl ebx, 32  (count & 31 == 0)
    ('d3c3', ['cf', 'of']),               # rol ebx, cl
    ('d3cb', ['cf', 'of']),               # ror ebx, cl
    ('d3d3', ['of']),                     # rcl ebx, cl
    ('d3db', ['of']),                     # rcr ebx, cl
]:
    mr, mw = check(hx, need_r=need)
    if mr: bad.append((hx, mr))

# concrete witness with the project's own evaluator: shl ebx, cl with cl == 0
m = emul_helper.x86_machine()
m.pool[ecx] = ExprInt(uint32(0)); m.pool[ebx] = ExprInt(uint32(5))
emul_helper.emul_lines(m, [x86mnemo.dis(b'\xd3\xe3')])
print("shl ebx,cl with ecx=0, ebx=5: model zf = %s   (IA-32: zf = init_zf, unchanged)" % m.pool[zf])
assert not bad, "flags preserved by a zero count are missing from the read set: %s" % bad
assert m.pool[zf] == init_zf
