# Defect 3: ExprAff.get_r() ignores the destination.  When the destination is a
# memory operand, the registers that form its address decide WHICH location the
# processor modifies, but they are not reported as read (even with
# mem_read=True, which does report the address registers of memory *sources*).
import sys, os; sys.path.insert(0, os.path.dirname(os.path.abspath(__file__)))
from rwlib import *
bad = []
for hx, need in [
    ('8903',       ['ebx']),         # mov [ebx], eax
    ('c7048b01000000', ['ebx', 'ecx']),  # mov dword [ebx+ecx*4], 1
    ('0f97c0',     []),              # seta al (control: register dst)
    ('0f9703',     ['ebx']),         # seta byte [ebx]
    ('aa',         []),              # stosb: edi happens to be read by the edi update
    ('d913',       ['ebx']),         # fst dword [ebx]
    ('0f1103',     ['ebx']),         # movups [ebx], xmm0  (MMX op reads its own dst -> ok)
]:
    # strict = exactly what the public API reports: union of ExprAff.get_r(mem_read=True)
    mr, mw = check(hx, need_r=need, lenient=False)
    if mr: bad.append((hx, mr))
# the same API does report address registers for memory sources:
mr, _ = check('8b03', need_r=['ebx'], lenient=False)      # mov eax, [ebx]
assert not mr
assert not bad, "address registers of a memory destination are not in get_r(mem_read=True): %s" % bad
