# Defect 6: direct far call (9A ptr16:32) is lifted as a NEAR call: the selector
# operand is dropped.  CS is not written, only one stack slot is written (the CPU
# pushes CS and EIP: [esp-4] and [esp-8], esp -= 8) and the old CS is not read.
import sys, os; sys.path.insert(0, os.path.dirname(os.path.abspath(__file__)))
from rwlib import *
op, ex = lift('9a112233445566')           # call 0x6655:0x44332211
assert len(op.arg) == 2                   # the disassembler did decode offset AND selector
mr, mw = check('9a112233445566', need_r=['esp', 'cs'], need_w=['esp', 'eip', 'cs'])
R, W = rw(ex)
slots = [w for w in W if w.startswith('@')]
print("        stack slots written: %s (IA-32: two, [esp-4]=cs and [esp-8]=eip)" % slots)
# control: far jmp / far ret do handle cs
assert check('ea112233445566', need_w=['cs', 'eip']) == ([], [])
assert check('cb', need_w=['cs', 'eip', 'esp']) == ([], [])
assert not mr and not mw and len(slots) >= 2, \
    "far call: missing reads %s, missing writes %s, stack slots %s" % (mr, mw, slots)
