# Defect 8: the SSE/x87 state save/restore instructions are mapped to nop():
#   stmxcsr m32 / fxsave m512 / xsave / xsaveopt  WRITE their memory operand,
#   ldmxcsr m32 / fxrstor m512 / xrstor            READ it (fxrstor also overwrites
#   every x87 and XMM register of the model).
# Read and write sets are completely empty.
import sys, os; sys.path.insert(0, os.path.dirname(os.path.abspath(__file__)))
from rwlib import *
bad = []
for hx, name, kind in [('0fae1b', 'stmxcsr [ebx]', 'w'),
                       ('0fae03', 'fxsave [ebx]',  'w'),
                       ('0fae23', 'xsave [ebx]',   'w'),
                       ('0fae33', 'xsaveopt [ebx]','w'),
                       ('0fae13', 'ldmxcsr [ebx]', 'r'),
                       ('0fae0b', 'fxrstor [ebx]', 'r'),
                       ('0fae2b', 'xrstor [ebx]',  'r')]:
    op, ex = lift(hx)
    R, W = rw(ex)
    print("%-8s %-28s R=%s W=%s" % (hx, op, sorted(R), sorted(W)))
    mem_w = [w for w in W if '[ebx]' in w]
    mem_r = [r for r in R if '[ebx]' in r]
    if kind == 'w' and not (mem_w and 'ebx' in R): bad.append((name, 'memory operand not written'))
    if kind == 'r' and not (mem_r and 'ebx' in R): bad.append((name, 'memory operand not read'))
    if name.startswith('fxrstor') and not ('xmm0' in W and 'float_st0' in W):
        bad.append((name, 'xmm0..7 / float_st0..7 not written'))
assert not bad, "state save/restore instructions lifted as nop: %s" % bad
