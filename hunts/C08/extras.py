# Further omissions found during the hunt (one line each, see report.md "Additional findings").
# Exits non-zero if any of them is still present.
import sys, os; sys.path.insert(0, os.path.dirname(os.path.abspath(__file__)))
from rwlib import *
C = ['float_c0', 'float_c1', 'float_c2', 'float_c3']
cases = [
 ('ficom dword [ebx]',      'da13',     ['float_st0', 'ds:@32[ebx]'], C),
 ('fldenv [ebx]',           'd923',     [], C + ['float_stack_ptr', 'reg_float_eip', 'reg_float_cs']),
 ('fninit',                 'dbe3',     [], C + ['float_stack_ptr', 'reg_float_control']),
 ('fnstenv [ebx]',          'd933',     [], ['reg_float_control', '@16[(ebx+0x8)]']),
 ('fprem',                  'd9f8',     [], C),
 ('fxam',                   'd9e5',     [], C),
 ('fdecstp',                'd9f6',     [], ['float_stack_ptr']),
 ('fsincos',                'd9fb',     [], ['float_stack_ptr']),
 ('enter 16, 3',            'c8100003', ['@32[(ebp - 0x4)]'], ['@32[(esp - 0x8)]']),
 ('rdrand ebx',             '0fc7f3',   [], ['cf', 'zf', 'of', 'nf', 'pf', 'af']),
 ('cpuid',                  '0fa2',     ['eax', 'ecx'], []),
 ('into',                   'ce',       ['of'], []),
 ('lds ecx, [ebx] (m16:32)','c50b',     ['@16[(ebx+0x4)]'], []),
 ('bsf ecx, ebx (src==0 keeps dst)', '0fbccb', ['ecx'], []),
 ('arpl bx, cx',            '63cb',     ['ebx', 'ecx'], ['ebx', 'zf']),
 ('insb',                   '6c',       ['edx', 'edi', 'df'], ['edi']),
 ('outsb',                  '6e',       ['edx', 'esi', 'df'], ['esi']),
 ('pcmpestri xmm1,xmm3,17', '660f3a61cb11', ['eax', 'edx'], ['ecx', 'zf', 'cf']),
 ('pcmpistrm xmm1,xmm3,17', '660f3a62cb11', [], ['xmm0', 'zf', 'cf']),
 ('ptest xmm1, xmm3',       '660f3817cb', [], ['zf', 'cf']),
 ('maskmovq mm1, mm3',      '0ff7cb',   ['edi'], []),
 ('blendvps xmm1, xmm3',    '660f3814cb', ['xmm0'], []),
]
n = 0
for name, hx, nr, nw in cases:
    print("--- " + name)
    mr, mw = check(hx, nr, nw)
    if mr or mw: n += 1
print("%d / %d additional omissions present" % (n, len(cases)))
sys.exit(1 if n else 0)
