# Defect 2: REP/REPE/REPNE prefixed string instructions are accepted by the
# disassembler and lifted by get_instr_expr(), but the lifted semantics is that
# of ONE un-prefixed iteration: ECX (the repeat count, which decides whether
# anything happens at all and which is decremented to 0) is neither in the read
# set nor in the write set.  For repe/repne cmps/scas with ECX==0 the flags are
# left unchanged, so they are (conditionally) read as well.
import sys, os; sys.path.insert(0, os.path.dirname(os.path.abspath(__file__)))
from rwlib import *
bad = []
for hx in ['f3a4',   # rep movsb
           'f3a5',   # rep movsd
           'f3ab',   # rep stosd
           'f3ac',   # rep lodsb
           'f3a6',   # repe cmpsb
           'f2ae',   # repne scasb
           ]:
    op, ex = lift(hx)
    assert 0xf3 in op.prefix or 0xf2 in op.prefix
    mr, mw = check(hx, need_r=['ecx'], need_w=['ecx'])
    if mr or mw: bad.append((hx, str(op), mr, mw))
assert not bad, "ecx missing from read/write set of rep-prefixed instructions: %s" % bad
