# the 'admode' decoding attribute is ignored (it is overwritten with 'opmode'), so the
# length -- and therefore the fall-through address -- of every instruction with a memory
# operand is computed for the wrong address size.
import miasmx
assert miasmx.__file__.startswith('/tmp/wth_C17/'), miasmx.__file__
from miasmx.arch.ia32_arch import x86_mn, u16, u32
code = b'\xff\x26\x34\x12\x90\x90\x90'
# reference: the same instruction with 16-bit addressing selected through the 67 prefix
r = x86_mn.dis(b'\x67' + code)
print(r, r.l)                       # jmp DWORD PTR [0x1234], l = 5 (prefix + 4)
assert r.l == 5
i = x86_mn.dis(code, {'opmode': u32, 'admode': u16})
print(i, 'l=%d next=%d attrib=%r' % (i.l, i.getnextflow(), i.get_attrib()))
assert i.admode == u16, "admode attribute ignored: %r" % i.admode
assert i.l == 4 and i.getnextflow() == 4, "fall-through %d, expected 4 (ff 26 disp16)" % i.getnextflow()
