# Sibling of the known 9A/getdstflow item (same "len(self.arg) != 1" guard): setdstflow() raises for
# BOTH direct far forms (EA jmpf, 9A call) although dstflow() is True and, for EA, getdstflow() works.
import miasmx
assert miasmx.__file__.startswith('/tmp/wth_C17/'), miasmx.__file__
from miasmx.arch.ia32_arch import x86_mn
class L(object):
    name = 'loc_1'
i = x86_mn.dis(b'\xea\x01\x02\x03\x04\x05\x06')
print(i, i.dstflow(), i.getdstflow())
i.setdstflow([L()])        # ValueError: should be 1 arg
