# far indirect call (FF /3, 'callf') is a call for breakflow/splitflow/dstflow but not for is_subcall()
import miasmx
assert miasmx.__file__.startswith('/tmp/wth_C17/'), miasmx.__file__
from miasmx.arch.ia32_arch import x86_mn
near_ind = x86_mn.dis(b'\xff\x10')                       # call DWORD PTR [eax]
far_dir  = x86_mn.dis(b'\x9a\x01\x02\x03\x04\x05\x06')   # call 0x605:0x4030201 (mnemonic name 'call')
far_ind  = x86_mn.dis(b'\xff\x18')                       # callf [eax]
for i in (near_ind, far_dir, far_ind):
    print(i, (i.breakflow(), i.splitflow(), i.dstflow()), 'is_subcall=%r' % i.is_subcall())
    assert i.breakflow() and i.splitflow() and i.dstflow()
assert near_ind.is_subcall() and far_dir.is_subcall()
assert far_ind.is_subcall(), "callf (FF /3) has call metadata (fall-through + destination) but is_subcall() is False"
