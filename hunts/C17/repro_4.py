# get_attrib() of a decoded instruction returns the sizes *after* its own 66/67 prefixes were
# applied, not the decoding mode it was given.  Feeding it to the decoding of the fall-through
# successor (the natural use of get_attrib/attrib) decodes the successor in the wrong mode:
# wrong length, wrong fall-through, wrong branch destination.
import miasmx
assert miasmx.__file__.startswith('/tmp/wth_C17/'), miasmx.__file__
from miasmx.arch.ia32_arch import x86_mn, u16, u32
from miasmx.core.bin_stream import bin_stream
code = b'\x66\x40' + b'\xe8\x10\x00\x00\x00' + b'\x90\x90'      # inc ax ; call +0x10 ; nop ; nop
bs = bin_stream(code, 0)
mode = {'opmode': u32, 'admode': u32}
i = x86_mn.dis(bs, mode)
print(i, i.get_attrib())
assert i.getnextflow() == 2
j = x86_mn.dis(bs, i.get_attrib())           # successor, decoded with the attributes of its predecessor
print(j, 'l=%d next=%#x dst=%r' % (j.l, j.getnextflow(), j.getdstflow()))
assert i.get_attrib() == mode, "get_attrib() changed by the instruction's own prefix: %r" % i.get_attrib()
assert j.l == 5 and j.getnextflow() == 7 and int(j.getdstflow()[0]) == 0x17
