# FF /3 and FF /5 with a register operand (mod=3) are #UD on every IA-32 processor (a far pointer
# cannot live in a register).  They are decoded as 'callf eax' / 'jmpf eax', and the call form is
# reported with a fall-through successor.
import miasmx
assert miasmx.__file__.startswith('/tmp/wth_C17/'), miasmx.__file__
from miasmx.arch.ia32_arch import x86_mn
for b in (b'\xff\xd8', b'\xff\xe8'):
    i = x86_mn.dis(b)
    print(b.hex(), i, i and (i.breakflow(), i.splitflow(), i.dstflow()))
for b in (b'\xff\xd8', b'\xff\xe8'):
    i = x86_mn.dis(b)
    # acceptable: rejected by the decoder, or classified like ud2 (block end, no successor, no destination)
    assert i is None or (i.breakflow() and not i.splitflow() and not i.dstflow()), \
        "%s decodes as %s with flow %r" % (b.hex(), i, (i.breakflow(), i.splitflow(), i.dstflow()))
