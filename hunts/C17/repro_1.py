# rsm (0F AA, return from system-management mode) is not reported as block-ending
import miasmx, logging
assert miasmx.__file__.startswith('/tmp/wth_C17/'), miasmx.__file__
from miasmx.arch.ia32_arch import x86_mn
i = x86_mn.dis(b'\x0f\xaa')
print(i, 'breakflow=%r splitflow=%r dstflow=%r' % (i.breakflow(), i.splitflow(), i.dstflow()))
# reference: iret (CF), the other "return from handler" instruction
j = x86_mn.dis(b'\xcf')
assert j.breakflow() and not j.splitflow()
# RSM never continues at offset+2: it reloads EIP (and the whole CPU state) from the SMRAM save area
assert i.breakflow() and not i.splitflow(), "rsm reported as falling through to the next instruction"
