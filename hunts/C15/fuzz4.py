import random, sys, collections, traceback
from gen import *
fails = collections.OrderedDict()
def fail(tag, *info):
    if tag not in fails:
        fails[tag] = info
        print('FAIL', tag, *[str(i)[:300] for i in info]); sys.stdout.flush()
N = int(sys.argv[1])
for seed in range(N):
    r = random.Random(seed)
    sz = r.choice(SIZES); base = gen(r, sz, 3)
    ns = nodes(base)
    # choose leaves to turn into jokers
    cands = [n for n in ns if n.get_size() in T]
    picks = r.sample(cands, min(len(cands), r.choice([1,2])))
    jok = {}
    for i, p in enumerate(picks):
        if any(skey(p) == skey(q) for q in jok): continue
        # skip overlapping
        jok[p] = ExprId('J%d'%i, p.get_size())
    ks = list(jok)
    if any(i!=j and any(skey(n)==skey(ks[j]) for n in nodes(ks[i])) for i in range(len(ks)) for j in range(len(ks))): continue
    m = base.replace_expr(jok)
    tks = [j for j in jok.values() if j in m]
    if not tks: continue
    try:
        res = MatchExpr(base, m, tks)
        if res is False or res is None:
            fail('match-miss:'+type(base).__name__, seed, base, m, tks, res); continue
        if res is True: fail('match-true', base, m); continue
        back = m.replace_expr(res)
        if back != base: fail('match-roundtrip', base, m, res, back)
    except Exception as ex:
        fail('exc:'+type(ex).__name__+':'+str(ex)[:60], seed, base, m, traceback.format_exc())
print('done', len(fails))
