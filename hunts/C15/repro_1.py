# Defect 1: ExprId.__eq__ ignores is_term -> equal expressions with different values;
# replace_expr of an identifier by its "terminal" twin is silently dropped.
import miasmx; assert miasmx.__file__.startswith('/tmp/wth_C15/'), miasmx.__file__
from miasmx.expression.expression import ExprId, ExprInt32
from miasmx.expression.expression_eval_abstract import eval_abs

def value(e):
    m = eval_abs({ExprId('a'): ExprInt32(5)})          # valuation a := 5
    return str(m.eval_expr(e, {}))

e1 = ExprId('a') + ExprInt32(1)
e2 = ExprId('a', is_term=True) + ExprInt32(1)
print('e1 == e2      :', e1 == e2, ' hash equal:', hash(e1) == hash(e2))
print('value(e1)     :', value(e1))     # 0x6
print('value(e2)     :', value(e2))     # (a+0x1)

# substitution a -> a(is_term) is lost: the visitor thinks nothing changed (uses ==)
a, at = ExprId('a'), ExprId('a', is_term=True)
src = ExprId('a') + ExprInt32(1)
res = src.replace_expr({a: at})
print('replace_expr kept the original node:', res is src, ' is_term of operand:', res.args[0].is_term)

v1 = value(ExprId('a') + ExprInt32(1)); v2 = value(ExprId('a', is_term=True) + ExprInt32(1))
assert not (e1 == e2) or v1 == v2, "equal expressions have different values: %s vs %s" % (v1, v2)
assert res.args[0].is_term, "replace_expr({a: a_term}) did not substitute"
