import random, sys
import miasmx
assert miasmx.__file__.startswith('/tmp/wth_C15/'), miasmx.__file__
from miasmx.expression.expression import *
from miasmx.tools.modint import uint1, uint8, uint16, uint32, uint64
T = {1:uint1, 8:uint8, 16:uint16, 32:uint32, 64:uint64}
SIZES = [8,16,32,64]
IDS = {1:['zf','cf'], 8:['al','bl'], 16:['ax','bx','ds','fs'], 32:['eax','ebx','ecx'], 64:['rax','rbx']}

def gen(r, size, depth, allow1=True):
    """well typed expression of `size` bits"""
    if depth <= 0 or r.random() < 0.15:
        if r.random() < 0.4:
            return ExprInt(T[size](r.choice([0,1,2,0x7f,0x80,0xff,0xffff,0x12345678, r.getrandbits(64)])))
        return ExprId(r.choice(IDS[size]), size, is_reg=r.random()<0.3)
    k = r.choice(['op','op','op','mem','slice','compose','cond','un'])
    if size == 1:
        k = r.choice(['slice','cond','op1'])
    if k == 'op':
        op = r.choice(['+','*','^','&','|','-','<<','>>','a>>','<<<','>>>'])
        if op in ['+','*','^','&','|']:
            n = r.choice([2,2,3,4])
            return ExprOp(op, *[gen(r,size,depth-1) for _ in range(n)])
        return ExprOp(op, gen(r,size,depth-1), gen(r,size,depth-1))
    if k == 'op1':
        op = r.choice(['^','&','|'])
        return ExprOp(op, gen(r,1,depth-1), gen(r,1,depth-1))
    if k == 'un':
        return ExprOp(r.choice(['-','!']), gen(r,size,depth-1))
    if k == 'mem':
        segm = None
        if r.random() < 0.5:
            segm = gen(r,16,min(depth-1,1))
        return ExprMem(gen(r,32,depth-1), size, segm)
    if k == 'slice':
        big = r.choice([s for s in SIZES if s >= size])
        if big == size: big = SIZES[min(SIZES.index(size)+1,3)] if size!=64 and size != 1 else (64 if size==64 else 8)
        if big == size:
            return ExprSlice(gen(r,big,depth-1), 0, size)
        start = r.randrange(0, big-size+1)
        return ExprSlice(gen(r,big,depth-1), start, start+size)
    if k == 'compose':
        if size == 8:
            return ExprCompose([(gen(r,1,depth-1),0,1),(ExprSlice(gen(r,8,depth-1),1,8),1,8)])
        h = size//2
        parts = [(gen(r,h,depth-1),0,h),(gen(r,h,depth-1),h,size)]
        if r.random()<0.3: parts.reverse()
        return ExprCompose(parts)
    if k == 'cond':
        cs = r.choice([1,8,32]) if True else 32
        return ExprCond(gen(r,cs,depth-1), gen(r,size,depth-1), gen(r,size,depth-1))
    raise ValueError(k)

def gen_aff(r, depth):
    size = r.choice(SIZES)
    k = r.choice(['id','mem','slice'])
    if k == 'id':
        dst = ExprId(r.choice(IDS[size]), size)
    elif k == 'mem':
        dst = ExprMem(gen(r,32,depth-1), size, gen(r,16,0) if r.random()<0.5 else None)
    else:
        big = r.choice([s for s in [16,32,64] if s > size] or [64])
        if big <= size:
            size = 32
        base = ExprId(r.choice(IDS[big]), big) if r.random()<0.6 else ExprMem(gen(r,32,depth-1), big)
        start = r.choice([0, big-size, r.randrange(0,big-size+1)])
        dst = ExprSlice(base, start, start+size)
    return ExprAff(dst, gen(r,size,depth))

def nodes(e, acc=None):
    """all Expr nodes (objects) reachable"""
    if acc is None: acc = []
    acc.append(e)
    if isinstance(e, ExprAff):
        nodes(e.dst, acc); nodes(e.src, acc)
    elif isinstance(e, ExprCond):
        nodes(e.cond, acc); nodes(e.src1, acc); nodes(e.src2, acc)
    elif isinstance(e, ExprMem):
        nodes(e.arg, acc)
        if isinstance(e.segm, Expr): nodes(e.segm, acc)
    elif isinstance(e, ExprOp):
        for a in e.args: nodes(a, acc)
    elif isinstance(e, ExprSlice):
        nodes(e.arg, acc)
    elif isinstance(e, ExprCompose):
        for a in e.args: nodes(a[0], acc)
    return acc

def skey(e):
    """my own structural key (reference for equality)"""
    if isinstance(e, ExprInt): return ('int', e.arg.size, int(e.arg))
    if isinstance(e, ExprId): return ('id', e.name, e.size, e.is_reg, e.is_term)
    if isinstance(e, ExprAff): return ('aff', skey(e.dst), skey(e.src))
    if isinstance(e, ExprCond): return ('cond', skey(e.cond), skey(e.src1), skey(e.src2))
    if isinstance(e, ExprMem): return ('mem', skey(e.arg), e.size, skey(e.segm) if e.segm is not None else None)
    if isinstance(e, ExprOp): return ('op', e.op) + tuple(skey(a) for a in e.args)
    if isinstance(e, ExprSlice): return ('slice', skey(e.arg), e.start, e.stop)
    if isinstance(e, ExprCompose): return ('compose',) + tuple((skey(a[0]), a[1], a[2]) for a in e.args)
    raise ValueError(e)

class Env:
    def __init__(self, seed):
        self.seed = seed
    def idval(self, name, size):
        return random.Random('%s/%s/%s'%(self.seed, name, size)).getrandbits(size) if not name.startswith('=') else 0
    def byte(self, segv, addr):
        return random.Random('%s/m/%s/%s'%(self.seed, segv, addr & 0xffffffff)).getrandbits(8)

def M(s): return (1<<s)-1
def ref(e, env):
    """reference denotation: int of e.get_size() bits"""
    if isinstance(e, ExprInt): return int(e.arg)
    if isinstance(e, ExprId): return env.idval(e.name, e.size)
    if isinstance(e, ExprCond):
        return ref(e.src1, env) if ref(e.cond, env) != 0 else ref(e.src2, env)
    if isinstance(e, ExprMem):
        a = ref(e.arg, env)
        sv = ref(e.segm, env) if e.segm is not None else None
        v = 0
        for i in range(e.size//8):
            v |= env.byte(sv, a+i) << (8*i)
        return v
    if isinstance(e, ExprSlice):
        return (ref(e.arg, env) >> e.start) & M(e.stop-e.start)
    if isinstance(e, ExprCompose):
        v = 0
        for a, s, t in e.args:
            v |= (ref(a, env) & M(t-s)) << s
        return v
    if isinstance(e, ExprOp):
        s = e.args[0].get_size()
        a = [ref(x, env) for x in e.args]
        op = e.op
        if op == '+': return sum(a) & M(s)
        if op == '*':
            v = 1
            for x in a: v *= x
            return v & M(s)
        if op == '^':
            v = 0
            for x in a: v ^= x
            return v
        if op == '&':
            v = M(s)
            for x in a: v &= x
            return v
        if op == '|':
            v = 0
            for x in a: v |= x
            return v
        if op == '-':
            if len(a) == 1: return (-a[0]) & M(s)
            return (a[0]-a[1]) & M(s)
        if op == '!': return a[0] ^ M(s)
        if op == '<<': return (a[0] << a[1]) & M(s) if a[1] < s else 0
        if op == '>>': return (a[0] >> a[1]) if a[1] < s else 0
        if op == 'a>>':
            v = a[0] - (1<<s) if a[0]>>(s-1) else a[0]
            return (v >> min(a[1], s)) & M(s)
        if op == '<<<':
            r = (a[1] & 0x1f) % s
            return ((a[0] << r) | (a[0] >> (s-r))) & M(s)
        if op == '>>>':
            r = (a[1] & 0x1f) % s
            return ((a[0] >> r) | (a[0] << (s-r))) & M(s)
    raise ValueError(str(e))
