import random, sys, collections, traceback
from gen import *
fails = collections.OrderedDict()
def fail(tag, *info):
    if tag not in fails:
        fails[tag] = info
        print('FAIL', tag, *[str(i)[:400] for i in info]); sys.stdout.flush()

def ref_subst(e, dct, env):
    """value of e with simultaneous substitution, outermost match first"""
    for k, v in dct:
        if skey(k) == skey(e):
            return ref(v, env)
    # rebuild a shallow node with children replaced by constants
    def C(x):
        val = ref_subst(x, dct, env)
        s = x.get_size()
        if s in T: return ExprInt(T[s](val))
        # odd width: embed
        big = min(t for t in T if t >= s)
        return ExprSlice(ExprInt(T[big](val)), 0, s)
    if isinstance(e, (ExprInt, ExprId)): return ref(e, env)
    if isinstance(e, ExprCond): n = ExprCond(C(e.cond), C(e.src1), C(e.src2))
    elif isinstance(e, ExprMem): n = ExprMem(C(e.arg), e.size, C(e.segm) if e.segm is not None else None)
    elif isinstance(e, ExprOp): n = ExprOp(e.op, *[C(a) for a in e.args])
    elif isinstance(e, ExprSlice): n = ExprSlice(C(e.arg), e.start, e.stop)
    elif isinstance(e, ExprCompose): n = ExprCompose([(C(a[0]), a[1], a[2]) for a in e.args])
    return ref(n, env)

def overlapping(keys):
    for i, k in enumerate(keys):
        for j, k2 in enumerate(keys):
            if i != j and any(skey(n) == skey(k2) for n in nodes(k)):
                return True
    return False

N = int(sys.argv[1]) if len(sys.argv)>1 else 3000
mode = sys.argv[2] if len(sys.argv)>2 else 'disjoint'
for seed in range(N):
    r = random.Random(seed)
    sz = r.choice(SIZES); e = gen(r, sz, 4)
    ns = [n for n in nodes(e)]
    nk = r.choice([1,1,2,3])
    keys = []
    for _ in range(nk):
        k = r.choice(ns)
        if any(skey(k) == skey(x) for x in keys): continue
        keys.append(k)
    if mode == 'disjoint' and overlapping(keys): continue
    dct = []
    fresh = 0
    for k in keys:
        s = k.get_size()
        if s in T and r.random() < 0.6:
            v = gen(r, s, 2)
        elif s in T:
            fresh += 1
            v = ExprId('new%d'%fresh, s)
        else:
            big = min(t for t in T if t >= s)
            v = ExprSlice(gen(r, big, 1), 0, s)
        dct.append((k, v))
    if mode == 'disjoint':
        # avoid chained matches: no replacement result may create a key; approximate by checking
        # that no key occurs inside any value
        bad = False
        for k, _ in dct:
            for _, v in dct:
                if any(skey(n) == skey(k) for n in nodes(v)): bad = True
        if bad: continue
    try:
        d = dict(dct)
        if len(d) != len(dct): fail('dict-collapse', dct)
        res = e.replace_expr(d)
        if res.get_size() != e.get_size(): fail('subst-size', e, dct, res)
        for es in range(3):
            env = Env(es)
            want = ref_subst(e, dct, env)
            got = ref(res, env)
            if want != got:
                fail('subst-value-'+mode, seed, e, [(str(k), str(v)) for k, v in dct], res); break
        # empty map / identity map
        if e.replace_expr({}) != e: fail('subst-empty', e)
        idm = dict((k, k) for k, _ in dct)
        if e.replace_expr(idm) != e: fail('subst-idmap', e)
        # original untouched
    except Exception as ex:
        fail('exc:'+type(ex).__name__+':'+str(ex)[:60], seed, e, traceback.format_exc())
print('done', len(fails))
