# Defect 7: set_expr identifies expressions by str(): different expressions (constants of
# different widths, identifiers of different sizes) are one element.
import miasmx; assert miasmx.__file__.startswith('/tmp/wth_C15/'), miasmx.__file__
from miasmx.expression.expression import ExprId, ExprInt8, ExprInt32, ExprMem, set_expr
s = set_expr([ExprInt8(1)])
print('ExprInt8(1) == ExprInt32(1):', ExprInt8(1) == ExprInt32(1))
print('ExprInt32(1) in set_expr([ExprInt8(1)]):', ExprInt32(1) in s)
s.add(ExprInt32(1)); s.add(ExprId('a', 8)); s.add(ExprId('a', 32)); s.add(ExprId('@32[a]')); s.add(ExprMem(ExprId('a', 8), 32))
print('elements:', len(list(s)), ' python set:', len(set([ExprInt8(1), ExprInt32(1), ExprId('a', 8), ExprId('a', 32), ExprId('@32[a]'), ExprMem(ExprId('a', 8), 32)])))
assert not (ExprInt32(1) in set_expr([ExprInt8(1)])), "membership by str(): widths confused"
assert len(list(s)) == 6
