# Defect 8: equality / hash / copy / visit are plain recursions without identity shortcut:
# (a) RecursionError on deep (well typed) expressions, (b) exponential time on shared
# sub-expressions (e == e walks the whole unfolded tree).
import miasmx; assert miasmx.__file__.startswith('/tmp/wth_C15/'), miasmx.__file__
import time
from miasmx.expression.expression import ExprId, ExprOp
e = ExprId('a')
for i in range(1200):            # default recursion limit is 1000
    e = ExprOp('-', e)
errs = []
for name, f in [('==', lambda: e == e), ('hash', lambda: hash(e)), ('copy', lambda: e.copy()), ('visit', lambda: e.visit(lambda x: x))]:
    try: f()
    except RecursionError: errs.append(name)
print('RecursionError in:', errs)
d = ExprId('a')
for i in range(20):              # 21 distinct nodes, 2**20 paths
    d = ExprOp('+', d, d)
t = time.time(); r = (d == d); dt = time.time() - t
print('d == d on a 21-node DAG took %.2fs' % dt)
assert not errs, "structural operations fail on a depth-1200 expression: %s" % errs
assert dt < 0.05
