import random, sys
from gen import *
def shuffle(e, r):
    def cb(x):
        if isinstance(x, ExprOp) and x.op in op_assoc:
            a = list(x.args); r.shuffle(a); return ExprOp(x.op, *a)
        if isinstance(x, ExprCompose):
            a = list(x.args); r.shuffle(a); return ExprCompose(a)
        return x
    return e.visit(cb)
bad = 0
for seed in range(int(sys.argv[1])):
    r = random.Random(seed); sz = r.choice(SIZES); e = gen(r, sz, 4)
    s = shuffle(e, r)
    c1, c2 = e.canonize(), s.canonize()
    if c1 != c2 or hash(c1) != hash(c2) or str(c1) != str(c2):
        bad += 1
        if bad < 4: print('NONCANON', seed, e, '|', s, '|', c1, '|', c2)
    for es in range(2):
        if ref(s, Env(es)) != ref(e, Env(es)): print('shuffle changes value?!', e)
print('bad', bad)
