# Defect 3: ExprMem.copy() (and every rebuild of an ExprMem by visit) drops the
# is_term mark, so the deep copy of a value returned by the evaluator has another value.
import miasmx; assert miasmx.__file__.startswith('/tmp/wth_C15/'), miasmx.__file__
from miasmx.expression.expression import ExprId, ExprInt32, ExprMem
from miasmx.expression.expression_eval_abstract import eval_abs

r = eval_abs({}).eval_expr(ExprMem(ExprId('eax'), 32), {})    # unknown cell: a terminal value
print('r =', r, ' is_term =', r.is_term)
c = r.copy()
print('c =', c, ' is_term =', c.is_term, ' c == r:', c == r)
# ExprId.copy() keeps the mark (so copy is meant to keep it):
print('ExprId copy keeps is_term:', ExprId('i', is_term=True).copy().is_term)

m2 = eval_abs({ExprMem(ExprId('eax'), 32): ExprInt32(0x11223344)})
vr, vc = str(m2.eval_expr(r, {})), str(m2.eval_expr(c, {}))
print('value(r) =', vr, ' value(copy) =', vc)
assert c.is_term == r.is_term, "copy lost is_term"
assert vr == vc, "copy has a different value"
