import random, sys, collections, traceback
from gen import *
from miasmx.expression.expression_eval_abstract import eval_abs
from miasmx.expression.expression_helper import expr_simp
fails = collections.OrderedDict()
def fail(tag, *info):
    if tag not in fails:
        fails[tag] = info
        print('FAIL', tag, *[str(i)[:400] for i in info]); sys.stdout.flush()
def mk(seed):
    r = random.Random(seed); sz = r.choice(SIZES); return gen(r, sz, 3)
def machine(env):
    vals = {}
    for s, names in IDS.items():
        for n in names:
            for reg in (False, True):
                vals[ExprId(n, s, is_reg=reg)] = ExprInt(T[s](env.idval(n, s)))
    def fr(m, a):
        addr = int(a.arg.arg); v = 0
        for i in range(a.size//8): v |= env.byte(None, addr+i) << (8*i)
        return ExprInt(T[a.size](v))
    return eval_abs(vals, func_read=fr)
def ev(e, env):
    try:
        x = expr_simp(machine(env).eval_expr(e, {}))
        return str(x)
    except Exception as ex:
        return 'EXC %s %s'%(type(ex).__name__, str(ex)[:50])
N = int(sys.argv[1])
cnt = collections.Counter()
for seed in range(N):
    env = Env(seed % 3)
    a = ev(mk(seed), env)
    b = ev(mk(seed).copy(), env)
    c = ev(mk(seed).canonize(), env)
    d = ev(mk(seed).visit(lambda x: x), env)
    if a != b: fail('copy-evalue', seed, mk(seed), a, b)
    if a != c: fail('canon-evalue' + (' exc' if 'EXC' in a+c else ''), seed, mk(seed), mk(seed).canonize(), a, c)
    if a != d: fail('visit-evalue', seed, mk(seed), a, d)
    cnt[a[:3]=='EXC'] += 1
print('done', len(fails), cnt)
