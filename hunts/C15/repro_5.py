# Defect 5: MatchExpr (inverse of replace_expr) fails as soon as an ExprCond / ExprCompose
# sub-match succeeds before any joker has been bound: the (still empty) result dict is
# tested with "if not r".
import miasmx; assert miasmx.__file__.startswith('/tmp/wth_C15/'), miasmx.__file__
from miasmx.expression.expression import ExprId, ExprInt32, ExprCond, ExprCompose, MatchExpr
x, y, z, J = ExprId('x'), ExprId('y'), ExprId('z'), ExprId('J')
x8, y8, J8 = ExprId('x8', 8), ExprId('y8', 8), ExprId('J8', 8)

pat = ExprCond(x + y, J, z)                     # joker only in the second branch
e = pat.replace_expr({J: ExprInt32(3)})
r1 = MatchExpr(e, pat, [J])
print('cond   :', r1, ' expected {J: 0x3}')
pat2 = ExprCompose([(ExprCompose([(x8, 0, 8), (y8, 8, 16)]), 0, 16), (ExprCompose([(J8, 0, 8), (y8, 8, 16)]), 16, 32)])
e2 = pat2.replace_expr({J8: x8})
r2 = MatchExpr(e2, pat2, [J8])
print('compose:', r2, ' expected {J8: x8}')
# same patterns match when the joker comes first:
print('joker first:', MatchExpr(ExprCond(ExprInt32(3), x + y, z), ExprCond(J, x + y, z), [J]))
assert r1 is not False and pat.replace_expr(r1) == e
assert r2 is not False and pat2.replace_expr(r2) == e2
