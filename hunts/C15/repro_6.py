# Defect 6: the segment selector of an ExprMem is a sub-expression for visit/replace_expr/
# get_r/get_expr_ids/equality/hash, but not for __contains__ nor for MatchExpr.
import miasmx; assert miasmx.__file__.startswith('/tmp/wth_C15/'), miasmx.__file__
from miasmx.expression.expression import ExprId, ExprMem, ExprInt16, get_expr_ids, MatchExpr
eax, fs, J = ExprId('eax'), ExprId('fs', 16), ExprId('J', 16)
m = ExprMem(eax, 32, fs)
print('fs in get_expr_ids(m):', fs in get_expr_ids(m), ' fs in m.get_r(True):', fs in m.get_r(True))
print('m.replace_expr({fs: J}) =', m.replace_expr({fs: J}))
print('fs in m:', fs in m, ' (expected True)')
pat = ExprMem(eax, 32, J)
r = MatchExpr(m, pat, [J])
print('MatchExpr(fs:@32[eax], J:@32[eax], [J]) =', r, ' (expected {J: fs})')
assert fs in m, "__contains__ ignores the segment selector"
assert r is not False and pat.replace_expr(r) == m, "MatchExpr cannot bind a joker in the segment selector"
