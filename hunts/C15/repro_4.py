# Defect 4: evaluation state (is_eval) is stored on the shared IR nodes; evaluating an
# expression marks the *input* node, after which it no longer has the value of the
# expressions equal to it (nor of its own deep copy).
import miasmx; assert miasmx.__file__.startswith('/tmp/wth_C15/'), miasmx.__file__
from miasmx.expression.expression import ExprId, ExprInt32
from miasmx.expression.expression_eval_abstract import eval_abs

b = ExprId('b')
eval_abs({}).eval_expr(b, {})                 # b unknown -> returns b itself, marked is_eval
print('b.is_eval after a first evaluation:', b.is_eval)
m = eval_abs({ExprId('b'): ExprInt32(7)})     # valuation b := 7
v_orig, v_equal, v_copy = [str(m.eval_expr(e, {})) for e in (b, ExprId('b'), b.copy())]
print('value(b) =', v_orig, '  value(ExprId("b")) =', v_equal, '  value(b.copy()) =', v_copy)
assert b == ExprId('b') and b == b.copy()
assert v_orig == v_equal == v_copy, "equal expressions / deep copy evaluate differently"
