# Defect 2: replace_expr is not a (simultaneous) substitution when keys overlap:
# keys are looked up in the ALREADY REWRITTEN tree (bottom-up, visit_chk applies
# the callback to the rebuilt node).
import miasmx; assert miasmx.__file__.startswith('/tmp/wth_C15/'), miasmx.__file__
from miasmx.expression.expression import ExprId, ExprInt32, ExprOp
a, b, c, x = [ExprId(n) for n in 'abcx']

# (i) chained rewrite: the mapped value of one key, once put in place, forms another key
e = ExprOp('*', ExprOp('+', a, x), ExprOp('+', b, x))        # (a+x)*(b+x)
dct = {a: b, ExprOp('+', b, x): c}                           # both keys are sub-expressions of e
res = e.replace_expr(dct)
print('e   =', e)
print('res =', res, '   expected ((b+x)*c)')
expected = ExprOp('*', ExprOp('+', b, x), c)
ok1 = (res == expected)

# (ii) a key that contains another key is never applied
e2 = ExprOp('+', a, x)
res2 = e2.replace_expr({a: b, ExprOp('+', a, x): c})
print('res2 =', res2, '   expected c (the whole expression is mapped)')
ok2 = (res2 == c)

# value level, valuation a=1 b=2 c=100 x=10: original-with-values-exchanged = (2+10)*100 = 1200
from miasmx.expression.expression_eval_abstract import eval_abs
val = {ExprId('a'): ExprInt32(1), ExprId('b'): ExprInt32(2), ExprId('c'): ExprInt32(100), ExprId('x'): ExprInt32(10)}
got = eval_abs(val).eval_expr(e.replace_expr(dct), {})
print('value of result:', got, ' expected 0x4B0')
assert ok1, "chained rewrite: got %s" % res
assert ok2, "outer key ignored: got %s" % res2
