import random, sys, collections, traceback
from gen import *
fails = collections.OrderedDict()
def fail(tag, *info):
    if tag not in fails:
        fails[tag] = info
        print('FAIL', tag, *[str(i)[:300] for i in info]); sys.stdout.flush()
    
N = int(sys.argv[1]) if len(sys.argv)>1 else 3000
for seed in range(N):
    r = random.Random(seed)
    try:
        if seed % 4 == 0:
            e = gen_aff(r, 3); e2 = gen_aff(random.Random(seed), 3)
        else:
            sz = r.choice(SIZES); e = gen(r, sz, 4)
            r2 = random.Random(seed); r2.choice(SIZES); e2 = gen(r2, sz, 4)
    except Exception as ex:
        fail('gen:'+type(ex).__name__+str(ex)[:40], seed, traceback.format_exc()); continue
    try:
        # equality/hash
        if not (e == e): fail('refl', e)
        if not (e == e2 and e2 == e): fail('eq-rebuilt', e)
        if e != e2: fail('ne-rebuilt', e)
        if hash(e) != hash(e2): fail('hash-rebuilt', e)
        # copy
        c = e.copy()
        if not (c == e and e == c): fail('copy-eq', e, c)
        if skey(c) != skey(e): fail('copy-skey', e, c)
        if hash(c) != hash(e): fail('copy-hash', e)
        ids_e = set(id(n) for n in nodes(e)); 
        sh = [n for n in nodes(c) if id(n) in ids_e]
        if sh: fail('copy-shares', e, sh[0])
        if type(c) is not type(e): fail('copy-type', e)
        # visit identity
        v = e.visit(lambda x: x)
        if not (v == e) or skey(v) != skey(e): fail('visit-id', e, v)
        # visit with rebuilding callback (copy leaf) should be equal too
        v = e.visit(lambda x: x.copy() if isinstance(x, (ExprId, ExprInt)) else x)
        if not (v == e) or skey(v) != skey(e): fail('visit-leafcopy', e, v)
        # canonize
        if not isinstance(e, ExprAff):
            cz = e.canonize()
            for es in range(3):
                env = Env(es)
                if ref(cz, env) != ref(e, env): fail('canon-value', e, cz)
            if cz.get_size() != e.get_size(): fail('canon-size', e, cz)
            cz2 = cz.canonize()
            if cz2 != cz: fail('canon-idem', e, cz, cz2)
        else:
            cz = e.canonize()
            for es in range(3):
                env = Env(es)
                if ref(cz.src, env) != ref(e.src, env): fail('canon-value-aff', e, cz)
            if cz.dst != e.dst: fail('canon-aff-dst', e, cz)
    except Exception as ex:
        fail('exc:'+type(ex).__name__+':'+str(ex)[:60], seed, e, traceback.format_exc())
print('done', len(fails))
