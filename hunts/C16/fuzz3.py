import sys
src=open('fuzz2.py').read()
pre, post = src.split("tks = [w for l in WILD")
exec(pre)
def test_set(e, v, tks, result):
    if not v in tks: return e == v
    if v in result and result[v] != e: return False
    result[v] = e
    return result
def MatchExpr(e, m, tks, result=None):
    if result is None: result = {}
    if m in tks: return test_set(e, m, tks, result)
    if isinstance(e, (ExprInt,ExprId)): return test_set(e, m, tks, result)
    elif isinstance(e, ExprOp):
        if not isinstance(m, ExprOp): return False
        if e.op != m.op or len(e.args) != len(m.args): return False
        for a1, a2 in zip(e.args, m.args):
            if MatchExpr(a1, a2, tks, result) is False: return False
        return result
    elif isinstance(e, ExprMem):
        if not isinstance(m, ExprMem): return False
        if e.size != m.size: return False
        if isinstance(e.segm, Expr) and isinstance(m.segm, Expr):
            if MatchExpr(e.segm, m.segm, tks, result) is False: return False
        elif e.segm != m.segm: return False
        return MatchExpr(e.arg, m.arg, tks, result)
    elif isinstance(e, ExprSlice):
        if not isinstance(m, ExprSlice): return False
        if e.start != m.start or e.stop != m.stop: return False
        return MatchExpr(e.arg, m.arg, tks, result)
    elif isinstance(e, ExprCond):
        if not isinstance(m, ExprCond): return False
        for a,b in ((e.cond,m.cond),(e.src1,m.src1),(e.src2,m.src2)):
            if MatchExpr(a,b,tks,result) is False: return False
        return result
    elif isinstance(e, ExprCompose):
        if not isinstance(m, ExprCompose): return False
        if len(e.args) != len(m.args): return False
        for a1, a2 in zip(e.args, m.args):
            if a1[1] != a2[1] or a1[2] != a2[2]: return False
            if MatchExpr(a1[0], a2[0], tks, result) is False: return False
        return result
exec("tks = [w for l in WILD"+post)
