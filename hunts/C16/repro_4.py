# Defect 4: a wildcard-free leaf match returns the bool True instead of the binding dict
import miasmx
assert miasmx.__file__.startswith('/tmp/wth_C16/'), miasmx.__file__
from miasmx.expression.expression import *
x, y, a = ExprId('x'), ExprId('y'), ExprId('a')

r_op = MatchExpr(x + y, x + y, [a])          # {}   (a dict)
r_leaf = MatchExpr(x, x, [a])                # True (not a dict)
r_mem = MatchExpr(ExprMem(x), ExprMem(x), [a])   # True as well (propagated)
print(repr(r_op), repr(r_leaf), repr(r_mem))
assert isinstance(r_op, dict)
assert isinstance(r_leaf, dict) and isinstance(r_mem, dict), \
    "successful match does not return bindings: %r %r" % (r_leaf, r_mem)
# what a caller following the docstring would do:
assert x.replace_expr(r_leaf) == x
