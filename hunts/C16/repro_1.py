# Defect 1: a successful sub-match with no bindings yet ({}) is taken for a failure
# in the ExprCond and ExprCompose branches of MatchExpr.
import miasmx
assert miasmx.__file__.startswith('/tmp/wth_C16/'), miasmx.__file__
from miasmx.expression.expression import *
x, y, z = ExprId('x'), ExprId('y'), ExprId('z')
a, b = ExprId('a'), ExprId('b')

# control: same pattern shape, wildcard-free part is a leaf -> works
assert MatchExpr(ExprCond(x, y, z), ExprCond(x, a, b), [a, b]) == {a: y, b: z}

# ExprCond: wildcard-free compound condition precedes the wildcards
pat = ExprCond(x + y, a, b)
e = pat.replace_expr({a: y, b: z})
r = MatchExpr(e, pat, [a, b])
print('cond   :', r)
ok1 = (r == {a: y, b: z}) and r is not False

# ExprCompose: wildcard-free compound first piece
x8, y8, a8 = ExprId('x8', 8), ExprId('y8', 8), ExprId('a8', 8)
pat2 = ExprCompose([(x8 ^ y8, 0, 8), (a8, 8, 16)])
e2 = pat2.replace_expr({a8: y8})
r2 = MatchExpr(e2, pat2, [a8])
print('compose:', r2)
ok2 = (r2 == {a8: y8}) and r2 is not False

# wildcard-free ExprCond pattern matched against itself
p3 = ExprCond(x + y, y, z)
r3 = MatchExpr(p3, p3, [a])
print('self   :', r3)
ok3 = r3 is not False

assert ok1 and ok2 and ok3, "MatchExpr rejects instances of the pattern: %r %r %r" % (r, r2, r3)
