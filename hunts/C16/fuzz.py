import random, sys
from miasmx.expression.expression import *
random.seed(int(sys.argv[1]) if len(sys.argv)>1 else 0)
IDS = {32:[ExprId(n,32) for n in 'xyzw']+[ExprId('eax',32,is_reg=True)], 8:[ExprId(n,8) for n in ('p','q')]+[ExprId('x',8)], 16:[ExprId('ds',16),ExprId('es',16),ExprId('x',16)], 1:[ExprId('zf',1),ExprId('cf',1)]}
WILD = {32:[ExprId(n,32) for n in 'abc'], 8:[ExprId(n,8) for n in ('a8','b8')], 16:[ExprId('a16',16)], 1:[ExprId('a1',1)]}
def gen(size, d, wild=False):
    r = random.random()
    if d<=0 or r<0.25:
        c = random.random()
        if wild and c<0.5: return random.choice(WILD[size])
        if c<0.75: return random.choice(IDS[size])
        return ExprInt(tab_uintsize[size](random.getrandbits(size)))
    k = random.choice(['op','op1','mem','memseg','cond','slice','compose'])
    if k=='op':
        op = random.choice(['+','*','^','&','|','-','>>','<<'])
        n = 2 if op in ('>>','<<','-') else random.choice([2,2,3])
        if op=='-': n=1
        return ExprOp(op, *[gen(size,d-1,wild) for _ in range(n)])
    if k=='op1': return ExprOp(random.choice(['-','!','parity']), gen(size,d-1,wild))
    if k=='mem' and size!=1: return ExprMem(gen(32,d-1,wild), size)
    if k=='memseg' and size!=1: return ExprMem(gen(32,d-1,wild), size, gen(16,0,wild))
    if k=='cond': return ExprCond(gen(random.choice([1,32]),d-1,wild), gen(size,d-1,wild), gen(size,d-1,wild))
    if k=='slice' and size<32:
        big = 32
        st = random.randrange(0,big-size+1)
        return ExprSlice(gen(big,d-1,wild), st, st+size)
    if k=='compose' and size in (16,32):
        if size==32:
            parts = random.choice([[8,8,16],[16,16],[16,8,8],[8,8,8,8]])
        else: parts=[8,8]
        args=[];p=0
        for s in parts:
            args.append((gen(s,d-1,wild),p,p+s)); p+=s
        return ExprCompose(args)
    return gen(size,d-1,wild)

def ref_r(e, mem_read, out):
    if isinstance(e, ExprInt): return
    if isinstance(e, ExprId): out.add(e); return
    if isinstance(e, ExprMem):
        out.add(e)
        if mem_read:
            ref_r(e.arg, mem_read, out)
            if e.segm is not None: ref_r(e.segm, mem_read, out)
        return
    if isinstance(e, ExprOp):
        for a in e.args: ref_r(a, mem_read, out); return_ = None
        return
    if isinstance(e, ExprCond):
        for a in (e.cond,e.src1,e.src2): ref_r(a,mem_read,out)
        return
    if isinstance(e, ExprSlice): ref_r(e.arg,mem_read,out); return
    if isinstance(e, ExprCompose):
        for a in e.args: ref_r(a[0],mem_read,out)
        return
    raise Exception(e)

def skey(s): return sorted(str(x)+':%d'%x.get_size() for x in s)
bad = {}
def rec(kind, msg):
    if kind not in bad:
        bad[kind]=msg; print('FAIL', kind, msg)
N=int(sys.argv[2]) if len(sys.argv)>2 else 3000
for it in range(N):
    size = random.choice([8,16,32,32,32,1])
    e = gen(size, 3)
    for mr in (False, True):
        try:
            got = e.get_r(mr)
        except Exception as ex:
            rec('get_r exc %s'%type(ex).__name__, str(e)); continue
        exp=set(); ref_r(e,mr,exp)
        if skey(got)!=skey(exp) or got!=exp:
            rec('get_r mismatch mr=%s'%mr, '%s got %s exp %s'%(e, skey(got), skey(exp)))
    # assignment
    dk = random.choice(['id','mem','memseg','slice','slicemem'])
    if dk=='id': dst = random.choice(IDS[size]); named=dst
    elif dk=='mem' and size!=1: dst = ExprMem(gen(32,2),size); named=dst
    elif dk=='memseg' and size!=1: dst = ExprMem(gen(32,2),size,gen(16,0)); named=dst
    elif dk=='slice' and size<32:
        base=random.choice(IDS[32]); st=random.randrange(0,32-size+1); dst=ExprSlice(base,st,st+size); named=base
    elif dk=='slicemem' and size<32:
        base=ExprMem(gen(32,1),32); st=random.randrange(0,32-size+1); dst=ExprSlice(base,st,st+size); named=base
    else: dst = random.choice(IDS[size]); named=dst
    try:
        af = ExprAff(dst, e)
        w = af.get_w()
        if w != set([named]): rec('get_w', '%s got %s'%(af, skey(w)))
        for mr in (False,True):
            got = af.get_r(mr)
            exp=set(); ref_r(e,mr,exp)
            if isinstance(dst, ExprSlice) and not (dst.start==0 and dst.stop==32):
                ref_r(named, mr, exp)
            if isinstance(named, ExprMem) and mr:
                ref_r(named.arg, mr, exp)
                if named.segm is not None: ref_r(named.segm, mr, exp)
            if skey(got)!=skey(exp):
                rec('aff get_r mr=%s dk=%s'%(mr,dk), '%s got %s exp %s'%(af, skey(got), skey(exp)))
    except Exception as ex:
        rec('aff exc %s %s'%(dk,type(ex).__name__), '%s = %s : %s'%(dst,e,ex))
    # matching
    pat = gen(size, 3, wild=True)
    tks = [w for l in WILD.values() for w in l]
    used = [w for w in tks if w in pat]
    binding = dict((w, gen(w.size, 2)) for w in used)
    inst = pat.replace_expr(binding)
    try:
        r = MatchExpr(inst, pat, tks)
    except Exception as ex:
        rec('match exc %s'%type(ex).__name__, '%s ~ %s'%(inst,pat)); continue
    if r is False:
        rec('match false-negative', 'e=%s pat=%s binding=%s'%(inst, pat, dict((str(k),str(v)) for k,v in binding.items())))
    elif r is True:
        if used: rec('match True with wildcards', '%s ~ %s'%(inst,pat))
        else: rec('match returns True not dict', '%s ~ %s'%(inst,pat))
    else:
        if r != binding: rec('match wrong binding', '%s ~ %s: %s vs %s'%(inst,pat,r,binding))
        if not r and not used: rec('match returns {} (falsy)', '%s ~ %s'%(inst,pat))
    # non-instance: mutate inst at random leaf
    def mutate(e):
        # returns mutated copy differing at one leaf position not under wildcard... simple: random other expr
        return gen(size,3)
    other = gen(size,3)
    try:
        r2 = MatchExpr(other, pat, tks)
    except Exception as ex:
        rec('match2 exc %s'%type(ex).__name__, '%s ~ %s'%(other,pat)); continue
    if r2 is not False:
        b = r2 if isinstance(r2, dict) else {}
        back = pat.replace_expr(b)
        if back != other:
            rec('match false-positive', 'e=%s pat=%s r=%s'%(other,pat,r2))
print(len(bad),'kinds')
