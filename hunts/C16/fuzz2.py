import random, sys
exec(open('fuzz.py').read().split("def ref_r")[0])
def ref_match(e, m, tks, res):
    if m in tks:
        if m in res: return res[m]==e
        res[m]=e; return True
    if type(e)!=type(m): return False
    if isinstance(e,(ExprInt,ExprId)): return e==m
    if isinstance(e,ExprOp):
        return e.op==m.op and len(e.args)==len(m.args) and all(ref_match(a,b,tks,res) for a,b in zip(e.args,m.args))
    if isinstance(e,ExprMem):
        if e.size!=m.size: return False
        if (e.segm is None)!=(m.segm is None): return False
        if e.segm is not None and not ref_match(e.segm,m.segm,tks,res): return False
        return ref_match(e.arg,m.arg,tks,res)
    if isinstance(e,ExprSlice):
        return e.start==m.start and e.stop==m.stop and ref_match(e.arg,m.arg,tks,res)
    if isinstance(e,ExprCond):
        return all(ref_match(a,b,tks,res) for a,b in ((e.cond,m.cond),(e.src1,m.src1),(e.src2,m.src2)))
    if isinstance(e,ExprCompose):
        return len(e.args)==len(m.args) and all(a[1:]==b[1:] and ref_match(a[0],b[0],tks,res) for a,b in zip(e.args,m.args))
    raise Exception
def has_segm_wild(m,tks):
    found=[False]
    def cb(x):
        if isinstance(x,ExprMem) and x.segm is not None and get_expr_ids(x.segm)&set(tks): found[0]=True
        return x
    m.visit(cb); return found[0]
def has_cond_or_compose(m):
    found=[False]
    def cb(x):
        if isinstance(x,(ExprCond,ExprCompose)): found[0]=True
        return x
    m.visit(cb); return found[0]
def mutate(e):
    # change one random node
    nodes=[]
    e.visit(lambda x:(nodes.append(x),x)[1])
    t=random.choice(nodes)
    rep=gen(t.get_size() if t.get_size() in (1,8,16,32) else 32, 1)
    done=[False]
    def cb(x):
        if x is t and not done[0]:
            done[0]=True; return rep
        return x
    return e.visit(cb)
tks = [w for l in WILD.values() for w in l]
N=int(sys.argv[2]); cnt={}
for it in range(N):
    size=random.choice([1,8,16,32,32])
    pat=gen(size,3,True)
    used=get_expr_ids(pat)&set(tks)
    binding=dict((w,gen(w.size,2)) for w in used)
    inst=pat.replace_expr(binding)
    for e in (inst, mutate(inst), mutate(mutate(inst))):
        res={}
        exp=ref_match(e,pat,tks,res)
        try: got=MatchExpr(e,pat,tks)
        except Exception as ex: got='EXC'
        gotb = got is not False
        if exp!=gotb:
            k=('FN' if exp else 'FP', has_segm_wild(pat,tks), has_cond_or_compose(pat))
            cnt[k]=cnt.get(k,0)+1
            if k[0]=='FP' or (not k[1] and not k[2]): print(k,e,'~',pat,got)
        elif exp and isinstance(got,dict) and got!=res:
            print('BINDDIFF',e,pat,got,res)
print(cnt)
