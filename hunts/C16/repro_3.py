# Defect 3: MatchExpr has no branch for ExprAff (nor any other class): NameError 'fds'
import miasmx
assert miasmx.__file__.startswith('/tmp/wth_C16/'), miasmx.__file__
from miasmx.expression.expression import *
x, y = ExprId('x'), ExprId('y')
a, b = ExprId('a'), ExprId('b')
pat = ExprAff(a, b + ExprInt32(1))
e = pat.replace_expr({a: x, b: y})           # x = (y+0x1)
try:
    r = MatchExpr(e, pat, [a, b])
except NameError as ex:
    raise AssertionError("MatchExpr on an assignment raises NameError: %s" % ex)
assert r == {a: x, b: y}, r
