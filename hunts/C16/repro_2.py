# Defect 2: wildcards in the segment selector of an ExprMem pattern are never matched
import miasmx
assert miasmx.__file__.startswith('/tmp/wth_C16/'), miasmx.__file__
from miasmx.expression.expression import *
x = ExprId('x'); ds = ExprId('ds', 16)
a = ExprId('a'); s = ExprId('s', 16)

pat = ExprMem(a, 32, s)                      # s:@32[a]
binding = {a: x, s: ds}
e = pat.replace_expr(binding)                # ds:@32[x]
assert e == ExprMem(x, 32, ds)
r = MatchExpr(e, pat, [a, s])
print(r)
assert r is not False and r == binding, "expected %r, got %r" % (binding, r)
