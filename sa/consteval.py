"""E2: whitelist constant evaluation of table-building code (pure AST walking;
never imports or calls repository code).

Evaluates literals, names bound to evaluable values, attribute reads on
namespace objects built from `self.x = ...` constructors, + % << arithmetic,
subscripts, comparisons, list/dict comprehensions, a few pure builtins and list
methods, and unrolls `for` loops over evaluable iterables.  Anything else raises
NotConst.
"""
import ast

from .core import AnalysisError


class NotConst(Exception):
    pass


class Obj(object):
    """Namespace object (instance whose attributes are set by evaluated code)."""

    def __init__(self, name='obj'):
        self.__dict__['_name'] = name
        self.__dict__['_attrs'] = {}

    def __getattr__(self, k):
        try:
            return self.__dict__['_attrs'][k]
        except KeyError:
            raise NotConst('%s.%s unknown' % (self.__dict__['_name'], k))

    def __setattr__(self, k, v):
        self.__dict__['_attrs'][k] = v

    def __repr__(self):
        return '<Obj %s>' % self.__dict__['_name']


def class_obj(mod, cname, name='cls'):
    """An object standing for the class `cname` of a source module (or an instance of it): its methods are callable from evaluated code
    (`self.helper(..)`); helpers wrapped by `name = staticmethod(name)` in the class body are called unbound."""
    import ast as _ast
    o = Obj(name)
    o.__dict__['_methods'] = dict(mod.methods(cname))
    static = set()
    for st in mod.cls(cname).body:
        if isinstance(st, _ast.Assign) and len(st.targets) == 1 and isinstance(st.targets[0], _ast.Name) and isinstance(st.value, _ast.Call) \
                and isinstance(st.value.func, _ast.Name) and st.value.func.id == 'staticmethod':
            static.add(st.targets[0].id)
        if isinstance(st, _ast.FunctionDef) and any(isinstance(d, _ast.Name) and d.id == 'staticmethod' for d in st.decorator_list):
            static.add(st.name)
    o.__dict__['_static'] = static
    # class-level constants (`dict_size = {..}`, a tuple of operator names ...) are attributes of every instance
    for st in mod.cls(cname).body:
        if isinstance(st, _ast.Assign) and len(st.targets) == 1 and isinstance(st.targets[0], _ast.Name) and st.targets[0].id not in static \
                and isinstance(st.value, (_ast.Dict, _ast.List, _ast.Tuple, _ast.Set, _ast.Constant)):
            try:
                setattr(o, st.targets[0].id, Evaluator({}).ev(st.value))
            except NotConst:
                pass
    # an instance starts with the containers its constructor creates empty (`self.x = {}` as a statement of __init__ itself): memo tables, registries
    init = o.__dict__['_methods'].get('__init__')
    if init is not None and init.args.args:
        sname = init.args.args[0].arg
        for st in init.body:
            if isinstance(st, _ast.Assign) and len(st.targets) == 1 and isinstance(st.targets[0], _ast.Attribute) and isinstance(st.targets[0].value, _ast.Name) \
                    and st.targets[0].value.id == sname:
                v = st.value
                if isinstance(v, _ast.Dict) and not v.keys:
                    setattr(o, st.targets[0].attr, {})
                elif isinstance(v, _ast.List) and not v.elts:
                    setattr(o, st.targets[0].attr, [])
                elif isinstance(v, _ast.Call) and isinstance(v.func, _ast.Name) and v.func.id in ('dict', 'list', 'set') and not v.args and not v.keywords:
                    setattr(o, st.targets[0].attr, {'dict': dict, 'list': list, 'set': set}[v.func.id]())
    return o


def re_model():
    """The pure functions of `re` on strings: a match is an object with groups() / group(i) / start() / end() / span()."""
    import re as _re
    mod = Obj('re')

    def wrap(m):
        if m is None:
            return None
        o = Obj('match')
        o.groups = Native(lambda *a: m.groups(*a))
        o.group = Native(lambda *a: m.group(*a))
        o.start = Native(lambda *a: m.start(*a))
        o.end = Native(lambda *a: m.end(*a))
        o.span = Native(lambda *a: m.span(*a))
        o.groupdict = Native(lambda: dict(m.groupdict()))
        return o

    def strs(*a):
        if not all(isinstance(x, (str, int)) for x in a):
            raise NotConst('re on a non-string')
    for nm_ in ('match', 'search', 'fullmatch'):
        setattr(mod, nm_, Native(lambda pat, st_, flags=0, _f=getattr(_re, nm_): (strs(pat, st_), wrap(_f(pat, st_, flags)))[1]))
    mod.sub = Native(lambda pat, rep, st_, count=0: (strs(pat, rep, st_), _re.sub(pat, rep, st_, count))[1])
    mod.split = Native(lambda pat, st_, maxsplit=0: (strs(pat, st_), _re.split(pat, st_, maxsplit))[1])
    mod.findall = Native(lambda pat, st_: (strs(pat, st_), _re.findall(pat, st_))[1])
    mod.escape = Native(lambda st_: _re.escape(st_))
    mod.I = mod.IGNORECASE = _re.I
    return mod


class Native(object):
    """A checker-side function bound to a name of the analysed code (model of a constructor, isinstance, ...)."""

    def __init__(self, fn):
        self.fn = fn


class ModelValue(object):
    """Marker base of checker-side value classes (e.g. a model of the fixed-width integers): the evaluated code may call such a class as a
    constructor, reach it through `x.__class__`, and test `isinstance(x, cls)`."""


def _is_model_class(t):
    return isinstance(t, type) and (issubclass(t, Obj) or issubclass(t, ModelValue))


class ClassMethodVal(object):
    """`classmethod(f)` of the analysed code: called with the class of the receiver."""

    def __init__(self, fn):
        self.fn = fn


class Closure(object):
    """A nested function of the analysed code together with the scope of the call that defined it (python cells: read when the body runs)."""

    def __init__(self, fnode, cells):
        self.fnode, self.cells = fnode, cells


class _Chain(dict):
    """Local scope of a closure call: names it does not bind are read from the defining scope."""

    def __init__(self, parent):
        dict.__init__(self)
        self.parent = parent

    def __contains__(self, k):
        return dict.__contains__(self, k) or k in self.parent

    def __getitem__(self, k):
        if dict.__contains__(self, k):
            return dict.__getitem__(self, k)
        return self.parent[k]

    def get(self, k, d=None):
        if dict.__contains__(self, k):
            return dict.__getitem__(self, k)
        return self.parent.get(k, d)


class PyRaise(NotConst):
    """The evaluated code raises a Python exception (still 'not a constant' for callers that do not model exceptions)."""

    def __init__(self, msg, exc_name, exc=None):
        NotConst.__init__(self, msg)
        self.exc_name, self.exc = exc_name, exc


class _Return(Exception):
    def __init__(self, v):
        self.v = v


class _Break(Exception):
    pass


class _Continue(Exception):
    pass


BUILTIN_TYPES = {'list': list, 'dict': dict, 'tuple': tuple, 'str': str, 'int': int, 'set': set, 'bool': bool, 'float': float, 'slice': slice, 'object': object}


class Opaque(object):
    """A value we know nothing about except its origin (kept so that dict
    values such as function references can be carried around)."""

    def __init__(self, what, node=None):
        self.what, self.node = what, node

    def __repr__(self):
        return '<Opaque %s>' % self.what


PURE_BUILTINS = {
    'range': range, 'len': len, 'dict': dict, 'list': list, 'tuple': tuple, 'sorted': sorted, 'set': set,
    'int': int, 'str': str, 'min': min, 'max': max, 'zip': zip, 'enumerate': enumerate, 'map': None, 'filter': None,
    'all': all, 'any': any, 'divmod': divmod, 'bin': bin, 'frozenset': frozenset, 'bytearray': bytearray, 'bytes': bytes,
    'True': True, 'False': False, 'None': None, 'sum': sum, 'abs': abs, 'pow': pow, 'hex': hex, 'bool': bool, 'ord': ord, 'chr': chr, 'type': type, 'isinstance': isinstance,
}
SAFE_METHODS = {
    list: {'index', 'count', 'copy'}, tuple: {'index', 'count'},
    dict: {'keys', 'values', 'items', 'get', 'copy', '__contains__', '__getitem__'},
    str: {'startswith', 'endswith', 'lower', 'upper', 'join', 'split', 'format', 'strip', 'replace', 'index', 'count', 'find', 'ljust', 'rjust', 'center', 'zfill', 'lstrip', 'rstrip',
          'rfind', 'rsplit', 'partition', 'rpartition', 'isdigit', 'isalpha', 'isalnum', 'title', 'capitalize', 'splitlines', 'expandtabs'},
    set: {'union', 'copy', 'intersection', 'difference', 'issubset'}, slice: {'indices'},
}
MUTATORS = {list: {'append', 'extend', 'insert', 'reverse', 'sort', 'pop', 'remove'},
            dict: {'update', 'setdefault', 'pop', '__setitem__', '__delitem__', 'clear'}, set: {'add', 'update', 'discard'}}


class Evaluator(object):
    def __init__(self, env=None, opaque_names=False):
        self.env = env if env is not None else {}
        self.opaque_names = opaque_names

    # ---------------------------------------------------------- expressions
    def ev(self, n, local=None):
        loc = local or {}
        m = getattr(self, 'ev_' + type(n).__name__, None)
        if m is None:
            raise NotConst('expression kind %s' % type(n).__name__)
        return m(n, loc)

    def ev_Constant(self, n, loc):
        return n.value

    def ev_Name(self, n, loc):
        if n.id in loc:
            return loc[n.id]
        if n.id in self.env:
            return self.env[n.id]
        if n.id in ('True', 'False', 'None'):
            return PURE_BUILTINS[n.id]
        if n.id in BUILTIN_TYPES:
            return BUILTIN_TYPES[n.id]
        if self.opaque_names:
            return Opaque(n.id, n)
        raise NotConst('name %s' % n.id)

    def ev_Attribute(self, n, loc):
        v = self.ev(n.value, loc)
        if isinstance(v, Obj):
            if v.__dict__.get('_closed') and n.attr not in v.__dict__['_attrs']:
                # the object models a complete instance: an attribute it does not have is an AttributeError of the analysed code
                raise PyRaise('%s has no attribute %s' % (v.__dict__['_name'], n.attr), 'AttributeError')
            return getattr(v, n.attr)
        if isinstance(v, Opaque):
            return Opaque('%s.%s' % (v.what, n.attr), n)
        if isinstance(v, Native) and n.attr in getattr(v, 'attrs', {}):
            return v.attrs[n.attr]             # a modelled callable with data attributes (e.g. the `limit` of a modular integer type)
        if n.attr == '__class__' and isinstance(v, ModelValue):
            return type(v)
        if isinstance(v, type) and issubclass(v, Obj) and hasattr(v, '_class_attrs'):
            ca = v._class_attrs()
            if n.attr in ca:
                return ca[n.attr]
            if n.attr == '__name__':
                return v.__name__
            raise PyRaise('class %s has no attribute %s' % (v.__name__, n.attr), 'AttributeError')
        if isinstance(v, ModelValue) and n.attr in getattr(v, 'model_attrs', ()):
            return getattr(v, n.attr)
        if _is_model_class(v) and n.attr in getattr(v, 'model_attrs', ()):
            return getattr(v, n.attr)
        raise NotConst('attribute %s of %r' % (n.attr, type(v).__name__))

    def ev_List(self, n, loc):
        out = []
        for e in n.elts:
            if isinstance(e, ast.Starred):
                out.extend(self.ev(e.value, loc))
            else:
                out.append(self.ev(e, loc))
        return out

    def ev_Tuple(self, n, loc):
        return tuple(self.ev_List(n, loc))

    def ev_Set(self, n, loc):
        return set(self.ev_List(n, loc))

    def ev_Dict(self, n, loc):
        d = {}
        for k, v in zip(n.keys, n.values):
            if k is None:
                d.update(self.ev(v, loc))
            else:
                d[self._hashable(self.ev(k, loc))] = self.ev(v, loc)
        return d

    def _hashable(self, v):
        if isinstance(v, list):
            return tuple(v)
        if isinstance(v, Opaque):
            return v.what
        return v

    def ev_BinOp(self, n, loc):
        a, b = self.ev(n.left, loc), self.ev(n.right, loc)
        if isinstance(a, Opaque) or isinstance(b, Opaque):
            raise NotConst('arithmetic on opaque value')
        try:
            if isinstance(n.op, ast.Add):
                return a + b
            if isinstance(n.op, ast.Sub):
                return a - b
            if isinstance(n.op, ast.Mult):
                return a * b
            if isinstance(n.op, ast.Mod):
                return a % b
            if isinstance(n.op, ast.LShift):
                if isinstance(a, int) and isinstance(b, int) and not isinstance(b, bool) and b > 65536:
                    # the analysed code builds an integer of b bits: recorded (resource bound), and the shift is cut short -- every consumer reduces the result
                    if getattr(self, 'flags', None) is not None:
                        self.flags.add('lshift by %d' % b)
                    return a << 65536
                return a << b
            if isinstance(n.op, ast.RShift):
                return a >> b
            if isinstance(n.op, ast.BitOr):
                return a | b
            if isinstance(n.op, ast.BitAnd):
                return a & b
            if isinstance(n.op, ast.BitXor):
                return a ^ b
            if isinstance(n.op, ast.FloorDiv):
                return a // b
            if isinstance(n.op, ast.Div) and isinstance(a, int) and isinstance(b, int) and b != 0:
                return a // b if a % b == 0 else a / b
            if isinstance(n.op, ast.Pow) and isinstance(a, int) and isinstance(b, int) and 0 <= b < 256:
                return a ** b
            if isinstance(n.op, ast.Pow) and isinstance(a, int) and isinstance(b, int) and b >= 256 and getattr(self, 'flags', None) is not None:
                self.flags.add('exact power with exponent %d' % b)
                return pow(a, b, 1 << 4096)
        except NotConst:
            raise
        except Exception as e:
            raise PyRaise('binop failed: %r' % (e,), type(e).__name__, e)
        raise NotConst('operator %s' % type(n.op).__name__)

    def ev_UnaryOp(self, n, loc):
        v = self.ev(n.operand, loc)
        if isinstance(n.op, ast.Not):
            return not v
        if isinstance(n.op, ast.USub):
            return -v
        if isinstance(n.op, ast.Invert):
            return ~v
        raise NotConst('unary')

    def ev_BoolOp(self, n, loc):
        if isinstance(n.op, ast.And):
            v = True
            for e in n.values:
                v = self.ev(e, loc)
                if not v:
                    return v
            return v
        v = False
        for e in n.values:
            v = self.ev(e, loc)
            if v:
                return v
        return v

    def ev_Compare(self, n, loc):
        left = self.ev(n.left, loc)
        for op, c in zip(n.ops, n.comparators):
            right = self.ev(c, loc)
            if isinstance(left, Opaque) or isinstance(right, Opaque):
                raise NotConst('compare opaque')
            if isinstance(op, ast.Eq):
                r = left == right
            elif isinstance(op, ast.NotEq):
                r = left != right
            elif isinstance(op, ast.Lt):
                r = left < right
            elif isinstance(op, ast.LtE):
                r = left <= right
            elif isinstance(op, ast.Gt):
                r = left > right
            elif isinstance(op, ast.GtE):
                r = left >= right
            elif isinstance(op, ast.In):
                r = left in right
            elif isinstance(op, ast.NotIn):
                r = left not in right
            elif isinstance(op, ast.Is):
                r = left is right
            elif isinstance(op, ast.IsNot):
                r = left is not right
            else:
                raise NotConst('cmp')
            if not r:
                return False
            left = right
        return True

    def ev_IfExp(self, n, loc):
        return self.ev(n.body, loc) if self.ev(n.test, loc) else self.ev(n.orelse, loc)

    def ev_Subscript(self, n, loc):
        v = self.ev(n.value, loc)
        if isinstance(v, Opaque):
            raise NotConst('subscript of opaque')
        if isinstance(n.slice, ast.Slice):
            lo = self.ev(n.slice.lower, loc) if n.slice.lower else None
            hi = self.ev(n.slice.upper, loc) if n.slice.upper else None
            st = self.ev(n.slice.step, loc) if n.slice.step else None
            return v[lo:hi:st]
        k = self.ev(n.slice, loc)
        try:
            return v[self._hashable(k) if isinstance(v, dict) else k]
        except Exception as e:
            raise PyRaise('subscript failed: %r' % (e,), type(e).__name__, e)

    def ev_JoinedStr(self, n, loc):
        raise NotConst('f-string')

    def _comp(self, gens, loc, emit):
        def rec(i, l):
            if i == len(gens):
                emit(l)
                return
            g = gens[i]
            for item in self.ev(g.iter, l):
                l2 = dict(l)
                self.bind(g.target, item, l2)
                if all(self.ev(c, l2) for c in g.ifs):
                    rec(i + 1, l2)
        rec(0, dict(loc))

    def ev_ListComp(self, n, loc):
        out = []
        self._comp(n.generators, loc, lambda l: out.append(self.ev(n.elt, l)))
        return out

    def ev_GeneratorExp(self, n, loc):
        return self.ev_ListComp(n, loc)

    def ev_SetComp(self, n, loc):
        return set(self.ev_ListComp(n, loc))

    def ev_DictComp(self, n, loc):
        out = {}
        self._comp(n.generators, loc, lambda l: out.__setitem__(self._hashable(self.ev(n.key, l)), self.ev(n.value, l)))
        return out

    def ev_Lambda(self, n, loc):
        o = Opaque('lambda', n)
        o.closure = loc            # the defining scope itself (cells), not a snapshot
        return o

    def call_value(self, tgt, args, kw=None):
        """Call a function value of the analysed code: a def, a closure, a lambda, a checker-side stand-in or model class."""
        kw = kw or {}
        if isinstance(tgt, ClassMethodVal):
            if args and not isinstance(args[0], type):
                args = [type(args[0])] + list(args[1:])
            return self.call_value(tgt.fn, args, kw)
        if isinstance(tgt, Native):
            return tgt.fn(*args, **kw)
        if isinstance(tgt, ast.FunctionDef):
            return self.call_user(tgt, args, kw)
        if isinstance(tgt, Closure):
            return self.call_user(tgt.fnode, args, kw, outer=tgt.cells)
        if isinstance(tgt, Opaque) and isinstance(tgt.node, ast.Lambda) and not kw:
            lam = tgt.node
            params = [p.arg for p in lam.args.args]
            if len(params) != len(args) or lam.args.vararg or lam.args.kwarg:
                raise NotConst('lambda called with %d arguments' % len(args))
            outer = getattr(tgt, 'closure', None)
            l2 = _Chain(outer) if outer is not None else {}
            for p_, a_ in zip(params, args):
                l2[p_] = a_
            return self.ev(lam.body, l2)
        if _is_model_class(tgt):
            try:
                return tgt(*args, **kw)
            except NotConst:
                raise
            except Exception as e:
                raise PyRaise('constructor failed: %r' % (e,), type(e).__name__, e)
        raise NotConst('call of a %s value' % type(tgt).__name__)

    def ev_Call(self, n, loc):
        f = n.func
        args = []
        for a in n.args:
            if isinstance(a, ast.Starred):
                args.extend(list(self.ev(a.value, loc)))
            else:
                args.append(self.ev(a, loc))
        kw = dict((k.arg, self.ev(k.value, loc)) for k in n.keywords)
        if ((isinstance(f, ast.Name) and f.id == 'cmp_to_key' and f.id not in (loc or {}) and not isinstance(self.env.get(f.id), (ast.FunctionDef, Closure)))
                or (isinstance(f, ast.Attribute) and f.attr == 'cmp_to_key' and isinstance(f.value, ast.Name) and f.value.id == 'functools')) and len(args) == 1 and not kw:
            # functools.cmp_to_key(three-way comparison of the analysed code): the key objects compare by calling it
            import functools as _ft
            c_ = args[0]

            def _cmp(a_, b_, _c=c_):
                r_ = self.call_user(_c, [a_, b_]) if isinstance(_c, ast.FunctionDef) else self.call_value(_c, [a_, b_], {})
                if isinstance(r_, bool):
                    return int(r_)
                if isinstance(r_, int):
                    return r_
                try:
                    return -1 if r_ < 0 else (1 if r_ > 0 else 0)
                except NotConst:
                    raise
                except Exception as e:
                    raise PyRaise('comparison result %r is not ordered against 0: %r' % (r_, e), type(e).__name__, e)
            return _ft.cmp_to_key(_cmp)
        if isinstance(f, ast.Name) and f.id in PURE_BUILTINS and f.id not in loc and f.id not in self.env:
            fn = PURE_BUILTINS[f.id]
            if f.id == 'map' and len(args) == 2 and isinstance(args[0], Opaque) and isinstance(args[0].node, ast.Lambda):
                lam = args[0].node
                out = []
                for item in args[1]:
                    l2 = dict(loc)
                    l2[lam.args.args[0].arg] = item
                    out.append(self.ev(lam.body, l2))
                return out
            for k_, v_ in list(kw.items()):
                if isinstance(v_, ast.FunctionDef):
                    kw[k_] = (lambda *a, _f=v_: self.call_user(_f, list(a)))
                if isinstance(v_, Opaque) and isinstance(v_.node, ast.Lambda):
                    lam_, loc_ = v_.node, dict(loc)
                    kw[k_] = (lambda *a, _l=lam_, _c=loc_: self.ev(_l.body, dict(_c, **dict(zip([p.arg for p in _l.args.args], a)))))
            if fn is None or any(isinstance(a, Opaque) for a in args):
                raise NotConst('call %s' % f.id)
            try:
                r = fn(*args, **kw)
            except Exception as e:
                raise PyRaise('builtin %s failed: %r' % (f.id, e), type(e).__name__, e)
            if f.id in ('zip', 'enumerate', 'range'):
                r = list(r)
            return r
        if isinstance(f, ast.Name) and f.id == 'hasattr' and len(args) == 2 and isinstance(args[0], (int, str, float, tuple, ModelValue)) and isinstance(args[1], str) and f.id not in self.env:
            return hasattr(args[0], args[1]) if not isinstance(args[0], ModelValue) else args[1] in getattr(args[0], 'model_attrs', ())
        if isinstance(f, ast.Name) and f.id == 'getattr' and len(args) in (2, 3) and isinstance(args[0], (int, str, float, tuple, ModelValue)) and isinstance(args[1], str) and f.id not in self.env \
                and not isinstance(args[0], Obj):
            has_ = args[1] in getattr(args[0], 'model_attrs', ()) if isinstance(args[0], ModelValue) else (hasattr(args[0], args[1]) and not callable(getattr(args[0], args[1])))
            if has_:
                return getattr(args[0], args[1])
            if len(args) == 3:
                return args[2]
            raise PyRaise('getattr: no attribute %s' % args[1], 'AttributeError')
        if isinstance(f, ast.Name) and f.id in ('setattr', 'getattr', 'hasattr') and args and isinstance(args[0], Obj) and f.id not in self.env:
            o_ = args[0]
            if f.id == 'setattr' and len(args) == 3:
                setattr(o_, args[1], args[2])
                return None
            if f.id == 'hasattr' and len(args) == 2:
                return args[1] in o_.__dict__['_attrs'] or args[1] in o_.__dict__.get('_methods', {})
            if f.id == 'getattr' and len(args) in (2, 3):
                if args[1] in o_.__dict__['_attrs']:
                    return o_.__dict__['_attrs'][args[1]]
                if len(args) == 3:
                    return args[2]
                raise PyRaise('getattr: no attribute %s' % args[1], 'AttributeError')
        if isinstance(f, ast.Name):
            tgt = loc.get(f.id, self.env.get(f.id)) if loc is not None else self.env.get(f.id)
            if isinstance(tgt, Native):
                return tgt.fn(*args, **kw)
            if isinstance(tgt, ast.FunctionDef):
                return self.call_user(tgt, args, kw)
            if isinstance(tgt, Closure) or (isinstance(tgt, Opaque) and isinstance(tgt.node, ast.Lambda) and f.id not in PURE_BUILTINS):
                return self.call_value(tgt, args, kw)
            if _is_model_class(tgt):
                try:
                    return tgt(*args, **kw)            # a model class of the checker (usable with isinstance and as constructor)
                except NotConst:
                    raise
                except Exception as e:
                    raise PyRaise('constructor %s failed: %r' % (f.id, e), type(e).__name__, e)
        if isinstance(f, ast.Attribute):
            recv = self.ev(f.value, loc)
            if recv is dict and f.attr == 'fromkeys' and 1 <= len(args) <= 2 and not kw:
                return dict.fromkeys(list(args[0]), *args[1:])
            if isinstance(recv, Obj) and f.attr in recv.__dict__.get('_methods', {}):
                fn_ = recv.__dict__['_methods'][f.attr]
                if not isinstance(fn_, ast.FunctionDef):
                    return self.call_value(fn_, [recv] + args, kw)      # a wrapped method (name = decorator(name) in the class body)
                if f.attr in recv.__dict__.get('_static', ()):
                    return self.call_user(fn_, args, kw)           # name = staticmethod(name): not bound
                if recv.__dict__.get('_isclass') and f.attr not in recv.__dict__.get('_meta_methods', ()) \
                        and not any(isinstance(d, ast.Name) and d.id in ('classmethod', 'staticmethod') for d in fn_.decorator_list):
                    # Class.method(instance, ...): a plain function looked up on the class is not bound
                    return self.call_user(fn_, args, kw)
                return self.call_user(fn_, [recv] + args, kw)
            if isinstance(recv, Obj) and isinstance(recv.__dict__['_attrs'].get(f.attr), Native):
                return recv.__dict__['_attrs'][f.attr].fn(*args, **kw)
            if isinstance(recv, Obj) and recv.__dict__.get('_closed') and f.attr not in recv.__dict__['_attrs']:
                raise PyRaise('%s has no method %s' % (recv.__dict__['_name'], f.attr), 'AttributeError')
            for t, names in SAFE_METHODS.items():
                if isinstance(recv, t) and f.attr in names:
                    try:
                        r = getattr(recv, f.attr)(*args, **kw)
                    except Exception as e:
                        raise PyRaise('method %s failed: %r' % (f.attr, e), type(e).__name__, e)
                    if f.attr in ('keys', 'values', 'items'):
                        r = list(r)
                    return r
            if isinstance(recv, dict) and f.attr == 'popitem' and not args:
                try:
                    return recv.popitem()
                except KeyError as e:
                    raise PyRaise('popitem failed: %r' % (e,), 'KeyError', e)
            if isinstance(recv, dict) and f.attr == 'setdefault' and 1 <= len(args) <= 2:
                return recv.setdefault(self._hashable(args[0]), *args[1:])
            if isinstance(recv, (list, dict)) and f.attr == 'pop' or (isinstance(recv, set) and f.attr == 'pop' and len(recv) == 1):
                try:
                    return recv.pop(*args)
                except Exception as e:
                    raise PyRaise('pop failed: %r' % (e,), type(e).__name__, e)
            if (_is_model_class(recv) or isinstance(recv, ModelValue)) and f.attr in getattr(recv, 'model_methods', ()):
                try:
                    return getattr(recv, f.attr)(*args, **kw)       # a method the checker-side model of the class declares (modint's maxcast)
                except Exception as e:
                    raise PyRaise('method %s failed: %r' % (f.attr, e), type(e).__name__, e)
            if isinstance(recv, Opaque):
                return Opaque('%s.%s(...)' % (recv.what, f.attr), n)
        if not isinstance(f, (ast.Name, ast.Attribute)) or (isinstance(f, ast.Attribute) and f.attr == '__class__'):
            tgt_ = self.ev(f, loc)
            if isinstance(tgt_, Native):
                return tgt_.fn(*args, **kw)
            if isinstance(tgt_, ast.FunctionDef):
                return self.call_user(tgt_, args, kw)
            if _is_model_class(tgt_):
                try:
                    return tgt_(*args, **kw)
                except NotConst:
                    raise
                except Exception as e:
                    raise PyRaise('constructor failed: %r' % (e,), type(e).__name__, e)
        if self.opaque_names:
            return Opaque('call:%s' % ast.unparse(f), n)
        raise NotConst('call %s' % ast.unparse(f))

    def call_user(self, fnode, args, kw=None, outer=None):
        """Call a method of the analysed class (plain positional parameters, body in the evaluable subset)."""
        params = [a.arg for a in fnode.args.args]
        defaults = fnode.args.defaults
        n_required = len(params) - len(defaults)
        kw = dict(kw or {})
        if (len(args) > len(params) and not fnode.args.vararg) or fnode.args.kwarg or any(k not in params for k in kw):
            raise NotConst('call of %s with %d arguments' % (fnode.name, len(args)))
        scope = _Chain(outer) if outer is not None else {}
        bound = set()
        if fnode.args.vararg:
            scope[fnode.args.vararg.arg] = tuple(args[len(params):])
            args = args[:len(params)]
        for p_, a_ in zip(params, args):
            scope[p_] = a_
            bound.add(p_)
        for i, p_ in enumerate(params):
            if p_ in bound:
                continue
            if p_ in kw:
                scope[p_] = kw[p_]
            elif i >= n_required:
                scope[p_] = self.ev(defaults[i - n_required], None)
            else:
                raise NotConst('call of %s with %d arguments' % (fnode.name, len(args)))
        try:
            self.exec_stmts(fnode.body, scope)
        except _Return as r:
            return r.v
        return None

    # ----------------------------------------------------------- statements
    def bind(self, target, value, scope):
        if isinstance(target, ast.Name):
            scope[target.id] = value
        elif isinstance(target, (ast.Tuple, ast.List)):
            vals = list(value)
            if len(vals) != len(target.elts):
                raise NotConst('unpack')
            for t, v in zip(target.elts, vals):
                self.bind(t, v, scope)
        elif isinstance(target, ast.Attribute):
            o = self.ev(target.value, scope if scope is not self.env else None)
            if isinstance(o, Obj):
                setattr(o, target.attr, value)
            else:
                raise NotConst('attribute store')
        elif isinstance(target, ast.Subscript) and isinstance(target.slice, ast.Slice):
            loc_ = scope if scope is not self.env else None
            o = self.ev(target.value, loc_)
            if not isinstance(o, list):
                raise NotConst('slice store')
            lo = self.ev(target.slice.lower, loc_) if target.slice.lower else None
            hi = self.ev(target.slice.upper, loc_) if target.slice.upper else None
            if target.slice.step:
                raise NotConst('slice store with step')
            o[lo:hi] = list(value)
        elif isinstance(target, ast.Subscript):
            o = self.ev(target.value, scope if scope is not self.env else None)
            k = self.ev(target.slice, scope if scope is not self.env else None)
            if isinstance(o, dict):
                o[self._hashable(k)] = value
            elif isinstance(o, list):
                o[k] = value
            elif isinstance(o, Obj) and hasattr(type(o), '_methods_of') and '__setitem__' in type(o)._methods_of():
                self.call_value(type(o)._methods_of()['__setitem__'], [o, k, value])          # container class of the analysed code
            else:
                raise NotConst('subscript store')
        else:
            raise NotConst('target')

    def exec_stmts(self, stmts, scope, strict=True, on_skip=None):
        """Execute table-building statements.  In non-strict mode a statement
        that cannot be evaluated unbinds the names it would have bound."""
        for st in stmts:
            try:
                self.exec_stmt(st, scope)
            except NotConst as e:
                if strict:
                    raise
                for n in ast.walk(st):
                    if isinstance(n, ast.Name) and isinstance(n.ctx, ast.Store):
                        scope.pop(n.id, None)
                if on_skip:
                    on_skip(st, e)

    def exec_stmt(self, st, scope):
        loc = scope if scope is not self.env else None
        if isinstance(st, ast.Assign):
            v = self.ev(st.value, loc)
            for t in st.targets:
                self.bind(t, v, scope)
        elif isinstance(st, ast.AugAssign):
            cur = self.ev(ast.copy_location(_as_load(st.target), st.target), loc)
            v = self.ev(ast.BinOp(ast.Constant(cur), st.op, st.value), loc) if not isinstance(cur, (list, dict)) else None
            if v is None:
                rhs = self.ev(st.value, loc)
                if isinstance(st.op, ast.Add) and isinstance(cur, list):
                    cur.extend(rhs)
                    return
                raise NotConst('augassign')
            self.bind(st.target, v, scope)
        elif isinstance(st, ast.For):
            for item in self.ev(st.iter, loc):
                self.bind(st.target, item, scope)
                try:
                    self.exec_stmts(st.body, scope)
                except _Continue:
                    continue
                except _Break:
                    break
        elif isinstance(st, ast.While):
            n_iter = 0
            while self.ev(st.test, loc):
                n_iter += 1
                if n_iter > 100000:
                    raise NotConst('while loop does not terminate within the evaluation bound')
                try:
                    self.exec_stmts(st.body, scope)
                except _Continue:
                    continue
                except _Break:
                    break
        elif isinstance(st, ast.Assert):
            if not self.ev(st.test, loc):
                raise PyRaise('assertion failed', 'AssertionError')
        elif isinstance(st, ast.Delete):
            for t in st.targets:
                if isinstance(t, ast.Subscript) and not isinstance(t.slice, ast.Slice):
                    o = self.ev(t.value, loc)
                    k = self.ev(t.slice, loc)
                    if isinstance(o, Obj) and hasattr(type(o), '_methods_of') and '__delitem__' in type(o)._methods_of():
                        self.call_value(type(o)._methods_of()['__delitem__'], [o, k])
                        continue
                    if not isinstance(o, (list, dict)):
                        raise NotConst('del on %s' % type(o).__name__)
                    try:
                        del o[self._hashable(k) if isinstance(o, dict) else k]
                    except Exception as e:
                        raise PyRaise('del failed: %r' % (e,), type(e).__name__, e)
                elif isinstance(t, ast.Name) and t.id in scope:
                    del scope[t.id]
                else:
                    raise NotConst('del target')
        elif isinstance(st, ast.Break):
            raise _Break()
        elif isinstance(st, ast.Continue):
            raise _Continue()
        elif isinstance(st, ast.If):
            if self.ev(st.test, loc):
                self.exec_stmts(st.body, scope)
            else:
                self.exec_stmts(st.orelse, scope)
        elif isinstance(st, ast.Expr):
            if isinstance(st.value, ast.Constant):
                return
            if isinstance(st.value, ast.Name):
                self.ev(st.value, loc)       # a bare name statement: NameError if unbound ("belief" sites such as NEVER)
                return
            c = st.value
            if isinstance(c, ast.Call) and isinstance(c.func, ast.Attribute):
                recv = self.ev(c.func.value, loc)
                for t, names in MUTATORS.items():
                    if isinstance(recv, t) and c.func.attr in names:
                        args = [self.ev(a, loc) for a in c.args]
                        getattr(recv, c.func.attr)(*args)
                        return
                if isinstance(recv, Obj) and (isinstance(recv.__dict__['_attrs'].get(c.func.attr), Native) or c.func.attr in recv.__dict__.get('_methods', {})):
                    self.ev(c, loc)
                    return
            if isinstance(c, ast.Call) and isinstance(c.func, ast.Name) and c.func.id == 'setattr' and 'setattr' not in self.env:
                self.ev(c, loc)
                return
            if isinstance(c, ast.Call) and isinstance(c.func, ast.Name):
                tgt = (loc or {}).get(c.func.id, self.env.get(c.func.id))
                if isinstance(tgt, (Native, ast.FunctionDef, Closure)):
                    self.ev(c, loc)
                    return
            raise NotConst('expression statement')
        elif isinstance(st, ast.Import):
            # `import re` inside a function: the pure part of the module (match / search / sub / split on strings) is modelled; other imports bind nothing
            for al in st.names:
                if al.name == 're':
                    scope[al.asname or 're'] = re_model()
            return
        elif isinstance(st, (ast.Pass, ast.ImportFrom)):
            return
        elif isinstance(st, ast.FunctionDef):
            # a local helper: callable by name from the enclosing body; when it reads names of the enclosing call it is a closure over that scope
            if scope is not self.env and _free_names(st) & set(scope.keys() if not isinstance(scope, _Chain) else list(dict.keys(scope)) + list(scope.parent.keys())):
                scope[st.name] = Closure(st, scope)
            else:
                scope[st.name] = st
        elif isinstance(st, ast.Return):
            raise _Return(self.ev(st.value, loc) if st.value is not None else None)
        elif isinstance(st, ast.Raise):
            nm = None
            if st.exc is not None:
                f_ = st.exc.func if isinstance(st.exc, ast.Call) else st.exc
                nm = f_.id if isinstance(f_, ast.Name) else None
            raise PyRaise('raise %s' % nm, nm or 'Exception')
        elif isinstance(st, ast.Try) and not st.finalbody:
            try:
                self.exec_stmts(st.body, scope)
            except PyRaise as e:
                hierarchy = {'KeyError': ('LookupError',), 'IndexError': ('LookupError',), 'UnicodeError': ('ValueError',)}
                names = (e.exc_name,) + hierarchy.get(e.exc_name, ()) + ('Exception', 'BaseException')
                for h in st.handlers:
                    types = None
                    if h.type is not None:
                        types = [x.id for x in (h.type.elts if isinstance(h.type, ast.Tuple) else [h.type]) if isinstance(x, ast.Name)]
                    if types is None or any(t in names for t in types):
                        if h.name:
                            raise NotConst('except ... as name')
                        self.exec_stmts(h.body, scope)
                        break
                else:
                    raise
            else:
                self.exec_stmts(st.orelse, scope)
        else:
            raise NotConst('statement %s' % type(st).__name__)


def callables_of(mod, others=()):
    """name -> FunctionDef for what a function of `mod` can call by a bare name: the module's own functions and the functions it imports (under their
    local alias) from the modules in `others`."""
    import os as _os
    out = dict(getattr(mod, 'funcs', {}))
    for alias, (module, name) in getattr(mod, 'imports', {}).items():
        if name is None or alias in out:
            continue
        for o in others:
            if module and module.split('.')[-1] == _os.path.basename(o.relpath)[:-3] and name in o.funcs:
                out[alias] = o.funcs[name]
    return out


def bind_simple_locals(ev, stmts, scope, stop=None, skip=()):
    """Before a fragment of a function is evaluated on its own: bind the locals the statements in front of it define by plain `name = expression`
    assignments, whenever the expression is evaluable in `scope` (aliases such as `mname = self.m.name`); everything else is left alone."""
    for st in stmts:
        if st is stop:
            break
        if isinstance(st, ast.Assign) and len(st.targets) == 1 and isinstance(st.targets[0], ast.Name) and st.targets[0].id not in skip and st.targets[0].id not in scope:
            try:
                scope[st.targets[0].id] = ev.ev(st.value, scope if scope is not ev.env else None)
            except NotConst:
                pass


def _free_names(fnode):
    params = set(a.arg for a in fnode.args.args)
    stores, loads = set(), set()
    for n in ast.walk(fnode):
        if isinstance(n, ast.Name):
            (stores if isinstance(n.ctx, ast.Store) else loads).add(n.id)
    return loads - params - stores


def _as_load(t):
    from .linarith import clone
    t2 = clone(t)
    for n in ast.walk(t2):
        if hasattr(n, 'ctx'):
            n.ctx = ast.Load()
    return t2


def build_instance(mod, cname, name=None):
    """Evaluate `cname.__init__` (self.x = ... statements only) into an Obj."""
    init = mod.method(cname, '__init__')
    o = Obj(name or cname)
    ev = Evaluator({})
    scope = {'self': o}
    ev.env = scope
    try:
        ev.exec_stmts(init.body, scope)
    except NotConst as e:
        raise AnalysisError('%s.%s.__init__ is not statically evaluable: %s' % (mod.name, cname, e))
    return o


def module_env(mod, base_env=None, skip=()):
    """Evaluate module-level assignments that are constant-evaluable; others are left unbound."""
    env = dict(base_env or {})
    # module-level functions are callable from module-level statements (a table built by a small builder function)
    for fname_, fnode_ in getattr(mod, 'funcs', {}).items():
        env.setdefault(fname_, fnode_)
    ev = Evaluator(env)
    skipped = []
    stmts = [s for s in mod.toplevel() if isinstance(s, (ast.Assign, ast.AugAssign, ast.For))]
    # toplevel() lists For statements and then their bodies again; keep only direct statements
    direct = []
    inner = set()
    for s in stmts:
        if isinstance(s, ast.For):
            for x in ast.walk(s):
                if x is not s:
                    inner.add(id(x))
    for s in stmts:
        if id(s) not in inner:
            direct.append(s)
    ev.exec_stmts(direct, env, strict=False, on_skip=lambda st, e: skipped.append((st, str(e))))
    return env, skipped
