"""E1: resolved source model of the repository (pure `ast`, nothing imported)."""
import ast
import builtins
import os

from .core import AnalysisError

MODULES = {
    'ia32_arch': 'miasmx/arch/ia32_arch.py',
    'ia32_att': 'miasmx/arch/ia32_att.py',
    'ia32_reg': 'miasmx/arch/ia32_reg.py',
    'ia32_sem': 'miasmx/arch/ia32_sem.py',
    'ppc_arch': 'miasmx/arch/ppc_arch.py',
    'bin_stream': 'miasmx/core/bin_stream.py',
    'parse_ad': 'miasmx/core/parse_ad.py',
    'expression': 'miasmx/expression/expression.py',
    'eval_abs': 'miasmx/expression/expression_eval_abstract.py',
    'expr_helper': 'miasmx/expression/expression_helper.py',
    'emul_helper': 'miasmx/tools/emul_helper.py',
    'modint': 'miasmx/tools/modint.py',
    'lex': 'ply/lex.py',
    'yacc': 'ply/yacc.py',
}
DOTTED = {
    'miasmx.arch.ia32_arch': 'ia32_arch', 'miasmx.arch.ia32_att': 'ia32_att',
    'miasmx.arch.ia32_reg': 'ia32_reg', 'miasmx.arch.ia32_sem': 'ia32_sem',
    'miasmx.arch.ppc_arch': 'ppc_arch', 'miasmx.core.bin_stream': 'bin_stream',
    'miasmx.core.parse_ad': 'parse_ad', 'miasmx.expression.expression': 'expression',
    'miasmx.expression.expression_eval_abstract': 'eval_abs',
    'miasmx.expression.expression_helper': 'expr_helper',
    'miasmx.tools.emul_helper': 'emul_helper', 'miasmx.tools.modint': 'modint',
    'ply.lex': 'lex', 'ply.yacc': 'yacc',
}


class Module(object):
    def __init__(self, name, root, relpath):
        self.name, self.relpath = name, relpath
        self.path = os.path.join(root, relpath)
        if not os.path.exists(self.path):
            raise AnalysisError('anchor file missing: %s' % relpath)
        with open(self.path, encoding='utf-8', errors='replace') as f:
            self.source = f.read()
        try:
            self.tree = ast.parse(self.source, filename=self.path)
        except SyntaxError as e:
            raise AnalysisError('%s does not parse: %s' % (relpath, e))
        for node in ast.walk(self.tree):
            for ch in ast.iter_child_nodes(node):
                ch._parent = node
        self._index()

    def _index(self):
        self.funcs, self.classes, self.assigns, self.imports = {}, {}, {}, {}
        for st in self.toplevel():
            if isinstance(st, ast.FunctionDef):
                self.funcs[st.name] = st
            elif isinstance(st, ast.ClassDef):
                self.classes[st.name] = st
            elif isinstance(st, ast.Assign):
                for t in st.targets:
                    for n in _target_names(t):
                        self.assigns.setdefault(n, []).append(st)
            elif isinstance(st, ast.AugAssign):
                for n in _target_names(st.target):
                    self.assigns.setdefault(n, []).append(st)
            elif isinstance(st, ast.ImportFrom):
                for a in st.names:
                    self.imports[a.asname or a.name] = (st.module, a.name)
            elif isinstance(st, ast.Import):
                for a in st.names:
                    self.imports[a.asname or a.name.split('.')[0]] = (a.name, None)

    def toplevel(self):
        """Module-level statements, descending into module-level try/if/for bodies
        (not into `if __name__ == '__main__'`)."""
        out = []

        def rec(body):
            for st in body:
                if isinstance(st, ast.Try):
                    rec(st.body)
                    for h in st.handlers:
                        rec(h.body)
                    rec(st.orelse)
                    rec(st.finalbody)
                elif isinstance(st, ast.If):
                    if is_main_guard(st):
                        continue
                    rec(st.body)
                    rec(st.orelse)
                elif isinstance(st, (ast.For, ast.While)):
                    out.append(st)
                    rec(st.body)
                else:
                    out.append(st)
        rec(self.tree.body)
        return out

    def func(self, name):
        if name not in self.funcs:
            raise AnalysisError('anchor function %s.%s not found' % (self.name, name))
        return self.funcs[name]

    def cls(self, name):
        if name not in self.classes:
            raise AnalysisError('anchor class %s.%s not found' % (self.name, name))
        return self.classes[name]

    def method(self, cname, mname, required=True):
        c = self.cls(cname)
        for st in c.body:
            if isinstance(st, ast.FunctionDef) and st.name == mname:
                return st
        if required:
            raise AnalysisError('anchor method %s.%s.%s not found' % (self.name, cname, mname))
        return None

    def methods(self, cname):
        return dict((st.name, st) for st in self.cls(cname).body if isinstance(st, ast.FunctionDef))

    def class_assigns(self, cname):
        out = {}
        for st in self.cls(cname).body:
            if isinstance(st, ast.Assign):
                for t in st.targets:
                    for n in _target_names(t):
                        out[n] = st.value
        return out

    def assign_value(self, name):
        """Value node of the unique module-level assignment to `name`."""
        sts = [s for s in self.assigns.get(name, []) if isinstance(s, ast.Assign)]
        if not sts:
            raise AnalysisError('anchor %s.%s (module-level assignment) not found' % (self.name, name))
        return sts[-1].value

    def bases(self, cname):
        return [ast.unparse(b) for b in self.cls(cname).bases]

    def mro(self, cname):
        """Linearised single-inheritance chain inside this module."""
        out, seen = [], set()
        cur = cname
        while cur in self.classes and cur not in seen:
            seen.add(cur)
            out.append(cur)
            bs = [b for b in self.bases(cur) if b in self.classes]
            if not bs:
                break
            cur = bs[0]
        return out

    def resolve_method(self, cname, mname):
        for c in self.mro(cname):
            m = self.method(c, mname, required=False)
            if m is not None:
                return c, m
        return None, None


def is_main_guard(st):
    t = st.test
    return (isinstance(t, ast.Compare) and isinstance(t.left, ast.Name) and t.left.id == '__name__')


def _target_names(t):
    if isinstance(t, ast.Name):
        return [t.id]
    if isinstance(t, (ast.Tuple, ast.List)):
        out = []
        for e in t.elts:
            out += _target_names(e)
        return out
    return []


class Ctx(object):
    def __init__(self, root, tier='quick'):
        self.root, self.tier = root, tier
        self._mods = {}

    def mod(self, name):
        if name not in self._mods:
            if name not in MODULES:
                raise AnalysisError('unknown module %s' % name)
            self._mods[name] = Module(name, self.root, MODULES[name])
        return self._mods[name]

    def loaded(self):
        return [m.relpath for m in self._mods.values()]

    def all_modules(self):
        return [self.mod(n) for n in MODULES]


# ---------------------------------------------------------------- helpers

def parent(node):
    return getattr(node, '_parent', None)


def enclosing_function(node):
    p = parent(node)
    while p is not None and not isinstance(p, (ast.FunctionDef, ast.Lambda)):
        p = parent(p)
    return p


def enclosing_stmt(node):
    p = node
    while p is not None and not isinstance(p, ast.stmt):
        p = parent(p)
    return p


def qualname(node):
    """Qualified name of a function/class node inside its module."""
    parts = []
    p = node
    while p is not None:
        if isinstance(p, (ast.FunctionDef, ast.ClassDef)):
            parts.append(p.name)
        p = parent(p)
    return '.'.join(reversed(parts))


def walk_no_nested(fn):
    """Walk a function body without entering nested function/class defs
    (lambdas are entered)."""
    stack = list(fn.body)
    while stack:
        n = stack.pop()
        yield n
        for ch in ast.iter_child_nodes(n):
            if isinstance(ch, (ast.FunctionDef, ast.ClassDef)):
                continue
            stack.append(ch)


def calls_in(node):
    return [n for n in ast.walk(node) if isinstance(n, ast.Call)]


def call_name(call):
    f = call.func
    if isinstance(f, ast.Name):
        return f.id
    if isinstance(f, ast.Attribute):
        return f.attr
    return None


def dotted(node):
    if isinstance(node, ast.Name):
        return node.id
    if isinstance(node, ast.Attribute):
        b = dotted(node.value)
        return None if b is None else b + '.' + node.attr
    return None


def attr_reads(node, base='self'):
    """Set of attribute names read/written as `<base>.x` inside node."""
    out = set()
    for n in ast.walk(node):
        if isinstance(n, ast.Attribute) and isinstance(n.value, ast.Name) and n.value.id == base:
            out.add(n.attr)
    return out


BUILTINS = set(dir(builtins))


def local_bindings(fn):
    """Names bound inside a function (params, assignments, for targets, withs,
    excepts, imports, nested defs, comprehension vars are NOT included)."""
    names = set()
    a = fn.args
    for x in a.posonlyargs + a.args + a.kwonlyargs:
        names.add(x.arg)
    if a.vararg:
        names.add(a.vararg.arg)
    if a.kwarg:
        names.add(a.kwarg.arg)
    if isinstance(fn, ast.Lambda):
        return names
    for n in walk_no_nested(fn):
        if isinstance(n, ast.Name) and isinstance(n.ctx, (ast.Store, ast.Del)):
            if not _in_comprehension(n, fn):
                names.add(n.id)
        elif isinstance(n, ast.ExceptHandler) and n.name:
            names.add(n.name)
        elif isinstance(n, (ast.Import, ast.ImportFrom)):
            for al in n.names:
                names.add((al.asname or al.name).split('.')[0])
        elif isinstance(n, ast.Global):
            pass
    for st in ast.walk(fn):
        if st is not fn and isinstance(st, (ast.FunctionDef, ast.ClassDef)) and enclosing_function(st) is fn:
            names.add(st.name)
    return names


def _in_comprehension(n, fn):
    p = parent(n)
    while p is not None and p is not fn:
        if isinstance(p, (ast.ListComp, ast.SetComp, ast.DictComp, ast.GeneratorExp)):
            return True
        p = parent(p)
    return False


def comprehension_bindings(node):
    """Names bound by comprehensions enclosing `node` (up to the function)."""
    names = set()
    p = parent(node)
    while p is not None and not isinstance(p, (ast.FunctionDef, ast.Module, ast.ClassDef)):
        if isinstance(p, (ast.ListComp, ast.SetComp, ast.DictComp, ast.GeneratorExp)):
            for g in p.generators:
                names.update(_target_names(g.target))
        if isinstance(p, ast.Lambda):
            for x in p.args.args:
                names.add(x.arg)
        p = parent(p)
    return names


def module_bindings(mod):
    names = set(mod.funcs) | set(mod.classes) | set(mod.assigns) | set(mod.imports)
    for st in mod.toplevel():
        if isinstance(st, (ast.For,)):
            names.update(_target_names(st.target))
    # star imports
    return names


def star_imports(mod):
    out = []
    for st in mod.toplevel():
        if isinstance(st, ast.ImportFrom):
            for a in st.names:
                if a.name == '*':
                    out.append(st.module)
    return out


def unbound_names(ctx, mod, fn):
    """Names loaded in `fn` (not entering nested defs) that resolve to no local,
    enclosing-function, module-level, star-imported or builtin binding.
    Returns list of ast.Name nodes."""
    scopes = []
    p = fn
    while p is not None:
        if isinstance(p, (ast.FunctionDef, ast.Lambda)):
            scopes.append(local_bindings(p))
        p = parent(p)
    modnames = set(module_bindings(mod))
    for sm in star_imports(mod):
        if sm in DOTTED:
            m2 = ctx.mod(DOTTED[sm])
            modnames |= module_bindings(m2)
            for sm2 in star_imports(m2):
                if sm2 in DOTTED:
                    modnames |= module_bindings(ctx.mod(DOTTED[sm2]))
    out = []
    for n in walk_no_nested(fn):
        if isinstance(n, ast.Name) and isinstance(n.ctx, ast.Load):
            if n.id in BUILTINS or n.id in modnames:
                continue
            if any(n.id in s for s in scopes):
                continue
            if n.id in comprehension_bindings(n):
                continue
            out.append(n)
    return out
