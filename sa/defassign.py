"""Definite assignment (syntax-directed): which names are bound on EVERY path reaching a given return statement."""
import ast


def _targets(t):
    if isinstance(t, ast.Name):
        return {t.id}
    if isinstance(t, (ast.Tuple, ast.List)):
        out = set()
        for e in t.elts:
            out |= _targets(e)
        return out
    return set()


class DefAssign(object):
    """walk(stmts, assigned) -> assigned_after or None when the end is unreachable; records the assigned-set at
    every `return`."""

    def __init__(self):
        self.at_return = []       # (Return node, frozenset assigned)

    def walk(self, stmts, assigned, breaks):
        cur = set(assigned)
        for st in stmts:
            if cur is None:
                return None
            cur = self.stmt(st, cur, breaks)
        return cur

    def stmt(self, st, cur, breaks):
        if isinstance(st, ast.Assign):
            for t in st.targets:
                cur |= _targets(t)
            return cur
        if isinstance(st, (ast.AugAssign, ast.AnnAssign)):
            cur |= _targets(st.target)
            return cur
        if isinstance(st, (ast.FunctionDef, ast.ClassDef)):
            cur.add(st.name)
            return cur
        if isinstance(st, (ast.Import, ast.ImportFrom)):
            for a in st.names:
                cur.add((a.asname or a.name).split('.')[0])
            return cur
        if isinstance(st, ast.Return):
            self.at_return.append((st, frozenset(cur)))
            return None
        if isinstance(st, ast.Raise):
            return None
        if isinstance(st, ast.Break):
            breaks.append(frozenset(cur))
            return None
        if isinstance(st, ast.Continue):
            return None
        if isinstance(st, ast.If):
            a = self.walk(st.body, cur, breaks)
            b = self.walk(st.orelse, cur, breaks)
            if a is None:
                return b
            if b is None:
                return a
            return a & b
        if isinstance(st, ast.While):
            inner = []
            self.walk(st.body, cur, inner)
            infinite = isinstance(st.test, ast.Constant) and st.test.value is True
            if infinite:
                if not inner:
                    return None
                out = set(inner[0])
                for s in inner[1:]:
                    out &= s
                return out
            out = set(cur)
            for s in inner:
                out &= s
            return out
        if isinstance(st, ast.For):
            inner = []
            self.walk(st.body, cur | _targets(st.target), inner)
            out = set(cur)
            for s in inner:
                out &= s
            return out
        if isinstance(st, ast.Try):
            a = self.walk(st.body, cur, breaks)
            outs = [a] if a is not None else []
            for h in st.handlers:
                hb = self.walk(h.body, set(cur) | ({h.name} if h.name else set()), breaks)
                if hb is not None:
                    outs.append(hb)
            if not outs:
                return None
            out = set(outs[0])
            for s in outs[1:]:
                out &= s
            return out
        if isinstance(st, ast.With):
            for it in st.items:
                if it.optional_vars is not None:
                    cur |= _targets(it.optional_vars)
            return self.walk(st.body, cur, breaks)
        return cur


def undefined_at_returns(fn):
    """[(return node, name)] for names read by a return statement that are not bound on every path reaching it."""
    params = set(a.arg for a in fn.args.args + fn.args.kwonlyargs)
    if fn.args.vararg:
        params.add(fn.args.vararg.arg)
    if fn.args.kwarg:
        params.add(fn.args.kwarg.arg)
    da = DefAssign()
    da.walk(fn.body, params, [])
    local = set()
    for n in ast.walk(fn):
        if isinstance(n, ast.Name) and isinstance(n.ctx, ast.Store):
            local.add(n.id)
    out = []
    for ret, assigned in da.at_return:
        if ret.value is None:
            continue
        for n in ast.walk(ret.value):
            if isinstance(n, ast.Name) and n.id in local and n.id not in assigned:
                out.append((ret, n.id))
    return out, len(da.at_return)
