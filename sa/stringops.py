"""String instructions (movs/cmps/lods/stos/scas): their operands are implicit, built by x86_mn.special_opcodes, elided by
x86_mn.__str__ and dropped again by x86_mn.normalize_args.  The three places are evaluated statically (consteval) on the
finite set family x source-segment to decide that a segment override survives decoding, rendering and re-assembly."""
import ast

from .core import AnalysisError
from .consteval import Evaluator, NotConst, Obj
from .shapes import u
from .srcmodel import walk_no_nested

FAMILIES = (('movs', 2), ('cmps', 2), ('lods', 1), ('stos', 1), ('scas', 1))
SEG_PREFIX = {'es': 0x26, 'cs': 0x2E, 'ss': 0x36, 'ds': 0x3E, 'fs': 0x64, 'gs': 0x65}


def _env(X):
    env = dict(X.env)
    env['x86_afs'] = X.afs
    for name, f in X.arch.funcs.items():
        env.setdefault(name, f)
    return env


def decoded_operands(X, mnemonic, prefix):
    """self.arg after x86_mn.special_opcodes for a string mnemonic (name as in the table: movsb, cmpsd, ...) decoded with `prefix`."""
    arch, afs = X.arch, X.afs
    sp = arch.method('x86_mn', 'special_opcodes')
    blocks = [n for n in walk_no_nested(sp) if isinstance(n, ast.If) and 'self.m.name' in u(n.test) and 'startswith' in u(n.test)
              and any(isinstance(x, ast.Assign) and u(x.targets[0]) == 'self.arg' for x in ast.walk(n))]
    if len(blocks) < 5:
        raise AnalysisError('special_opcodes: expected the 5 string-instruction blocks that assign self.arg, found %d' % len(blocks))
    me, m = Obj('self'), Obj('m')
    m.name = mnemonic
    me.m, me.prefix, me.arg, me.opmode = m, list(prefix), [], afs.u32
    env = _env(X)
    env.update({'self': me, 'u08': afs.u08, 'u16': afs.u16, 'u32': afs.u32})
    xm = Obj('x86mndb')
    for k in ('lodsw_m', 'stosw_m', 'movsw_m', 'cmpsw_m', 'scasw_m'):
        setattr(xm, k, m)
    env['x86mndb'] = xm
    ev = Evaluator(env)
    hit = False
    for b in blocks:
        try:
            if ev.ev(b.test):
                ev.exec_stmts(b.body, ev.env)
                hit = True
        except NotConst as e:
            raise AnalysisError('special_opcodes block `%s` is outside the statically evaluable subset: %s' % (u(b.test)[:50], e))
    if not hit:
        raise AnalysisError('no special_opcodes block builds the operands of %s' % mnemonic)
    return me.arg


def renamed_copies(X):
    """x86mndb.<x>_m -> mnemonic name: the renamed row copies x86allmncs.__init__ creates (self.<x>_m.name = "<name>")."""
    init = X.arch.method('x86allmncs', '__init__')
    out = {}
    for st in init.body:
        if isinstance(st, ast.Assign) and isinstance(st.targets[0], ast.Attribute) and u(st.targets[0]).startswith('self.') and u(st.targets[0]).endswith('_m.name') \
                and isinstance(st.value, ast.Constant):
            out[u(st.targets[0])[5:-5]] = st.value.value
    if len(out) < 8:
        raise AnalysisError('x86allmncs.__init__: expected the renamed row copies (pushfw_m, lodsw_m, ...), found %d' % len(out))
    return out


def decoded_name(X, mnemonic, opmode, prefix=(), modifs=None):
    """(mnemonic name, prefix list) after x86_mn.special_opcodes, for an operand-less row named `mnemonic` decoded under `opmode`:
    the whole method body is evaluated."""
    name, _, pfx = special(X, mnemonic, opmode, prefix, modifs, [])
    return name, pfx


def special(X, mnemonic, opmode, prefix=(), modifs=None, args=()):
    """(mnemonic name, operand list, prefix list) after x86_mn.special_opcodes for a row named `mnemonic` decoded under `opmode` with the
    operands `args`: the whole method body is evaluated."""
    arch, afs = X.arch, X.afs
    sp = arch.method('x86_mn', 'special_opcodes')
    me, m = Obj('self'), Obj('m')
    m.name = mnemonic
    md = dict((X.env[k], None) for k in ('w8', 'se', 'sw', 'ww', 'sg', 'dr', 'cr', 'ft', 'w64', 'sd', 'wd', 'bkf', 'spf', 'dtf', 'mmx') if k in X.env)
    md.update(modifs or {})
    m.modifs = md
    me.m, me.prefix, me.arg, me.opmode, me.admode = m, list(prefix), [dict(a) for a in args], opmode, afs.u32
    env = _env(X)
    env.update({'self': me, 'u08': afs.u08, 'u16': afs.u16, 'u32': afs.u32})
    xm = Obj('x86mndb')
    for k, nm in renamed_copies(X).items():
        o = Obj(k)
        o.name, o.modifs = nm, md
        setattr(xm, k, o)
    env['x86mndb'] = xm
    ev = Evaluator(env)
    try:
        ev.exec_stmts(sp.body, ev.env)
    except NotConst as e:
        raise AnalysisError('special_opcodes is outside the statically evaluable subset for %s: %s' % (mnemonic, e))
    return me.m.name, list(me.arg), list(me.prefix)


def rendered_operands(X, mnemonic, args):
    """The operand dictionaries x86_mn.__str__ goes on to print for a string mnemonic whose decoded operands are `args`: the statements that
    elide / reorder them (those that assign args[0:2] and their elif arms) are executed as written."""
    strm = X.arch.method('x86_mn', '__str__')
    me, m = Obj('self'), Obj('m')
    m.name = mnemonic
    me.m = m
    env = _env(X)
    env['self'] = me
    env['args'] = [dict(a) for a in args]
    ev = Evaluator(env)
    seen = 0
    for st in strm.body:
        try:
            if isinstance(st, ast.Assign) and isinstance(st.targets[0], ast.Name) and st.targets[0].id == 'default_ds':
                ev.env['default_ds'] = ev.ev(st.value)
            if isinstance(st, ast.If) and any(isinstance(x, ast.Assign) and u(x.targets[0]) == 'args[0:2]' for x in st.body):
                seen += 1
                ev.exec_stmt(st, ev.env)
        except NotConst as e:
            raise AnalysisError('__str__: operand elision `%s` not evaluable: %s' % (u(st)[:60], e))
    if seen < 2:
        raise AnalysisError('__str__: the two statements eliding the operands of string instructions were not found')
    return list(ev.env['args'])


def rendered_operand_count(X, mnemonic, args):
    return len(rendered_operands(X, mnemonic, args))


def normalized(X, mnemonic, args):
    """(args, prefix) after x86_mn.normalize_args(name, args, prefix) -- evaluated from its source."""
    fn = X.arch.method('x86_mn', 'normalize_args')
    params = [a.arg for a in fn.args.args]
    a2 = [dict(a) for a in args]
    prefix = []
    ev = Evaluator(_env(X))
    call = [Obj('cls'), mnemonic, a2] + ([prefix] if len(params) >= 4 else [])
    try:
        ev.call_user(fn, call)
    except NotConst as e:
        raise AnalysisError('normalize_args is outside the statically evaluable subset on %s: %s' % (mnemonic, e))
    return a2, prefix
