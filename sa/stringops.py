"""String instructions (movs/cmps/lods/stos/scas): their operands are implicit, built by x86_mn.special_opcodes, elided by
x86_mn.__str__ and dropped again by x86_mn.normalize_args.  The three places are evaluated statically (consteval) on the
finite set family x source-segment to decide that a segment override survives decoding, rendering and re-assembly."""
import ast

from .core import AnalysisError
from .consteval import Evaluator, NotConst, Obj
from .shapes import u
from .srcmodel import walk_no_nested

FAMILIES = (('movs', 2), ('cmps', 2), ('lods', 1), ('stos', 1), ('scas', 1))
SEG_PREFIX = {'es': 0x26, 'cs': 0x2E, 'ss': 0x36, 'ds': 0x3E, 'fs': 0x64, 'gs': 0x65}


def _env(X):
    env = dict(X.env)
    env['x86_afs'] = X.afs
    for name, f in X.arch.funcs.items():
        env.setdefault(name, f)
    return env


def decoded_operands(X, mnemonic, prefix):
    """self.arg after x86_mn.special_opcodes for a string mnemonic (name as in the table: movsb, cmpsd, ...) decoded with `prefix`."""
    name_, args_, _ = special(X, mnemonic, X.afs.u32, prefix, None, [])
    if not args_:
        raise AnalysisError('special_opcodes builds no operands for %s' % mnemonic)
    return args_


def renamed_copies(X):
    """x86mndb.<x>_m -> mnemonic name: the renamed row copies x86allmncs.__init__ creates (self.<x>_m.name = "<name>")."""
    init = X.arch.method('x86allmncs', '__init__')
    out = {}
    for st in init.body:
        if isinstance(st, ast.Assign) and isinstance(st.targets[0], ast.Attribute) and u(st.targets[0]).startswith('self.') and u(st.targets[0]).endswith('_m.name') \
                and isinstance(st.value, ast.Constant):
            out[u(st.targets[0])[5:-5]] = st.value.value
    if len(out) < 8:
        raise AnalysisError('x86allmncs.__init__: expected the renamed row copies (pushfw_m, lodsw_m, ...), found %d' % len(out))
    return out


def renamed_copy_sources(X):
    """x86mndb.<x>_m -> name of the table row it is a copy of (x86allmncs.__init__: `pm = self.db_mnemo[0x9c]` / `pm = self.find_mnemo("lodsd")[0]`
    followed by `self.<x>_m = mnemonic(pm.name, pm.opc, ...)`), resolved on the statically expanded table."""
    init = X.arch.method('x86allmncs', '__init__')
    out, cur = {}, None
    by_opc = {}
    for path, c in X.cells.items():
        by_opc.setdefault(tuple(c.opc), c.row.name)
    for st in init.body:
        if isinstance(st, ast.Assign) and len(st.targets) == 1 and isinstance(st.targets[0], ast.Name) and st.targets[0].id == 'pm':
            v = st.value
            cur = None
            if isinstance(v, ast.Subscript) and u(v.value) == 'self.db_mnemo' and isinstance(v.slice, ast.Constant):
                cur = by_opc.get((v.slice.value,), '?opcode %#x' % v.slice.value)
            elif isinstance(v, ast.Subscript) and isinstance(v.value, ast.Call) and u(v.value.func) == 'self.find_mnemo' and v.value.args and isinstance(v.value.args[0], ast.Constant):
                cur = v.value.args[0].value
            else:
                cur = '?' + u(v)[:40]
        if isinstance(st, ast.Assign) and isinstance(st.targets[0], ast.Attribute) and u(st.targets[0]).startswith('self.') and u(st.targets[0]).endswith('_m') \
                and isinstance(st.value, ast.Call) and u(st.value.func) == 'mnemonic':
            src = cur if st.value.args and u(st.value.args[0]).startswith('pm.') else '?' + u(st.value)[:40]
            out[u(st.targets[0])[5:]] = src
    return out


def rename_map(X):
    """(row name the decoder found, x86mndb attribute it is replaced by) pairs of special_opcodes: dictionary displays name -> x86mndb.<x>_m and
    `self.m = x86mndb.<x>_m` under `self.m.name.startswith("<stem>")`."""
    sp = X.arch.method('x86_mn', 'special_opcodes')
    pairs = []
    for n in walk_no_nested(sp):
        if isinstance(n, ast.Dict):
            for k, v in zip(n.keys, n.values):
                if isinstance(k, ast.Constant) and isinstance(v, ast.Attribute) and u(v.value) == 'x86mndb' and v.attr.endswith('_m'):
                    pairs.append((k.value, v.attr, 'exact'))
        if isinstance(n, ast.If) and 'self.m.name.startswith' in u(n.test):
            stems = [c.args[0].value for c in ast.walk(n.test) if isinstance(c, ast.Call) and u(c.func) == 'self.m.name.startswith' and c.args and isinstance(c.args[0], ast.Constant)]
            for a in ast.walk(n):
                if isinstance(a, ast.Assign) and u(a.targets[0]) == 'self.m' and isinstance(a.value, ast.Attribute) and u(a.value.value) == 'x86mndb':
                    for stem in stems:
                        pairs.append((stem, a.value.attr, 'stem'))
    return pairs


def renamed_copy_rule(X, R, what):
    """Every row copy special_opcodes swaps in is a copy of the row it stands for (its flow attributes, operand layout and modifiers come with it)."""
    from .core import where
    srcs = renamed_copy_sources(X)
    pairs = rename_map(X)
    if len(pairs) < 10:
        raise AnalysisError('special_opcodes: %d rename sites found, at least 10 expected' % len(pairs))
    init = X.arch.method('x86allmncs', '__init__')
    for name, attr, kind in sorted(set(pairs)):
        src = srcs.get(attr)
        inst = 'renamed-copy-source:%s->%s' % (name, attr)
        good = src is not None and (src == name if kind == 'exact' else src.startswith(name))
        if good:
            R.ok(inst, sample='%s is a copy of the row %s' % (attr, src))
        else:
            R.violation(inst, 'copy-source:%s:%s' % (attr, src), 'special_opcodes replaces the row %r by x86mndb.%s, which __init__ builds as a copy of the row %r: %s of another instruction'
                        % (name, attr, src, what), where(X.arch, init), witness='66 cf (iretw) is not reported as ending the block' if attr == 'iretw_m' else None)


def decoded_name(X, mnemonic, opmode, prefix=(), modifs=None):
    """(mnemonic name, prefix list) after x86_mn.special_opcodes, for an operand-less row named `mnemonic` decoded under `opmode`:
    the whole method body is evaluated."""
    name, _, pfx = special(X, mnemonic, opmode, prefix, modifs, [])
    return name, pfx


def special(X, mnemonic, opmode, prefix=(), modifs=None, args=()):
    """(mnemonic name, operand list, prefix list) after x86_mn.special_opcodes for a row named `mnemonic` decoded under `opmode` with the
    operands `args`: the whole method body is evaluated."""
    arch, afs = X.arch, X.afs
    sp = arch.method('x86_mn', 'special_opcodes')
    from .consteval import class_obj
    me, m = class_obj(arch, 'x86_mn', 'self'), Obj('m')
    m.name = mnemonic
    md = dict((X.env[k], None) for k in ('w8', 'se', 'sw', 'ww', 'sg', 'dr', 'cr', 'ft', 'w64', 'sd', 'wd', 'bkf', 'spf', 'dtf', 'mmx') if k in X.env)
    md.update(modifs or {})
    m.modifs = md
    me.m, me.prefix, me.arg, me.opmode, me.admode = m, list(prefix), [dict(a) for a in args], opmode, afs.u32
    env = _env(X)
    env.update({'self': me, 'u08': afs.u08, 'u16': afs.u16, 'u32': afs.u32})
    xm = Obj('x86mndb')
    srcs = renamed_copy_sources(X)
    by_name = {}
    for path, c in X.cells.items():
        by_name.setdefault(c.name, c)
    for k, nm in renamed_copies(X).items():
        o = Obj(k)
        # a renamed copy carries the modifiers of the row it is a copy of (movsw_m is a copy of movsd: w8 is not set on it)
        mdk = dict((kk, None) for kk in md)
        src_cell = by_name.get(srcs.get(k))
        if src_cell is not None:
            mdk.update(src_cell.modifs)
        else:
            mdk = md
        o.name, o.modifs = nm, mdk
        setattr(xm, k, o)
    env['x86mndb'] = xm
    ev = Evaluator(env)
    try:
        ev.exec_stmts(sp.body, ev.env)
    except NotConst as e:
        raise AnalysisError('special_opcodes is outside the statically evaluable subset for %s: %s' % (mnemonic, e))
    return me.m.name, list(me.arg), list(me.prefix)


def rendered_operands(X, mnemonic, args):
    """The operand dictionaries x86_mn.__str__ goes on to print for a string mnemonic whose decoded operands are `args`: the statements that
    elide / reorder them (those that assign args[0:2] and their elif arms) are executed as written."""
    strm = X.arch.method('x86_mn', '__str__')
    me, m = Obj('self'), Obj('m')
    m.name = mnemonic
    me.m = m
    env = _env(X)
    env['self'] = me
    env['args'] = [dict(a) for a in args]
    ev = Evaluator(env)
    seen = 0
    for st in strm.body:
        try:
            if isinstance(st, ast.Assign) and len(st.targets) == 1 and isinstance(st.targets[0], ast.Name) and st.targets[0].id != 'args':
                # a local the later statements may read (default_ds, an alias of self.m.name ...): bound when it is evaluable here
                try:
                    ev.env[st.targets[0].id] = ev.ev(st.value)
                except NotConst:
                    pass
            if isinstance(st, ast.If) and any(isinstance(x, ast.Assign) and u(x.targets[0]) == 'args[0:2]' for x in ast.walk(st)):
                seen += 1
                ev.exec_stmt(st, ev.env)
        except NotConst as e:
            raise AnalysisError('__str__: operand elision `%s` not evaluable: %s' % (u(st)[:60], e))
    if seen < 2:
        raise AnalysisError('__str__: the two statements eliding the operands of string instructions were not found')
    return list(ev.env['args'])


def rendered_operand_count(X, mnemonic, args):
    return len(rendered_operands(X, mnemonic, args))


def normalized(X, mnemonic, args):
    """(args, prefix) after x86_mn.normalize_args(name, args, prefix) -- evaluated from its source."""
    fn = X.arch.method('x86_mn', 'normalize_args')
    params = [a.arg for a in fn.args.args]
    a2 = [dict(a) for a in args]
    prefix = []
    ev = Evaluator(_env(X))
    from .consteval import class_obj
    call = [class_obj(X.arch, 'x86_mn'), mnemonic, a2] + ([prefix] if len(params) >= 4 else [])
    try:
        ev.call_user(fn, call)
    except NotConst as e:
        raise AnalysisError('normalize_args is outside the statically evaluable subset on %s: %s' % (mnemonic, e))
    return a2, prefix
