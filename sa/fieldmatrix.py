"""E6: field/method matrix of the IR node classes in expression.py.

For each Expr subclass: constructor fields, and for each interface method the
fields it touches, the fields on which it recurses (calls the same-named or
another interface method on a value derived from self.<field>), and the fields
it compares with another object's.
"""
import ast

from .core import AnalysisError
from .srcmodel import walk_no_nested

NODE_CLASSES = ['ExprInt', 'ExprId', 'ExprAff', 'ExprCond', 'ExprMem', 'ExprOp', 'ExprSlice', 'ExprCompose']
IFACE = ['__eq__', '__hash__', 'copy', 'visit', 'get_r', 'get_w', 'get_size', '__contains__']


def init_fields(cdef):
    init = None
    for st in cdef.body:
        if isinstance(st, ast.FunctionDef) and st.name == '__init__':
            init = st
    if init is None:
        return None
    out = []
    for n in ast.walk(init):
        if isinstance(n, ast.Attribute) and isinstance(n.ctx, ast.Store) and isinstance(n.value, ast.Name) \
                and n.value.id == 'self' and n.attr not in out:
            out.append(n.attr)
    return out


def loop_bindings(fn, base='self', aliases=True):
    """name -> field, for names bound by for-loops / comprehensions / lambdas iterating a value derived from base.<field>;
    also simple aliases  x = base.<field>."""
    binds = {}

    def field_of_iter(it):
        for n in ast.walk(it):
            if isinstance(n, ast.Attribute) and isinstance(n.value, ast.Name) and n.value.id == base:
                return n.attr
        for n in ast.walk(it):
            if isinstance(n, ast.Name) and n.id in binds:
                return binds[n.id]
        return None

    def bind(target, f, it):
        # for zip(self.args, other): only the first tuple element derives from the field
        names = []
        if isinstance(target, ast.Name):
            names = [target.id]
        elif isinstance(target, (ast.Tuple, ast.List)):
            if isinstance(it, ast.Call) and isinstance(it.func, ast.Name) and it.func.id == 'zip':
                for sub_t, sub_it in zip(target.elts, it.args):
                    ff = field_of_iter(sub_it)
                    if ff is not None:
                        bind(sub_t, ff, sub_it)
                return
            if isinstance(it, ast.Call) and isinstance(it.func, ast.Name) and it.func.id == 'enumerate' and len(target.elts) == 2:
                bind(target.elts[1], f, it.args[0])
                return
            for e in target.elts:
                bind(e, f, None)
            return
        for nm in names:
            binds[nm] = f

    changed = True
    rounds = 0
    while changed and rounds < 4:
        rounds += 1
        before = dict(binds)
        for n in ast.walk(fn):
            if isinstance(n, ast.For):
                f = field_of_iter(n.iter)
                if f is not None:
                    bind(n.target, f, n.iter)
            elif isinstance(n, (ast.ListComp, ast.SetComp, ast.GeneratorExp, ast.DictComp)):
                for g in n.generators:
                    f = field_of_iter(g.iter)
                    if f is not None:
                        bind(g.target, f, g.iter)
            elif aliases and isinstance(n, ast.Assign) and len(n.targets) == 1 and isinstance(n.targets[0], ast.Name):
                v = n.value
                if isinstance(v, ast.Attribute) and isinstance(v.value, ast.Name) and v.value.id == base:
                    binds[n.targets[0].id] = v.attr
        changed = binds != before
    return binds


def receiver_field(expr, binds, base='self'):
    e = expr
    while isinstance(e, ast.Subscript):
        e = e.value
    if isinstance(e, ast.Attribute) and isinstance(e.value, ast.Name) and e.value.id == base:
        return e.attr
    if isinstance(e, ast.Name) and e.id in binds:
        return binds[e.id]
    return None


def _helper_element_methods(helper, idx):
    """methods a module-level helper calls on its idx-th parameter or on the elements it iterates from it (`for x in exprs: x.get_r(..)`)"""
    params = [a.arg for a in helper.args.args]
    if idx >= len(params):
        return set()
    p = params[idx]
    elems = {p}
    for n in ast.walk(helper):
        if isinstance(n, ast.For) and isinstance(n.iter, ast.Name) and n.iter.id == p and isinstance(n.target, ast.Name):
            elems.add(n.target.id)
        if isinstance(n, (ast.ListComp, ast.GeneratorExp, ast.SetComp)):
            for g in n.generators:
                if isinstance(g.iter, ast.Name) and g.iter.id == p and isinstance(g.target, ast.Name):
                    elems.add(g.target.id)
    out = set()
    for n in ast.walk(helper):
        if isinstance(n, ast.Call) and isinstance(n.func, ast.Attribute):
            r = n.func.value
            while isinstance(r, ast.Subscript):
                r = r.value
            if isinstance(r, ast.Name) and r.id in elems:
                out.add(n.func.attr)
    return out


class MethodInfo(object):
    def __init__(self, fn, fields, base='self', mod=None):
        self.fn = fn
        self.read = set()        # fields read on base
        self.recursed = {}       # field -> set(method names called on a value derived from it)
        self.calls = []          # (field, method, call node)
        binds = loop_bindings(fn, base)
        self.binds = binds
        for n in ast.walk(fn):
            if isinstance(n, ast.Attribute) and isinstance(n.value, ast.Name) and n.value.id == base and n.attr in fields:
                self.read.add(n.attr)
            if isinstance(n, ast.Call) and isinstance(n.func, ast.Attribute):
                f = receiver_field(n.func.value, binds, base)
                if f is not None and f in fields:
                    self.recursed.setdefault(f, set()).add(n.func.attr)
                    self.calls.append((f, n.func.attr, n))
            if mod is not None and isinstance(n, ast.Call) and isinstance(n.func, ast.Name) and n.func.id in getattr(mod, 'funcs', {}) \
                    and n.func.id not in ('key_expr', 'key_expr_compose', 'MatchExpr'):
                # a field (or a generator over it) handed to a module-level helper: the methods the helper calls on the elements
                for i_, a_ in enumerate(n.args):
                    f = receiver_field(a_, binds, base)
                    if f is None and isinstance(a_, (ast.GeneratorExp, ast.ListComp)) and len(a_.generators) == 1:
                        f = receiver_field(a_.generators[0].iter, binds, base)
                    if f is not None and f in fields:
                        for mname_ in _helper_element_methods(mod.funcs[n.func.id], i_):
                            self.recursed.setdefault(f, set()).add(mname_)
                            self.calls.append((f, mname_, n))
            if isinstance(n, ast.Call) and isinstance(n.func, ast.Name) and n.func.id in ('hash', 'key_expr', 'key_expr_compose', 'MatchExpr'):
                for a in n.args[:1]:
                    f = receiver_field(a, binds, base)
                    if f is not None and f in fields:
                        self.recursed.setdefault(f, set()).add(n.func.id)
                        self.calls.append((f, n.func.id, n))


class Matrix(object):
    def __init__(self, mod):
        self.mod = mod
        self.fields = {}
        self.methods = {}
        for c in NODE_CLASSES:
            cdef = mod.cls(c)
            if 'Expr' not in mod.mro(c):
                raise AnalysisError('%s no longer derives from Expr' % c)
            fs = init_fields(cdef)
            if fs is None:
                raise AnalysisError('%s has no __init__' % c)
            self.fields[c] = fs
            self.methods[c] = {}
            for name, fn in mod.methods(c).items():
                self.methods[c][name] = MethodInfo(fn, fs, mod=mod)
        # any further Expr subclass that is not modelled?
        for cname in mod.classes:
            if cname not in NODE_CLASSES and cname not in ('Expr', 'ExprTop') and 'Expr' in mod.mro(cname):
                raise AnalysisError('new IR node class %s is not modelled' % cname)

    def expr_fields(self, c):
        """Fields holding sub-expressions: those on which some traversal method recurses."""
        out = []
        for f in self.fields[c]:
            for m in ('visit', 'copy', 'get_r', '__contains__'):
                mi = self.methods[c].get(m)
                if mi and mi.recursed.get(f, set()) & {'visit', 'copy', 'get_r', '__contains__'}:
                    if f not in out:
                        out.append(f)
        return out

    def scalar_fields(self, c):
        ef = self.expr_fields(c)
        return [f for f in self.fields[c] if f not in ef]

    def eq_fields(self, c):
        """Fields compared by __eq__: read both on self and on the other operand."""
        mi = self.methods[c].get('__eq__')
        if mi is None:
            return None
        fn = mi.fn
        other = fn.args.args[1].arg
        oi = MethodInfo(fn, self.fields[c], base=other)
        return [f for f in self.fields[c] if f in mi.read and f in oi.read]
