"""Immediate operands of the x86 decoder, evaluated from the source of x86_mn._dis.

The loop of _dis over the operand kinds of a row (`for dib in dibs`) is executed by the checker's evaluator for every immediate kind x (w8, se) combination that a live
cell of the opcode table has x both operand sizes x boundary byte patterns (sign bit alone, largest positive, all ones, ...).  Helpers the loop calls (intsize,
get_im_fmt, whatever method or module-level table the reading is delegated to) are followed from their source; struct.unpack / calcsize are the real functions; the
integer classes are the checker's model integers.  What comes back - bytes consumed, width and value of the immediate - is compared with the architectural reading:

  kind                      bytes                     value
  u08 / u16 / u32           1 / 2 / 4 (2 under 66)    zero-extended
  s08 / s16 / s32           1 / 2 / 4 (2 under 66)    sign-extended                     (rel8 / rel16 / rel32, push imm8)
  imm, se                   1                         sign-extended                     (83 /r ib, 6B)
  imm, w8                   1                         zero-extended, 8 bits
  imm                       operand size              as is
  ims, w8 or se             1                         sign-extended to the operand size (EB cb)
  ims                       operand size              as is (signed)

reduced to the width of the operand: 8 bits for a byte row (w8) - except the relative kind ims, always of the operand size - else the operand size.
Shared by C01 (the decoded operand) and C17 (the displacement getdstflow adds)."""
import ast
import struct as _struct

from .core import AnalysisError, where
from .srcmodel import walk_no_nested
from .consteval import Evaluator, Obj, Native, NotConst, PyRaise, class_obj
from . import simpeval as SE

PATTERNS = {1: (0x00, 0x01, 0x7F, 0x80, 0x81, 0xFE, 0xFF),
            2: (0x0000, 0x0080, 0x00FF, 0x7FFF, 0x8000, 0x8001, 0xFF80, 0xFFFE, 0xFFFF),
            4: (0x00000000, 0x00000080, 0x00008000, 0x0000FFFF, 0x7FFFFFFF, 0x80000000, 0x80000001, 0xFFFFFF80, 0xFFFF8000, 0xFFFFFFFE, 0xFFFFFFFF)}


def find_operand_loop(arch):
    dis = arch.method('x86_mn', '_dis')
    best = None
    for n in walk_no_nested(dis):
        if isinstance(n, ast.For) and isinstance(n.target, ast.Name):
            v = n.target.id
            names = set()
            uses_v = False
            for x in ast.walk(n):
                if isinstance(x, ast.Compare):
                    ns = [y.id for y in ast.walk(x) if isinstance(y, ast.Name)]
                    if v in ns:
                        uses_v = True
                        names.update(ns)
            if uses_v and ('ims' in names or 'imm' in names):
                best = n
    if best is None:
        raise AnalysisError('x86_mn._dis: the loop over the operand kinds of a row (a `for` whose variable is compared with imm / ims) was not found')
    return dis, best


def architectural(kind, w8, se, bits, E, afs):
    """(bytes read, signed, width of the operand) of an immediate kind."""
    fixed = {afs.u08: (1, False), afs.s08: (1, True), afs.u16: (2, False), afs.s16: (2, True), afs.u32: (4, False), afs.s32: (4, True)}
    if kind in fixed:
        n, sg = fixed[kind]
        if n == 4 and bits == 16:
            n = 2
        return n, sg, (8 if w8 else bits)
    if kind == E['imm']:
        if se:
            return 1, True, (8 if w8 else bits)
        if w8:
            return 1, False, 8
        return bits // 8, False, bits
    if kind == E['ims']:
        if se or w8:
            return 1, True, bits
        return bits // 8, True, bits
    raise AnalysisError('immediate kind %r unknown to the reference' % (kind,))


def combos(M):
    """(kind, w8, se) of every immediate operand a live cell carries, with one sample cell each."""
    E, afs = M.env, M.afs
    kinds = [afs.u08, afs.s08, afs.u16, afs.s16, afs.u32, afs.s32, E['imm'], E['ims']]
    out = {}
    for path, c in sorted(M.cells.items()):
        for d in c.row.rm:
            if isinstance(d, (dict, list)):
                continue
            if d in kinds:
                k = (d, bool(c.modifs.get(E['w8'])), bool(c.modifs.get(E['se'])))
                out.setdefault(k, c)
    return out


def _scope_base(M):
    arch, afs, E = M.arch, M.afs, M.env
    base = dict((k, v) for k, v in E.items() if isinstance(v, (str, int, bool, list, tuple, dict)) or v is None)
    base.update(SE.INT_CLASSES)
    base['x86_afs'] = afs
    for fname_, fnode_ in arch.funcs.items():
        base.setdefault(fname_, fnode_)
    for st in arch.tree.body:
        if isinstance(st, ast.Assign) and len(st.targets) == 1 and isinstance(st.targets[0], ast.Name):
            nm = st.targets[0].id
            if nm in base and not any(isinstance(x, ast.Name) and x.id in SE.INT_CLASSES for x in ast.walk(st.value)):
                continue
            try:
                base[nm] = Evaluator(base).ev(st.value)
            except NotConst:
                pass
    st_ = Obj('struct')
    st_.calcsize = Native(_struct.calcsize)

    def unpack(fmt, data):
        if not isinstance(data, (bytes, bytearray)):
            raise NotConst('struct.unpack on %r' % (data,))
        try:
            return _struct.unpack(fmt, bytes(data))
        except _struct.error:
            raise PyRaise('error', 'struct.error')
    st_.unpack = Native(unpack)
    base['struct'] = st_
    lg = Obj('log')
    for nm in ('debug', 'info', 'warning', 'error'):
        setattr(lg, nm, Native(lambda *a, **k: None))
    base['log'] = lg
    return base


def run_loop(M, base, loop, kind, cell, w8, se, opmode, admode, data):
    """Execute the operand loop of _dis for one operand kind; returns (operands appended, bytes consumed)."""
    arch, afs, E = M.arch, M.afs, M.env
    pos = [0]

    def readbs(l=1):
        if not isinstance(l, int) or l < 0:
            raise NotConst('readbs(%r)' % (l,))
        if pos[0] + l > len(data):
            raise PyRaise('IOError', 'read past the end')
        r = data[pos[0]:pos[0] + l]
        pos[0] += l
        return r
    bn = Obj('bin')
    bn.readbs = Native(readbs)
    bn.offset = 0
    me = class_obj(arch, 'x86_mn', 'self')
    m_ = Obj('m')
    m_.name = cell.name
    m_.modifs = dict((E[k_], None) for k_ in ('w8', 'se', 'sw', 'sd', 'wd', 'mmx', 'sg', 'dr', 'cr') if k_ in E)
    for k_, v_ in cell.modifs.items():
        m_.modifs[k_] = v_              # the modifiers of the live cell itself (True / False / None as addop leaves them)
    m_.opc = list(cell.opc)
    m_.afs, m_.rm = cell.row.afs, list(cell.row.rm)
    me.m, me.opmode, me.admode, me.mnemo_mode, me.prefix, me.offset = m_, opmode, admode, afs.u32, [], 0
    scope = dict(base)
    scope.update({'self': me, 'm': m_, 'bin': bn, 'x86mndb': class_obj(arch, 'x86allmncs', 'x86mndb'), 'dibs': [kind], 'dib_out': [], 'mnemo_args': [],
                  'read_prefix': [], 'afs': cell.row.afs})
    Evaluator(scope).exec_stmts([loop], scope)
    return scope.get('dib_out'), pos[0]


def imm_decode_rule(ctx, R, M, tag, part='values'):
    """part='values': boundary byte patterns under both operand sizes (value and width of the operand).  part='modes': one pattern under operand size x address size
    (bytes consumed and width follow the operand size, never the address size) and the direct-offset operand of A0..A3 (offset bytes follow the address size)."""
    arch, afs, E = M.arch, M.afs, M.env
    dis, loop = find_operand_loop(arch)
    base = _scope_base(M)
    cs = combos(M)
    if len(cs) < 10:
        raise AnalysisError('only %d (immediate kind, w8, se) combinations among the live cells (expected at least 10)' % len(cs))
    n_eval = 0
    sizes = ((afs.u32, 32), (afs.u16, 16))
    for (kind, w8, se), cell in sorted(cs.items(), key=lambda kv: (str(kv[0][0]), kv[0][1], kv[0][2])):
        for mode, bits in sizes:
            for admode, abits in (sizes if part == 'modes' else sizes[:1]):
                nbytes, signed, width = architectural(kind, w8, se, bits, E, afs)
                inst = 'imm[%s%s%s,%d-bit%s]' % (kind, ',w8' if w8 else '', ',se' if se else '', bits, (',a%d' % abits) if part == 'modes' else '')
                key = '%s:imm:%s:%s%s:%d' % (tag, kind, 'w8' if w8 else '', 'se' if se else '', bits)
                pats = PATTERNS[nbytes] if part == 'values' else (PATTERNS[nbytes][-2],)
                for raw in pats:
                    data = raw.to_bytes(nbytes, 'little') + b'\xCC\xCC\xCC\xCC'
                    try:
                        out, used = run_loop(M, base, loop, kind, cell, w8, se, mode, admode, data)
                    except PyRaise as e:
                        R.violation(inst, key + ':raises:' + e.exc_name, '_dis raises %s reading the %s immediate of %s (bytes %s, %d-bit operand size, %d-bit address size)'
                                    % (e.exc_name, kind, cell.row.key(), data[:nbytes].hex(), bits, abits), where(arch, loop))
                        break
                    except NotConst as e:
                        raise AnalysisError('x86_mn._dis: the operand loop is outside the evaluable subset for kind %s: %s' % (kind, e))
                    n_eval += 1
                    if not (isinstance(out, list) and len(out) == 1 and isinstance(out[0], dict) and afs.imm in out[0]):
                        R.violation(inst, key + ':shape', '_dis does not produce exactly one immediate operand for the %s kind of %s (got %r)' % (kind, cell.row.key(), out), where(arch, loop))
                        break
                    v = out[0][afs.imm]
                    val = raw - (1 << (8 * nbytes)) if signed and raw >> (8 * nbytes - 1) else raw
                    want = val % (1 << width)
                    problems = []
                    if used != nbytes:
                        problems.append('%d bytes are consumed, the encoding has %d' % (used, nbytes))
                    if not isinstance(v, SE.MInt):
                        problems.append('the value arrives as %s, not as a fixed-width integer' % type(v).__name__)
                    else:
                        if type(v).size != width:
                            problems.append('the operand is %d bits wide, IA-32: %d' % (type(v).size, width))
                        elif part == 'values' and int(v) % (1 << width) != want:
                            problems.append('value %#x, IA-32: %#x (%s-extended)' % (int(v) % (1 << width), want, 'sign' if signed else 'zero'))
                    if problems:
                        R.violation(inst, key + ':' + ('bytes' if any('consumed' in p for p in problems) else 'width' if any('bits wide' in p for p in problems) else 'value'),
                                    'immediate kind %s%s%s of %s, bytes %s, %d-bit operand size, %d-bit address size: %s'
                                    % (kind, ' (byte row)' if w8 else '', ' (sign-extended imm8 form)' if se else '', cell.row.key(), data[:nbytes].hex(), bits, abits, '; '.join(problems)),
                                    where(arch, loop), witness='66 e8 12 34 90 90 is 4 bytes long; eb fe is jmp -2; 74 80 jumps backwards by 128')
                        break
                else:
                    R.ok(inst, sample='%s of %s under %d-bit operand size: %d byte(s), %s-extended to %d bits (%d byte patterns)'
                         % (kind, cell.row.key(), bits, nbytes, 'sign' if signed else 'zero', width, len(pats)))
    if part == 'modes':
        mim = E.get('mim')
        cells = [c for _, c in sorted(M.cells.items()) if mim is not None and mim in [d for d in c.row.rm if not isinstance(d, (dict, list))]]
        if not cells:
            raise AnalysisError('no live cell with a direct-offset operand (A0..A3) in the opcode table')
        seen = set()
        for cell in cells:
            w8 = bool(cell.modifs.get(E['w8']))
            if w8 in seen:
                continue
            seen.add(w8)
            for mode, bits in sizes:
                for admode, abits in sizes:
                    nbytes = abits // 8
                    raw = 0x8001FFFE if nbytes == 4 else 0xFFFE
                    data = raw.to_bytes(nbytes, 'little') + b'\xCC\xCC\xCC\xCC'
                    inst = 'moffs operand-size %d address-size %d %s' % (bits, abits, 'byte' if w8 else 'full')
                    try:
                        out, used = run_loop(M, base, loop, mim, cell, w8, False, mode, admode, data)
                    except PyRaise as e:
                        R.violation(inst, '%s:moffs:raises:%s' % (tag, e.exc_name), '_dis raises %s reading the direct offset of %s' % (e.exc_name, cell.row.key()), where(arch, loop))
                        continue
                    except NotConst as e:
                        raise AnalysisError('x86_mn._dis: the operand loop is outside the evaluable subset for the direct-offset operand: %s' % e)
                    n_eval += 1
                    problems = []
                    want_size = afs.u08 if w8 else mode
                    if not (isinstance(out, list) and len(out) == 1 and isinstance(out[0], dict)):
                        problems.append('does not append exactly one operand')
                    else:
                        o = out[0]
                        if used != nbytes:
                            problems.append('reads %d offset bytes, the address size has %d' % (used, nbytes))
                        v = o.get(afs.imm)
                        if not isinstance(v, int) or int(v) % (1 << 32) != raw:
                            problems.append('offset %s, encoded %#x' % (('%#x' % (int(v) % (1 << 32))) if isinstance(v, int) else repr(v), raw))
                        if o.get(afs.size) != want_size:
                            problems.append('operand size is %s, expected %s' % (o.get(afs.size), want_size))
                        if not o.get(afs.ad):
                            problems.append('operand is not marked as memory')
                    if problems:
                        R.violation(inst, 'mode:moffs:%d:%d:%s' % (bits, abits, ';'.join(problems)[:60]), 'moffs operand (A0..A3, %s) with operand size %d and address size %d: %s'
                                    % (cell.row.key(), bits, abits, '; '.join(problems)), where(arch, loop), witness='66 a1 78 56 34 12 must be 6 bytes long')
                    else:
                        R.ok(inst, sample='%s: %d offset bytes, operand size %s' % (inst, nbytes, want_size))
    R.note('%d evaluations of the operand loop of _dis over %d (kind, w8, se) combinations of live cells (%s)' % (n_eval, len(cs), part))


def find_asm_operand_loop(arch):
    ac = arch.method('x86_mn', 'asm_candidates')
    best = None
    for n in ast.walk(ac):
        if isinstance(n, ast.For) and isinstance(n.target, ast.Name):
            v = n.target.id
            names, uses_v = set(), False
            for x in ast.walk(n):
                if isinstance(x, ast.Compare):
                    ns = [y.id for y in ast.walk(x) if isinstance(y, ast.Name)]
                    if v in ns:
                        uses_v = True
                        names.update(ns)
            if uses_v and ('ims' in names or 'imm' in names):
                best = n
    if best is None:
        raise AnalysisError('x86_mn.asm_candidates: the loop over the operand kinds of a candidate row was not found')
    return ac, best


def asm_operand_loop_total_rule(ctx, R, M):
    """C10: the loop of asm_candidates that matches the parsed operands against the operand kinds of a candidate row, evaluated from its source for every row that takes an
    immediate x operand lists of length 0..3 made of a register, an immediate and a memory operand (a line with too few, too many or the wrong kind of operands): the candidate is
    refused or accepted, no Python exception escapes."""
    from . import consteval as _ce
    arch, afs, E = M.arch, M.afs, M.env
    ac, loop = find_asm_operand_loop(arch)
    base = _scope_base(M)
    kinds = [afs.u08, afs.s08, afs.u16, afs.s16, afs.u32, afs.s32, E['imm'], E['ims']]
    REG = lambda n: {afs.ad: False, afs.size: afs.u32, n: 1}
    IMM = lambda v: {afs.ad: False, afs.size: afs.u32, afs.imm: SE.U[32](v)}
    MEM = lambda: {afs.ad: afs.u32, afs.size: afs.u32, 3: 1, afs.imm: SE.U[32](8)}
    lists = [('no operand', []), ('reg', [REG(1)]), ('eax', [REG(0)]), ('imm', [IMM(5)]), ('mem', [MEM()]), ('reg, imm', [REG(1), IMM(5)]), ('eax, imm', [REG(0), IMM(5)]),
             ('reg, reg', [REG(1), REG(2)]), ('imm, imm', [IMM(5), IMM(7)]), ('reg, mem', [REG(1), MEM()]), ('mem, imm', [MEM(), IMM(5)]), ('reg, reg, imm', [REG(1), REG(2), IMM(5)]),
             ('imm, reg', [IMM(5), REG(1)])]
    from .srcmodel import parent as _parent
    outer = _parent(loop)
    pre_stmts = []
    if isinstance(outer, ast.For) and loop in outer.body:
        pre_stmts = list(outer.body[:outer.body.index(loop)])
    rows = {}
    for path, c in sorted(M.cells.items()):
        ds = [d for d in c.row.rm if not isinstance(d, (dict, list))]
        if any(d in kinds for d in ds):
            k = (c.row.idx, bool(c.modifs.get(E['w8'])), bool(c.modifs.get(E['se'])))
            rows.setdefault(k, c)
    if len(rows) < 60:
        raise AnalysisError('only %d table rows with an immediate operand kind (expected at least 60)' % len(rows))
    n_eval = 0
    for k, cell in sorted(rows.items()):
        bad = None
        for label, ops in lists:
            cand = Obj('c')
            cand.modifs = dict((E[k_], None) for k_ in ('w8', 'se', 'sw', 'sd', 'wd', 'mmx', 'sg', 'dr', 'cr') if k_ in E)
            cand.modifs.update(cell.modifs)
            cand.afs, cand.rm, cand.opc, cand.name = cell.row.afs, list(cell.row.rm), list(cell.opc), cell.row.name
            me = class_obj(arch, 'x86_mn', 'self')
            me.mnemo_mode, me.opmode, me.admode = afs.u32, afs.u32, afs.u32
            loc = dict(base)
            loc.update({'self': me, 'c': cand, 'args_sample': [dict(o) for o in ops], 'args_eval': [dict(o) for o in ops], 'afs': cell.row.afs, 'dibs': list(cell.row.rm), 'name': cell.name,
                        'good_c': True, 'opc_add': [], 'parsed_args': [], 'parsed_val': [{}], 'out_opc': [list(cell.opc)], 'dib_out': [], 'prefix': [],
                        'x86mndb': class_obj(arch, 'x86allmncs', 'x86mndb'), 'modifs': dict(cand.modifs)})
            try:
                # the statements of the candidate loop in front of the operand loop run first (filters on the modifiers, on the number of operands ...): a candidate they
                # discard never reaches the operand loop
                try:
                    Evaluator(loc).exec_stmts(pre_stmts + [loop], loc)
                except (_ce._Continue, _ce._Break):
                    pass
                n_eval += 1
            except PyRaise as e:
                bad = (label, e.exc_name)
                break
            except NotConst as e:
                raise AnalysisError('x86_mn.asm_candidates: the operand loop is outside the evaluable subset for %s with operands (%s): %s' % (cell.row.key(), label, e))
        inst = 'asm-operands:%s' % cell.row.key()
        if bad:
            R.violation(inst, 'asm-operand-loop:%s:%s' % (cell.row.name, bad[1]), 'asm_candidates raises %s matching the operands (%s) against the row %s: a line with these operands is '
                        'neither assembled nor refused' % (bad[1], bad[0], cell.row.key()), where(arch, loop), witness="asm('%s')" % cell.name)
        else:
            R.ok(inst, sample='%s: %d operand lists are accepted or refused' % (cell.row.key(), len(lists)), nontrivial=(cell.row.idx % 4 == 0))
    R.note('%d evaluations of the operand-matching loop of asm_candidates over %d rows with an immediate' % (n_eval, len(rows)))
