"""The symbolic machine (expression_eval_abstract.py: mpool, eval_abs) interpreted from its source together with expression.py and expression_helper.py, run on short
instruction histories and compared with a concrete byte-level execution of the same history (C07: the machine state equals sequential execution; C06: evaluation is
substitution of the bound values).

A history is a list of instructions; an instruction is a list of parallel assignments (register or memory cell <- expression over registers and memory), the form the
lifter hands to eval_instr.  The histories are the shapes the memory model distinguishes: a cell read at its own width, narrower, wider, from the middle, across two
cells, starting before a cell; stores that cover, split or abut earlier stores; the same through constant and through symbolic addresses; reads between stores (a read
must not change what later reads see); register dependencies inside one instruction (parallel) and across instructions (sequential).

Oracle: the history executed on concrete integers - registers from a valuation, memory a little-endian byte map over the initial-memory function of simpeval.value.
Every register and every probed cell of the interpreted machine is an expression over the *initial* registers and memory; its value under the valuation must be the
concrete one.  Nothing of the repository is imported: the machine's methods run in the checker's evaluator, a construct outside its subset is an ANALYSIS-ERROR."""
import ast

from .core import AnalysisError
from .consteval import Evaluator, Obj, Native, NotConst, PyRaise
from . import simpeval as SE
from .exprobj import SimpWorld, _const
from .srcclasses import SrcObj

REGS = ('eax', 'ebx', 'ecx', 'edx', 'esi', 'edi')
FLAGS = ('zf', 'cf')


class MachineWorld(SimpWorld):
    def __init__(self, ctx):
        SimpWorld.__init__(self, ctx)
        self.evm = ctx.mod('eval_abs')
        for st in self.evm.toplevel():
            if isinstance(st, ast.FunctionDef):
                self.env[st.name] = st
            elif isinstance(st, ast.ClassDef):
                self._build_class(st)
            elif isinstance(st, ast.Assign) and len(st.targets) == 1 and isinstance(st.targets[0], ast.Name) and st.targets[0].id not in self.env:
                try:
                    self.env[st.targets[0].id] = self.ev.ev(st.value)
                except NotConst as e:
                    self.unevaluated[st.targets[0].id] = str(e)
        for need in ('mpool', 'eval_abs'):
            if need not in self.classes:
                raise AnalysisError('expression_eval_abstract.%s: class not found or not evaluable' % need)

    def machine(self):
        lg = Obj('log')
        for nm in ('debug', 'info', 'warning', 'error', 'warn'):
            setattr(lg, nm, Native(lambda *a, **k: None))
        vars_ = {}
        for r in REGS:
            vars_[self.from_native(SE.ExprId(r, 32, False, True))] = self.from_native(SE.ExprId('init_' + r, 32, True, False))
        for f in FLAGS:
            vars_[self.from_native(SE.ExprId(f, 32, False, True))] = self.from_native(SE.ExprId('init_' + f, 32, True, False))
        return self.classes['eval_abs'](vars_, None, None, lg)


# ----------------------------------------------------------------------------------------------- histories
def _R(n):
    return SE.ExprId(n, 32, False, True)


def histories():
    C, Sl, Op, Comp, M, Cond = SE.C, SE.Sl, SE.Op, SE.Comp, SE.ExprMem, SE.ExprCond
    eax, ebx, ecx, edx, esi, edi, zf = [_R(n) for n in ('eax', 'ebx', 'ecx', 'edx', 'esi', 'edi', 'zf')]
    at = lambda base, k: base if k == 0 else Op('+', base, C(k))
    lo8, hi8, lo16 = (lambda r: Sl(r, 0, 8)), (lambda r: Sl(r, 8, 16)), (lambda r: Sl(r, 0, 16))
    set16 = lambda r, v: (r, Comp((v, 0, 16), (Sl(r, 16, 32), 16, 32)))
    set8 = lambda r, v: (r, Comp((v, 0, 8), (Sl(r, 8, 32), 8, 32)))
    H = []
    H.append(('byte-stores-word-read', [[(M(esi, 8), lo8(eax))], [(M(at(esi, 1), 8), hi8(eax))], [set16(ebx, M(esi, 16))]],
              [M(esi, 8), M(at(esi, 1), 8), M(esi, 16), M(esi, 32), M(at(esi, 1), 16)]))
    H.append(('byte-stores-word-read-2', [[(M(at(edi, 2), 8), lo8(edx))], [(M(at(edi, 3), 8), hi8(edx))], [set16(ecx, M(at(edi, 2), 16))], [set8(ebx, M(at(edi, 3), 8))]],
              [M(at(edi, 2), 8), M(at(edi, 3), 8), M(at(edi, 2), 16)]))
    H.append(('dword-store-narrow-reads', [[(M(at(esi, 4), 32), eax)]],
              [M(at(esi, 4), 8), M(at(esi, 5), 8), M(at(esi, 6), 16), M(at(esi, 4), 16), M(at(esi, 7), 8), M(at(esi, 4), 32), M(at(esi, 2), 32), M(at(esi, 6), 32), M(at(esi, 3), 16), M(at(esi, 7), 16)]))
    H.append(('const-address-cell', [[(M(C(0x1000), 32), C(0x11223344))]],
              [M(C(0x1000), 8), M(C(0x1001), 16), M(C(0x0FFE), 32), M(C(0x1002), 32), M(C(0x1000), 32), M(C(0x1003), 8), M(C(0x1000), 16)]))
    H.append(('const-address-operand', [[(M(C(0x1000), 32), C(0x11223344))], [(ecx, Op('+', ecx, Comp((M(C(0x1000), 8), 0, 8), (C(0, 24) if False else Sl(C(0), 0, 24), 8, 32))))],
                                        [(edx, Op('^', edx, M(C(0x1000), 32)))]], []))
    H.append(('symbolic-cell-free-base', [[(M(at(esi, 8), 32), C(0xA1B2C3D4))]], [M(at(esi, 8), 8), M(at(esi, 9), 16), M(at(esi, 10), 8), M(at(esi, 8), 32)]))
    H.append(('store-over-store', [[(M(esi, 32), eax)], [(M(at(esi, 1), 8), lo8(edx))]], [M(esi, 32), M(esi, 8), M(at(esi, 1), 8), M(at(esi, 2), 16), M(esi, 16)]))
    H.append(('word-crossing-two-cells', [[(M(esi, 32), eax)], [(M(at(esi, 4), 32), ebx)], [(M(at(esi, 3), 16), lo16(ecx))]],
              [M(esi, 32), M(at(esi, 4), 32), M(at(esi, 2), 32), M(at(esi, 3), 16), M(at(esi, 3), 8), M(at(esi, 4), 8), M(at(esi, 5), 8)]))
    H.append(('wide-store-covers-bytes', [[(M(at(esi, 1), 8), lo8(eax))], [(M(at(esi, 2), 8), lo8(ebx))], [(M(esi, 32), ecx)]], [M(at(esi, 1), 8), M(at(esi, 2), 8), M(esi, 32), M(at(esi, 2), 16)]))
    H.append(('same-address-narrow-over-wide', [[(M(esi, 32), eax)], [(M(esi, 8), lo8(ebx))]], [M(esi, 32), M(esi, 8), M(at(esi, 1), 8), M(esi, 16)]))
    H.append(('same-address-wide-over-narrow', [[(M(esi, 8), lo8(eax))], [(M(esi, 32), ebx)]], [M(esi, 8), M(esi, 32), M(at(esi, 3), 8)]))
    H.append(('same-address-word-over-dword', [[(M(edi, 32), eax)], [(M(edi, 16), lo16(ebx))]], [M(edi, 32), M(at(edi, 2), 16)]))
    H.append(('registers-parallel-then-sequential', [[(eax, ebx), (ebx, eax)], [(ecx, Op('+', eax, ebx))], [(eax, Op('^', eax, ecx))], [(edx, Op('+', edx, Op('-', eax)))]], []))
    H.append(('read-between-stores', [[(M(edi, 16), lo16(eax))], [(ebx, M(edi, 32))], [(M(at(edi, 2), 16), lo16(ebx))], [(ecx, M(edi, 32))]], [M(edi, 32), M(edi, 16), M(at(edi, 2), 16), M(at(edi, 1), 16)]))
    H.append(('address-register-updated', [[(esi, Op('+', esi, C(4)))], [(M(esi, 32), eax)], [(esi, Op('+', esi, C(0xFFFFFFFC)))]], [M(at(esi, 4), 32), M(at(esi, 5), 8), M(esi, 32)]))
    H.append(('memory-to-memory', [[(M(edi, 32), M(esi, 32))], [(M(esi, 32), eax)]], [M(edi, 32), M(esi, 32), M(at(edi, 1), 8)]))
    H.append(('conditional-value', [[(eax, Cond(zf, ebx, ecx))], [(M(esi, 32), eax)]], [M(esi, 8), M(at(esi, 2), 16)]))
    H.append(('const-two-cells-wide-read', [[(M(C(0x2000), 16), C(0x1122, 16))], [(M(C(0x2002), 16), C(0x3344, 16))]], [M(C(0x2000), 32), M(C(0x2001), 16), M(C(0x2001), 8), M(C(0x2003), 8)]))
    H.append(('constants-fold', [[(eax, C(5))], [(ebx, Op('+', eax, C(3)))], [(M(esi, 32), ebx)], [(ecx, Op('+', M(esi, 32), ecx))]], [M(esi, 8), M(at(esi, 1), 8)]))
    H.append(('three-byte-stores-dword-read', [[(M(esi, 8), lo8(eax))], [(M(at(esi, 1), 8), hi8(eax))], [(M(at(esi, 2), 8), Sl(eax, 16, 24))], [(ebx, M(esi, 32))], [(ecx, M(esi, 32))]],
              [M(esi, 8), M(at(esi, 1), 8), M(at(esi, 2), 8), M(esi, 16), M(at(esi, 1), 16)]))
    H.append(('two-bases', [[(M(esi, 32), eax)], [(M(edi, 32), ebx)], [(M(at(esi, 2), 8), lo8(ecx))]], [M(esi, 32), M(edi, 32), M(at(edi, 2), 8)]))
    # the arithmetic of the evaluator on values that became constants on the way (counts below, at and above the width; the sign bit set)
    H.append(('alu-on-constants', [[(eax, C(0x80000081))], [(ebx, Op('>>>', eax, C(3)))], [(ecx, Op('<<<', eax, C(33)))], [(edx, Op('a>>', eax, C(4)))],
                                   [(eax, Op('+', Op('>>', eax, C(1)), Op('<<', ebx, C(31))))], [(M(esi, 32), Op('^', eax, edx))]], [M(esi, 8), M(at(esi, 3), 8)]))
    H.append(('alu-shift-counts', [[(eax, C(0xF00000F1))], [(ebx, Op('>>', eax, C(32)))], [(ecx, Op('<<', eax, C(31)))], [(edx, Op('a>>', eax, C(31)))], [(edi, Op('>>>', eax, C(32)))],
                                   [(eax, Op('*', eax, C(0x10001)))]], []))
    H.append(('alu-mixed-symbolic', [[(eax, Op('&', eax, C(0xFF00)))], [(ebx, Op('>>', eax, C(8)))], [(ecx, Op('+', ecx, Op('-', ecx)))], [(edx, Op('|', edx, C(0)))],
                                     [(M(esi, 32), Op('+', ebx, ecx))]], [M(esi, 8), M(at(esi, 1), 8)]))
    H.append(('wide-store-over-cell-at-same-address-and-cell-inside', [[(M(esi, 8), lo8(eax))], [(M(at(esi, 1), 8), hi8(eax))], [(M(esi, 32), ecx)]],
              [M(at(esi, 1), 8), M(esi, 8), M(esi, 32), M(at(esi, 1), 16)]))
    H.append(('narrow-stores-inside-wide-cell-then-wide-store', [[(M(edi, 32), eax)], [(M(at(edi, 2), 8), lo8(ebx))], [(M(edi, 16), lo16(ecx))], [(M(edi, 32), edx)]],
              [M(at(edi, 2), 8), M(edi, 16), M(at(edi, 3), 8), M(edi, 32)]))
    # parts of a register as destinations (the constructor of ExprAff rewrites them to an assignment of the whole register)
    H.append(('partial-register-writes', [[(lo8(eax), lo8(ebx))], [(hi8(eax), M(esi, 8))], [(lo16(ecx), lo16(eax))], [(M(esi, 16), lo16(ecx))], [(Sl(edx, 16, 32), M(esi, 16))]],
              [M(esi, 8), M(at(esi, 1), 8)]))
    H.append(('partial-register-constants', [[(eax, C(0x11223344))], [(hi8(eax), C(0xAB, 8))], [(lo8(eax), C(0xCD, 8))], [(ebx, Op('+', eax, C(1)))], [(lo16(ebx), Op('+', lo16(ebx), C(0xFFFF, 16)))]], []))
    # a count (or a factor) that the state binds to a constant while the value stays symbolic
    H.append(('shift-count-bound-to-zero', [[(ecx, C(0))], [(ebx, Op('<<', ebx, ecx))], [(edx, Op('>>>', edx, ecx))], [(edi, Op('a>>', eax, ecx))], [(eax, Op('&', eax, ecx))]], []))
    H.append(('shift-count-bound-to-32', [[(ecx, C(32))], [(ebx, Op('<<<', ebx, ecx))], [(edx, Op('>>', edx, Op('&', ecx, C(0x1F))))], [(eax, Op('*', eax, Op('>>', ecx, C(5))))]], []))
    return H


VALUATIONS = (
    {'init_eax': 0x11223344, 'init_ebx': 0x55667788, 'init_ecx': 0x99AABBCC, 'init_edx': 0xDDEEFF01, 'init_esi': 0x00401000, 'init_edi': 0x00702000, 'init_zf': 0, 'init_cf': 1},
    {'init_eax': 0x80000001, 'init_ebx': 0x7FFFFFFF, 'init_ecx': 0xFFFFFFFF, 'init_edx': 0x00000080, 'init_esi': 0x10000000, 'init_edi': 0x20000100, 'init_zf': 1, 'init_cf': 0},
    {'init_eax': 0x00000000, 'init_ebx': 0xFFFF0000, 'init_ecx': 0x0000FF00, 'init_edx': 0x01020304, 'init_esi': 0x00008000, 'init_edi': 0x7FFF0000, 'init_zf': 1, 'init_cf': 1},
)


def concrete(history, probes, env):
    regs = dict((n[5:], v) for n, v in env.items())
    mem = {}

    def rd(addr, nbytes):
        v = 0
        for i in range(nbytes):
            a = (addr + i) & 0xFFFFFFFF
            v |= (mem[a] if a in mem else SE._mem_byte(0, a, 0)) << (8 * i)
        return v

    def cv(t):
        k = t.KIND
        if k == 'Int':
            return SE.value(t, {})
        if k == 'Id':
            return regs[t.f('name')] & ((1 << t.f('size')) - 1)
        if k == 'Mem':
            return rd(cv(t.f('arg')), t.f('size') // 8)
        if k == 'Slice':
            return (cv(t.f('arg')) >> t.f('start')) & ((1 << (t.f('stop') - t.f('start'))) - 1)
        if k == 'Cond':
            return cv(t.f('src1')) if cv(t.f('cond')) else cv(t.f('src2'))
        if k == 'Compose':
            v = 0
            for p in t.f('args'):
                v |= (cv(p[0]) & ((1 << (p[2] - p[1])) - 1)) << p[1]
            return v
        if k == 'Op':
            return SE.value(SE.ExprOp(t.f('op'), *[_const(cv(a), SE.size_of(a)) for a in t.f('args')]), {})
        raise AnalysisError('concrete: %s' % k)
    for instr in history:
        todo = []
        for dst, src in instr:
            v = cv(src)
            if dst.KIND == 'Mem':
                todo.append(('m', cv(dst.f('arg')) & 0xFFFFFFFF, dst.f('size') // 8, v))
            elif dst.KIND == 'Slice':
                # a part of a register (al, ah, ax): the other bits keep their value
                rn, lo, hi = dst.f('arg').f('name'), dst.f('start'), dst.f('stop')
                msk = ((1 << (hi - lo)) - 1) << lo
                todo.append(('r', rn, None, (regs[rn] & ~msk) | ((v << lo) & msk)))
            else:
                todo.append(('r', dst.f('name'), None, v))
        for kind, a, n, v in todo:
            if kind == 'r':
                regs[a] = v & 0xFFFFFFFF
            else:
                for i in range(n):
                    mem[(a + i) & 0xFFFFFFFF] = (v >> (8 * i)) & 0xFF
    return regs, [rd(cv(p.f('arg')), p.f('size') // 8) for p in probes]


def run_history(W, history, probes):
    """('ok', {reg: native expr}, [native expr per probe]) | ('fails', message)"""
    m = W.machine()
    for i, instr in enumerate(history):
        affs = [W.from_native(SE.ExprAff(d, s)) for d, s in instr]
        st, r = W.call((m, 'eval_instr'), affs)
        if st != 'ok':
            return 'fails', 'eval_instr of instruction %d %s %s' % (i + 1, st, r)
    regs = {}
    for r in REGS:
        st, v = W.call((m, 'eval_expr'), W.from_native(_R(r)), {})
        if st != 'ok' or not isinstance(v, SrcObj):
            return 'fails', 'eval_expr(%s) %s %s' % (r, st, v)
        regs[r] = W.to_native(v)
    outs = []
    for p in probes:
        st, v = W.call((m, 'eval_expr'), W.from_native(p), {})
        if st != 'ok' or not isinstance(v, SrcObj):
            return 'fails', 'eval_expr(%s) %s %s' % (SE.show(p), st, v)
        outs.append(W.to_native(v))
    return 'ok', regs, outs


_CACHE = {}


def results(ctx):
    key = id(ctx)
    if key in _CACHE:
        return _CACHE[key]
    W = MachineWorld(ctx)
    out = []
    for label, history, probes in histories():
        r = run_history(W, history, probes)
        text = '; '.join(', '.join('%s = %s' % (SE.show(d), SE.show(s)) for d, s in instr) for instr in history)
        if r[0] != 'ok':
            out.append((label, False, 'history [%s]: %s' % (text, r[1])))
            continue
        _, regs, outs = r
        bad = None
        try:
            for env in VALUATIONS:
                want_regs, want_probes = concrete(history, probes, env)
                for rn in REGS:
                    SE.check_typed(regs[rn], lenient_const_pieces=True)
                    if SE.size_of(regs[rn]) != 32:
                        bad = '%s is %d bits wide after the history' % (rn, SE.size_of(regs[rn]))
                        break
                    got = SE.value(regs[rn], env)
                    if got != want_regs[rn]:
                        bad = '%s = %s, which is %#x for %s; sequential execution gives %#x' % (rn, SE.show(regs[rn]), got, _envshow(env), want_regs[rn])
                        break
                if bad:
                    break
                for p, e, w in zip(probes, outs, want_probes):
                    SE.check_typed(e, lenient_const_pieces=True)
                    if SE.size_of(e) != p.f('size'):
                        bad = 'the read %s gives %s of %d bits' % (SE.show(p), SE.show(e), SE.size_of(e))
                        break
                    got = SE.value(e, env)
                    if got != w:
                        bad = 'the read %s gives %s, which is %#x for %s; sequential execution gives %#x' % (SE.show(p), SE.show(e), got, _envshow(env), w)
                        break
                if bad:
                    break
        except (SE.IllTyped, PyRaise) as ex:
            bad = 'ill-formed result (%s)' % ex
        except KeyError as ex:
            bad = 'a result still names %s, which is not part of the initial state (a register left unbound or unevaluated)' % (ex,)
        out.append((label, bad is None, ('after [%s]: %s' % (text, bad)) if bad else '%d instructions, %d registers and %d probed cells agree with sequential execution on %d valuations'
                    % (len(history), len(REGS), len(probes), len(VALUATIONS))))
    _CACHE[key] = out
    return out


def _envshow(env):
    return ', '.join('%s=%#x' % (k[5:], v) for k, v in sorted(env.items()) if k[5:] in ('eax', 'ebx', 'ecx', 'edx'))


def emit(R, ctx, tag):
    from .core import where
    evm = ctx.mod('eval_abs')
    fn = evm.method('eval_abs', 'eval_instr')
    for label, ok, msg in results(ctx):
        inst = 'history[%s]' % label
        if ok:
            R.ok(inst, sample='%s: %s' % (label, msg))
        else:
            R.violation(inst, '%s:history:%s' % (tag, label), msg, where(evm, fn), witness=label)
