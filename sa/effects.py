"""E5: ownership / side-effect classification (function-local, flow-insensitive)."""
import ast

from .shapes import u
from .srcmodel import walk_no_nested, parent

MUTATORS = {'append', 'extend', 'insert', 'pop', 'update', 'sort', 'reverse', 'remove', 'clear', 'setdefault',
            'popitem', 'discard', 'add', '__setitem__', '__delitem__'}
FRESH_CALLS = {'dict', 'list', 'set', 'tuple', 'sorted', 'frozenset'}


# f(<fresh node of class C>) is still a node owned by this function, for the listed (f, C):
#   expr_simp(ExprMem(..)): the simplifier has no rule that returns a child of an ExprMem (it returns it or rebuilds it)
FRESH_THROUGH = {'expr_simp': {'ExprMem'}}


def _names(t):
    if isinstance(t, ast.Name):
        return [t.id]
    if isinstance(t, (ast.Tuple, ast.List)):
        out = []
        for e in t.elts:
            out += _names(e)
        return out
    return []


def base_name(expr):
    """Root Name of an attribute/subscript chain, and whether a subscript/attribute hop was taken."""
    hops = 0
    e = expr
    while isinstance(e, (ast.Attribute, ast.Subscript)):
        e = e.value
        hops += 1
    if isinstance(e, ast.Name):
        return e.id, hops
    return None, hops


class Freshness(object):
    """Which local names / element-0 of which local containers hold objects created in this function."""

    def __init__(self, fn, fresh_call=None, ctor=lambda name: name.startswith('Expr') or name in FRESH_CALLS):
        self.fn = fn
        self.ctor = ctor
        self.fresh_call = fresh_call or (lambda call, idx: False)
        self.assigns = {}      # name -> list of value exprs (or markers)
        for n in walk_no_nested(fn):
            if isinstance(n, ast.Assign):
                for t in n.targets:
                    self._bind(t, n.value)
            elif isinstance(n, ast.AugAssign) and isinstance(n.target, ast.Name):
                self.assigns.setdefault(n.target.id, []).append(('aug', n.value))
            elif isinstance(n, ast.For):
                self._bind_iter(n.target, n.iter)
            elif isinstance(n, (ast.ListComp, ast.GeneratorExp, ast.SetComp, ast.DictComp)):
                for g in n.generators:
                    self._bind_iter(g.target, g.iter)
            elif isinstance(n, ast.With):
                for it in n.items:
                    if it.optional_vars is not None:
                        self._bind(it.optional_vars, ('opaque', it.context_expr))
        a = fn.args
        self.params = [x.arg for x in a.posonlyargs + a.args + a.kwonlyargs]
        if a.vararg:
            self.params.append(a.vararg.arg)
        if a.kwarg:
            self.params.append(a.kwarg.arg)

    def _bind(self, target, value):
        if isinstance(target, ast.Name):
            self.assigns.setdefault(target.id, []).append(value)
        elif isinstance(target, (ast.Tuple, ast.List)):
            if isinstance(value, (ast.Tuple, ast.List)) and len(value.elts) == len(target.elts):
                for t, v in zip(target.elts, value.elts):
                    self._bind(t, v)
            else:
                for i, t in enumerate(target.elts):
                    self._bind(t, ('unpack', value, i))

    def _bind_iter(self, target, it):
        if isinstance(target, ast.Name):
            self.assigns.setdefault(target.id, []).append(('iter', it))
        elif isinstance(target, (ast.Tuple, ast.List)):
            for i, t in enumerate(target.elts):
                self._bind_iter(t, ('elt', it, i))

    # --- a light reaching-definition lookup: the nearest preceding plain assignment to `name` in the block of `at`
    # or an enclosing block; a binding For loop / comprehension around `at`; None when ambiguous.
    def reaching(self, name, at):
        node = at
        while node is not None and node is not self.fn:
            par = parent(node)
            if par is None:
                break
            # loop variable of an enclosing for / comprehension
            if isinstance(par, ast.For) and node in par.body and name in _names(par.target):
                return self._iter_value(par.target, par.iter, name)
            if isinstance(par, (ast.ListComp, ast.GeneratorExp, ast.SetComp, ast.DictComp)):
                for g in par.generators:
                    if name in _names(g.target):
                        return self._iter_value(g.target, g.iter, name)
            for field in ('body', 'orelse', 'finalbody'):
                blk = getattr(par, field, None)
                if isinstance(blk, list) and node in blk:
                    i = blk.index(node)
                    for prev in reversed(blk[:i]):
                        if isinstance(prev, ast.Assign):
                            for t in prev.targets:
                                if isinstance(t, ast.Name) and t.id == name:
                                    return prev.value
                                if isinstance(t, (ast.Tuple, ast.List)) and name in _names(t):
                                    if isinstance(prev.value, (ast.Tuple, ast.List)) and len(prev.value.elts) == len(t.elts):
                                        for tt, vv in zip(t.elts, prev.value.elts):
                                            if isinstance(tt, ast.Name) and tt.id == name:
                                                return vv
                                    idx = [k for k, tt in enumerate(t.elts) if isinstance(tt, ast.Name) and tt.id == name]
                                    return ('unpack', prev.value, idx[0] if idx else None)
                        elif isinstance(prev, ast.AugAssign) and isinstance(prev.target, ast.Name) and prev.target.id == name:
                            return ('aug', prev.value)
                        elif any(isinstance(x, ast.Name) and isinstance(x.ctx, ast.Store) and x.id == name for x in ast.walk(prev)):
                            return None   # assigned inside a compound statement: ambiguous
            node = par
        return None

    def _iter_value(self, target, it, name):
        if isinstance(target, ast.Name):
            return ('iter', it)
        idx = [k for k, tt in enumerate(target.elts) if isinstance(tt, ast.Name) and tt.id == name]
        return ('elt', it, idx[0] if idx else None)

    def is_fresh_at(self, v, at, depth=0):
        """Freshness of expression v as seen at statement `at` (uses reaching definitions for names)."""
        if depth > 8:
            return False
        if isinstance(v, ast.Name):
            r = self.reaching(v.id, at)
            if r is None:
                return self.is_fresh_name(v.id, depth + 1)
            if isinstance(r, tuple):
                if r[0] == 'iter':
                    return False
                return self.is_fresh_expr(r, depth + 1)
            return self.is_fresh_at(r, self._stmt_of(r) or at, depth + 1)
        if isinstance(v, ast.Subscript) and not isinstance(v.slice, ast.Slice):
            nm, hops = base_name(v)
            if isinstance(v.value, ast.Dict):
                return all(self.is_fresh_at(x, at, depth + 1) for x in v.value.values)
            if nm and hops == 1 and isinstance(v.slice, ast.Constant) and isinstance(v.value, ast.Name):
                r = self.reaching(nm, at)
                idx = v.slice.value
                if isinstance(r, (ast.Tuple, ast.List)) and isinstance(idx, int) and idx < len(r.elts):
                    return self.is_fresh_at(r.elts[idx], self._stmt_of(r) or at, depth + 1)
                if isinstance(r, tuple) and r[0] == 'iter':
                    return self.iter_container_element_fresh(r[1], idx, depth + 1)
                if r is None:
                    return self.element_fresh(nm, idx, depth + 1)
                return False
            return False
        if isinstance(v, ast.Call) and isinstance(v.func, ast.Name) and v.func.id in FRESH_THROUGH and v.args:
            a0 = v.args[0]
            if isinstance(a0, ast.Call) and isinstance(a0.func, ast.Name) and a0.func.id in FRESH_THROUGH[v.func.id]:
                return True
        return self.is_fresh_expr(v, depth + 1)

    def _stmt_of(self, node):
        p = node
        while p is not None and not isinstance(p, ast.stmt):
            p = parent(p)
        return p

    def is_fresh_expr(self, v, depth=0):
        if depth > 6:
            return False
        if isinstance(v, tuple):
            kind = v[0]
            if kind == 'aug':
                return False
            if kind == 'unpack':
                val, i = v[1], v[2]
                if isinstance(val, ast.Call):
                    return self.fresh_call(val, i)
                return False
            if kind == 'iter':
                return self.iter_elements_fresh(v[1], depth + 1)
            return False
        if isinstance(v, (ast.Dict, ast.List, ast.Set, ast.ListComp, ast.DictComp, ast.SetComp, ast.Constant, ast.JoinedStr)):
            return True
        if isinstance(v, ast.Tuple):
            return True
        if isinstance(v, ast.Call):
            f = v.func
            if isinstance(f, ast.Name) and self.ctor(f.id):
                return True
            if isinstance(f, ast.Attribute) and f.attr == 'copy' and not v.args:
                return True
            if self.fresh_call(v, None):
                return True
            return False
        if isinstance(v, ast.Subscript) and isinstance(v.slice, ast.Slice):
            return True   # x[:] copies
        if isinstance(v, ast.BinOp) and isinstance(v.op, (ast.Add, ast.Mult, ast.Mod)):
            return True   # list/str concatenation builds a new object
        if isinstance(v, ast.Name):
            return self.is_fresh_name(v.id, depth + 1)
        if isinstance(v, ast.Subscript):
            # element 0 of a local container literal whose element 0 is fresh
            nm, hops = base_name(v)
            if nm and hops == 1 and isinstance(v.slice, ast.Constant):
                return self.element_fresh(nm, v.slice.value, depth + 1)
        return False

    def is_fresh_name(self, name, depth=0):
        if name in self.params and name not in self.assigns:
            return False
        vals = self.assigns.get(name)
        if not vals:
            return False
        return all(self.is_fresh_expr(v, depth + 1) for v in vals)

    def element_fresh(self, name, idx, depth=0):
        """Element `idx` of every value assigned to the local container `name` is fresh."""
        vals = self.assigns.get(name)
        if not vals or depth > 6:
            return False
        for v in vals:
            if isinstance(v, tuple) and v[0] == 'iter':
                if not self.iter_container_element_fresh(v[1], idx, depth + 1):
                    return False
                continue
            if isinstance(v, (ast.Tuple, ast.List)) and isinstance(idx, int) and idx < len(v.elts):
                if not self.is_fresh_expr(v.elts[idx], depth + 1):
                    return False
                continue
            return False
        return True

    def iter_elements_fresh(self, it, depth):
        return False

    def iter_container_element_fresh(self, it, idx, depth):
        """`for x in D.values()` / `for x in L`: element idx of each item stored into D / L in this function is fresh."""
        src = it
        if isinstance(src, ast.Call) and isinstance(src.func, ast.Attribute) and src.func.attr in ('values',) and isinstance(src.func.value, ast.Name):
            cont = src.func.value.id
        elif isinstance(src, ast.Name):
            cont = src.id
        else:
            return False
        stored = []
        for n in walk_no_nested(self.fn):
            if isinstance(n, ast.Assign):
                for t in n.targets:
                    if isinstance(t, ast.Subscript) and isinstance(t.value, ast.Name) and t.value.id == cont:
                        stored.append(n.value)
            if isinstance(n, ast.Call) and isinstance(n.func, ast.Attribute) and n.func.attr == 'append' \
                    and isinstance(n.func.value, ast.Name) and n.func.value.id == cont and n.args:
                stored.append(n.args[0])
        if not stored:
            return False
        for v in stored:
            if isinstance(v, (ast.Tuple, ast.List)) and isinstance(idx, int) and idx < len(v.elts):
                if not self.is_fresh_expr(v.elts[idx], depth + 1):
                    return False
            else:
                return False
        return True


def stores(fn):
    """Store-like statements: (node, target expr whose object is mutated, kind, attr or None)."""
    out = []
    for n in walk_no_nested(fn):
        if isinstance(n, (ast.Assign, ast.AugAssign)):
            targets = n.targets if isinstance(n, ast.Assign) else [n.target]
            for t in targets:
                for tt in (t.elts if isinstance(t, (ast.Tuple, ast.List)) else [t]):
                    if isinstance(tt, ast.Attribute):
                        out.append((n, tt.value, 'attr', tt.attr))
                    elif isinstance(tt, ast.Subscript):
                        out.append((n, tt.value, 'item', None))
        elif isinstance(n, ast.Delete):
            for t in n.targets:
                if isinstance(t, ast.Subscript):
                    out.append((n, t.value, 'delitem', None))
                elif isinstance(t, ast.Attribute):
                    out.append((n, t.value, 'delattr', t.attr))
        elif isinstance(n, ast.Call) and isinstance(n.func, ast.Attribute) and n.func.attr in MUTATORS:
            out.append((n, n.func.value, 'call', n.func.attr))
    return out


def param_names(fn):
    a = fn.args
    return [x.arg for x in a.posonlyargs + a.args]


def mutable_defaults(fn):
    """(param name, default node) for parameters whose default is a mutable literal/constructor."""
    a = fn.args
    params = a.posonlyargs + a.args
    out = []
    for p, d in zip(params[len(params) - len(a.defaults):], a.defaults):
        if isinstance(d, (ast.Dict, ast.List, ast.Set)) or (isinstance(d, ast.Call) and u(d.func) in ('dict', 'list', 'set')):
            out.append((p.arg, d))
    return out


class ParamEffects(object):
    """Which parameters a function mutates / reads as a container, with an interprocedural fixpoint over
    name-resolved callees (bare names -> same-module or imported functions; self.m -> methods of the class)."""

    def __init__(self, ctx, modules):
        self.funcs = {}     # qual -> (mod, class or None, fn)
        for m in modules:
            for name, fn in m.funcs.items():
                self.funcs[(m.name, None, name)] = (m, None, fn)
            for cname in m.classes:
                for name, fn in m.methods(cname).items():
                    self.funcs[(m.name, cname, name)] = (m, cname, fn)
        self.by_name = {}
        for q in self.funcs:
            self.by_name.setdefault(q[2], []).append(q)
        self.mut = dict((q, set()) for q in self.funcs)     # mutated param names
        self.read = dict((q, set()) for q in self.funcs)    # param names read as containers (subscript load / `in`)
        self._local()
        self._fixpoint()

    def _local(self):
        for q, (m, c, fn) in self.funcs.items():
            ps = set(param_names(fn))
            for n, tgt, kind, attr in stores(fn):
                nm, hops = base_name(tgt)
                if nm in ps and hops == 0:
                    self.mut[q].add(nm)
            for n in walk_no_nested(fn):
                if isinstance(n, ast.Subscript) and isinstance(n.ctx, ast.Load) and isinstance(n.value, ast.Name) and n.value.id in ps:
                    self.read[q].add(n.value.id)
                if isinstance(n, ast.Compare) and any(isinstance(o, (ast.In, ast.NotIn)) for o in n.ops):
                    for c2 in n.comparators:
                        if isinstance(c2, ast.Name) and c2.id in ps:
                            self.read[q].add(c2.id)
                if isinstance(n, (ast.For,)) and isinstance(n.iter, ast.Name) and n.iter.id in ps:
                    self.read[q].add(n.iter.id)

    def callees(self, q, call):
        m, c, fn = self.funcs[q]
        f = call.func
        out = []
        if isinstance(f, ast.Name):
            for q2 in self.by_name.get(f.id, []):
                if q2[1] is None:
                    out.append(q2)
        elif isinstance(f, ast.Subscript) and isinstance(f.value, ast.Name) and c is not None:
            # dispatch through a local dict of bound methods: D = {K: self.m1, ...}; D[k](args)
            for n in walk_no_nested(fn):
                if isinstance(n, ast.Assign) and len(n.targets) == 1 and isinstance(n.targets[0], ast.Name) and n.targets[0].id == f.value.id \
                        and isinstance(n.value, ast.Dict):
                    for v in n.value.values:
                        if isinstance(v, ast.Attribute) and isinstance(v.value, ast.Name) and v.value.id in ('self', 'cls'):
                            for q2 in self.by_name.get(v.attr, []):
                                if q2[1] is not None and q2[0] == m.name:
                                    out.append(q2)
        elif isinstance(f, ast.Attribute):
            if isinstance(f.value, ast.Name) and f.value.id in ('self', 'cls') and c is not None:
                for q2 in self.by_name.get(f.attr, []):
                    if q2[1] is not None and q2[0] == m.name:
                        out.append(q2)
            else:
                for q2 in self.by_name.get(f.attr, []):
                    if q2[1] is not None:
                        out.append(q2)
        return out

    def arg_map(self, q2, call):
        """param name of callee q2 -> argument expr of the call."""
        m2, c2, fn2 = self.funcs[q2]
        ps = param_names(fn2)
        if c2 is not None and ps and ps[0] in ('self', 'cls'):
            ps = ps[1:]
        out = {}
        for p, a in zip(ps, call.args):
            out[p] = a
        for k in call.keywords:
            if k.arg:
                out[k.arg] = k.value
        return out

    def _fixpoint(self):
        changed = True
        rounds = 0
        while changed and rounds < 10:
            changed = False
            rounds += 1
            for q, (m, c, fn) in self.funcs.items():
                ps = set(param_names(fn))
                for n in walk_no_nested(fn):
                    if not isinstance(n, ast.Call):
                        continue
                    for q2 in self.callees(q, n):
                        am = self.arg_map(q2, n)
                        for p2, a in am.items():
                            if isinstance(a, ast.Name) and a.id in ps:
                                if p2 in self.mut[q2] and a.id not in self.mut[q]:
                                    self.mut[q].add(a.id)
                                    changed = True
                                if p2 in self.read[q2] and a.id not in self.read[q]:
                                    self.read[q].add(a.id)
                                    changed = True
