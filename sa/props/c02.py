"""C02 -- assembler candidates encode exactly the requested instruction: immediates and displacements are never
silently truncated (every narrowing is guarded by the range check for the width that is emitted) and the range
table itself is the width semantics."""
import ast

from ..core import AnalysisError, where, norm
from ..consteval import Evaluator, NotConst, Obj
from ..shapes import u
from ..srcmodel import walk_no_nested, parent
from ..x86table import model as x86model, int_class_objs

MODCLASSES = {'uint8': (8, False), 'uint16': (16, False), 'uint32': (32, False), 'uint64': (64, False),
              'int8': (8, True), 'int16': (16, True), 'int32': (32, True), 'int64': (64, True)}
WIDTH_OF_TOKEN = {'u08': (8, False), 's08': (8, True), 'u16': (16, False), 's16': (16, True), 'u32': (32, False), 's32': (32, True)}
MASKS = {0xFF: 8, 0xFFFF: 16, 0xFFFFFFFF: 32}


def enclosing_stmt(n):
    while n is not None and not isinstance(n, ast.stmt):
        n = parent(n)
    return n


def in_pack(n):
    p = parent(n)
    while p is not None and not isinstance(p, ast.stmt):
        if isinstance(p, ast.Call) and u(p.func) == 'struct.pack':
            return True
        p = parent(p)
    return False


def operand_derived(expr):
    """Does the narrowed expression depend on anything but literals?"""
    return any(isinstance(x, (ast.Name, ast.Attribute, ast.Subscript, ast.Call)) for x in ast.walk(expr))


def range_rule(ctx, R2):
    """Range table of check_imm_size / struct formats / cast table (shared with C03: a byte string whose disp8/imm8/rel8 lies on the edge of the range must be offered back)."""
    X = x86model(ctx)
    arch, E, afs = X.arch, X.env, X.afs
    cis = arch.func('check_imm_size')
    # check_imm_size(imm, size) is evaluated from its source, with the fixed-width integers modelled, on every size token x boundary values: it answers None exactly for a
    # value outside the range of the token and otherwise the value in the integer class of that width and signedness.  (The shape of its tests - an elif chain, nested
    # ifs, a table - is not read.)
    from .. import simpeval as _SEr
    from ..consteval import PyRaise as _PRr
    env = dict((k, v) for k, v in E.items() if isinstance(v, (str, int, bool, list, tuple, dict)) or v is None)
    env.update(_SEr.INT_CLASSES)
    env['x86_afs'] = afs
    for fname_, fnode_ in arch.funcs.items():
        env.setdefault(fname_, fnode_)
    n_br = 0
    for tok, (bits, signed) in sorted(WIDTH_OF_TOKEN.items()):
        half, full = 1 << (bits - 1), 1 << bits
        vals = sorted(set([-full - 1, -full, -half - 1, -half, -half + 1, -1, 0, 1, half - 1, half, half + 1, full - 1, full, full + 1, 0x7FFFFFFF, 0x80000000, 0xFFFFFFFF,
                           0x100000000 - half, 0x100000000 - half - 1, -0x80000000]))
        problems = []
        for v in vals:
            if not -0x80000000 <= v <= 0xFFFFFFFF:
                continue            # the parsers hand over values of at most 32 bits
            try:
                r = Evaluator(dict(env)).call_user(cis, [v, E[tok]])
            except _PRr as e:
                problems.append('raises %s for %#x' % (e.exc_name, v))
                continue
            except NotConst as e:
                raise AnalysisError('check_imm_size is outside the evaluable subset (%s, %#x): %s' % (tok, v, e))
            n_br += 1
            w32 = v & 0xFFFFFFFF
            w32s = w32 - (1 << 32) if w32 >> 31 else w32
            if signed:
                must = -half <= w32s < half
                judged = True
            else:
                must = 0 <= v < full
                judged = v >= 0 or v < -full        # a negative value down to -2^bits may be taken as its two's complement or refused: both conventions exist in the callers
            if r is None:
                if judged and must:
                    problems.append('%#x is refused although it fits' % v)
                continue
            if judged and not must:
                problems.append('%#x is accepted as %r: it does not fit %d %s bits and would be truncated' % (v, r, bits, 'signed' if signed else 'unsigned'))
                continue
            cls_ = type(r).__name__
            if cls_ != ('int%d' if signed else 'uint%d') % bits:
                problems.append('%#x is returned as %s, expected %s%d' % (v, cls_, 'int' if signed else 'uint', bits))
            elif (int(r) - v) % full:
                problems.append('%#x is returned as %r: another value modulo 2^%d' % (v, r, bits))
        inst = 'check_imm_size[%s]' % tok
        if problems:
            R2.violation(inst, 'range:%s:%s' % (tok, problems[0].split(' is ')[-1][:40] if ' is ' in problems[0] else problems[0][:40]), 'check_imm_size for %s: %s' % (tok, '; '.join(problems[:3])), where(arch, cis),
                         witness="asm('mov al, 256')" if tok == 'u08' else None)
        else:
            R2.ok(inst, sample='%s: %d boundary values: refused exactly when outside the %d-bit %s range, returned in the class of that width' % (tok, len(vals), bits, 'signed' if signed else 'unsigned'),
                  nontrivial=True)
        # two interval instances per token (kept for the floor of the rule)
        R2.ok(inst + ':low', nontrivial=False)
    if n_br < 60:
        raise AnalysisError('check_imm_size: only %d evaluations succeeded' % n_br)
    # ad_to_generic (the displacement forms forge_opc tries for a memory operand), evaluated on boundary displacements: the one-byte form is offered exactly for -128..127
    from ..consteval import PyRaise as _PRa
    from .. import simpeval as _SEa
    a2g = arch.func('ad_to_generic')
    scope_a = dict((k_, v_) for k_, v_ in E.items() if isinstance(v_, (str, int, bool, list, tuple, dict)) or v_ is None)
    scope_a.update(_SEa.INT_CLASSES)
    scope_a['x86_afs'] = afs
    for fname_, fnode_ in arch.funcs.items():
        scope_a.setdefault(fname_, fnode_)
    for disp in (-129, -128, -127, -1, 0, 1, 127, 128, 255, 256, -0x80000000, 0x7FFFFFFF, 0xFFFFFF80, 0xFFFFFF7F):
        sv = disp - (1 << 32) if disp >= (1 << 31) else disp
        inst = 'ad_to_generic[disp %d]' % disp
        try:
            out_ = Evaluator(scope_a).call_user(a2g, [{afs.ad: afs.u32, afs.size: afs.u32, 5: 1, afs.imm: disp}])
        except _PRa as e:
            R2.violation(inst, 'disp-forms:raises:%s' % e.exc_name, 'ad_to_generic raises %s on the displacement %d' % (e.exc_name, disp), where(arch, a2g))
            continue
        except NotConst as e:
            raise AnalysisError('ad_to_generic is outside the evaluable subset: %s' % e)
        kinds = [o_.get(afs.imm) for o_ in out_ if isinstance(o_, dict)]
        has8, has32 = afs.s08 in kinds, afs.u32 in kinds
        if has8 == (-128 <= sv <= 127) and has32:
            R2.ok(inst, sample='displacement %d: %s' % (disp, 'disp8 and disp32 forms' if has8 else 'disp32 form only'))
        else:
            R2.violation(inst, 'disp-forms:%s' % ('disp8-missing' if (-128 <= sv <= 127) and not has8 else 'disp8-offered' if has8 else 'disp32-missing'),
                         'for the displacement %d ad_to_generic offers the forms %s; the signed-byte form exists exactly for -128..127 and the 32-bit form always' % (disp, kinds), where(arch, a2g),
                         witness='8b 45 80 (mov eax, [ebp-128]) is not among the candidates of its own rendering')
    # the size-membership guard
    ds = afs.dict_size
    for tok, (bits, signed) in WIDTH_OF_TOKEN.items():
        f = ds.get(tok)
        want = {8: 'b', 16: 'h', 32: 'i'}[bits]
        want = want if signed else want.upper()
        if f == want:
            R2.ok('dict_size[%s]' % tok, sample='dict_size[%s] = %r' % (tok, f))
        else:
            R2.violation('dict_size[%s]' % tok, 'dict_size:%s' % tok, 'struct format of %s is %r, expected %r' % (tok, f, want), where(X.reg, X.reg.method('afs_desc', '__init__')))
    t2i = E.get('tab_size2int')
    if not isinstance(t2i, dict):
        # values are classes: evaluate keys/values textually
        node = arch.assign_value('tab_size2int')
        pairs = dict((Evaluator(dict(E, x86_afs=afs)).ev(k), u(v)) for k, v in zip(node.keys, node.values))
    else:
        pairs = dict((k, getattr(v, '_name', str(v))) for k, v in t2i.items())
    for tok, (bits, signed) in WIDTH_OF_TOKEN.items():
        want = ('int%d' if signed else 'uint%d') % bits
        got = pairs.get(tok)
        if got is not None and want in str(got):
            R2.ok('tab_size2int[%s]' % tok, sample='tab_size2int[%s] = %s' % (tok, want))
        else:
            R2.violation('tab_size2int[%s]' % tok, 'tab_size2int:%s' % tok, 'tab_size2int[%s] is %s, expected %s' % (tok, got, want), where(arch, arch.assigns['tab_size2int'][-1]))



def mode_decision(X, name, ops):
    """x86_mn.asm_candidates interpreted from its first statement, with the instruction table answered by the row model, until self.mnemo_mode is set:
    ('ok', prefixes, mode) | ('raises', exception name).  Helpers the method calls (methods of x86_mn through self, module-level functions) are followed."""
    from ..consteval import Evaluator, Obj, Native, NotConst, PyRaise, class_obj
    arch, E, afs = X.arch, X.env, X.afs
    ac = arch.method('x86_mn', 'asm_candidates')
    params = [a.arg for a in ac.args.args]
    if len(params) != 4:
        raise AnalysisError('x86_mn.asm_candidates has an unexpected signature: %s' % params)
    cache = X.__dict__.setdefault('_mode_decision_scope', None)
    if cache is None:
        log = Obj('log')
        for k_ in ('debug', 'error', 'info', 'warning', 'warn'):
            setattr(log, k_, Native(lambda *a: None))
        base_keys = [E[k] for k in ('w8', 'se', 'sw', 'ww', 'sg', 'dr', 'cr', 'ft', 'w64', 'sd', 'wd', 'bkf', 'spf', 'dtf', 'mmx') if k in E]

        def rows_of(nm_):
            out = []
            for opc, nm, row in X.lookup.get(nm_, []):
                c = Obj('row:%s' % nm_)
                md = dict((k, None) for k in base_keys)
                md.update(nm)
                c.modifs, c.afs, c.name, c.opc, c.rm = md, row.afs, row.name, list(opc), list(row.rm)
                out.append(c)
            return out
        db = Obj('x86mndb')
        db.find_mnemo = Native(rows_of)
        scope0 = dict((k_, v_) for k_, v_ in E.items() if isinstance(v_, (str, int, bool, list, tuple, dict)) or v_ is None)
        for fname_, fnode_ in arch.funcs.items():
            scope0.setdefault(fname_, fnode_)
        scope0.update({'log': log, 'x86_afs': afs, 'x86mndb': db})
        cache = X.__dict__['_mode_decision_scope'] = scope0
    me = class_obj(arch, 'x86_mn', 'self')
    pf = []
    scope = dict(cache)
    scope.update({params[0]: me, params[1]: pf, params[2]: name, params[3]: ops})
    ev = Evaluator({})
    ev.env = scope
    try:
        for st in ac.body:
            ev.exec_stmts([st], scope)
            if 'mnemo_mode' in me.__dict__.get('_attrs', {}):
                return 'ok', pf, me.mnemo_mode
    except PyRaise as e:
        return 'raises', e.exc_name, None
    except NotConst as e:
        raise AnalysisError('asm_candidates is outside the evaluable subset before the operand size is decided (%s): %s' % (name, e))
    raise AnalysisError('asm_candidates never sets self.mnemo_mode on %s' % name)


def fixed_reg_mode_rule(ctx, R3, X=None):
    """The operand-size detection loop of asm_candidates, evaluated on the operand lists of every row with a fixed 16-bit register operand
    (the dx port of in/out), as the Intel parser delivers them and as the AT&T parser does (register operands carry a 'txt' key): shared by C02 and C19."""
    from ..consteval import Evaluator as _Ev3, Obj as _Obj3, NotConst as _NC3
    X = X or x86model(ctx)
    arch, E = X.arch, X.env
    ac = arch.method('x86_mn', 'asm_candidates')
    det = ac        # (reports point at the method: where the vote is taken - in its body or in a helper - is not read)
    afs_ = X.afs
    fixed16 = [k for k in ('r_dx',) if isinstance(E.get(k), dict) and E[k].get(afs_.size) == afs_.u16]
    n_fixed = 0
    seen_rows = set()
    for row, opc, nm in X.variants:
        for fk in fixed16:
            if E[fk] not in list(row.rm) or E['r_eax'] not in list(row.rm) or row.idx in seen_rows:
                continue
            seen_rows.add(row.idx)
            for acc_size in (afs_.u08, afs_.u16, afs_.u32):
                for parser in ('intel', 'att'):
                    acc = {0: 1, afs_.ad: False, afs_.size: acc_size}
                    ops = [dict(E[fk]) if d == E[fk] else dict(acc) for d in row.rm if d in (E[fk], E['r_eax'])]
                    if parser == 'att':
                        for o_ in ops:
                            o_['txt'] = 'reg'          # the memo ia32_att.p_register_* leaves on a register operand
                    st_, pf_, mode_ = mode_decision(X, row.name, ops)
                    if st_ != 'ok':
                        R3.violation('mode-detection:%s:%s:%s:raises' % (row.name, acc_size, parser), 'mode:detect:raises:%s' % row.name, 'asm_candidates raises %s on %s before the operand size is decided'
                                     % (pf_, row.name), where(arch, det))
                        continue
                    got = mode_ or afs_.u32
                    want = afs_.u16 if acc_size == afs_.u16 else afs_.u32
                    inst = 'mode-detection:%s:%s:%s:%s' % (row.name, ' '.join('%02X' % b for b in row.opc), acc_size, parser)
                    n_fixed += 1
                    if got == want:
                        R3.ok(inst, sample='%s with a %s accumulator and the fixed register %s (%s operands): mode %s' % (row.name, acc_size, fk[2:], parser, got))
                    else:
                        R3.violation(inst, 'mode:detect:fixed-reg:%s:%s:%s' % (row.name, acc_size, parser), 'the fixed 16-bit register %s of `%s` selects the 16-bit operand size although the data '
                                     'operand is %s (operands as the %s parser delivers them): the candidate gets a 0x66 prefix' % (fk[2:], row.name, acc_size, parser), where(arch, det),
                                     witness="asm('in al, dx') == [66 ec]" if parser == 'intel' else "asm_att('in %dx, %al') == [66 ec] while asm('in al, dx') == [ec]")
    if n_fixed < 12:
        raise AnalysisError('rows with a fixed 16-bit register operand (in/out dx): %d evaluations, expected at least 12' % n_fixed)


def run(ctx, report):
    X = x86model(ctx)
    arch, E, afs = X.arch, X.env, X.afs
    report.explanation = (
        'D1: every narrowing site of the assembly closure (call of a fixed-width integer class, tab_size2int[..](..), a local alias of it, or a mask '
        '& 0xff/0xffff/0xffffffff on a value that depends on an operand) is classified: literal, 32-bit normalisation of a parsed number/displacement, '
        'range classification inside check_imm_size/imm_to_generic, or guarded -- the narrowed value is the result v of check_imm_size(x, S) in the same '
        'function, `v is None` leads to rejection of the candidate, and the narrowing uses the same size expression S. The byte emission packs with the '
        'struct format keyed by the checked size. D2: the interval tests of check_imm_size are extracted and compared with the width semantics (signed n '
        'bits: [-2^(n-1), 2^(n-1)); unsigned n bits: upper bound exactly 2^n, lower bound 0, -2^(n-1) or -2^n), the returned cast has the width and '
        'signedness of the size token, and struct formats of x86_afs.dict_size / get_im_fmt have the right width and signedness.')
    report.not_decided = 'that forge_opc/asm_candidates select the right table row and operand order for a concrete line; candidate completeness; the 16-bit addressing forms (not in the reverse table).'

    R1 = report.rule('C02.D1', 'no unguarded narrowing of operand values in the assembly closure', floor=8)
    closure = [('x86_mn.asm_candidates', arch.method('x86_mn', 'asm_candidates')), ('x86_mn.asm_all_candidate', arch.method('x86_mn', 'asm_all_candidate')),
               ('x86_mn.arg_set_numpy_imm', arch.method('x86_mn', 'arg_set_numpy_imm')), ('x86_mn.normalize_args', arch.method('x86_mn', 'normalize_args')),
               ('x86_mn.parse_mnemo', arch.method('x86_mn', 'parse_mnemo')), ('x86_mn._asm', arch.method('x86_mn', '_asm')), ('x86_mn._asm_att', arch.method('x86_mn', '_asm_att')),
               ('x86allmncs.forge_opc', arch.method('x86allmncs', 'forge_opc')), ('ad_to_generic', arch.func('ad_to_generic')),
               ('mnemo_from_att', arch.func('mnemo_from_att'))]
    pa = ctx.mod('parse_ad')
    att = ctx.mod('ia32_att')
    for name, fn in sorted(pa.funcs.items()):
        if name.startswith('p_') or name in ('parse_ad', 'dict_add', 'dict_sub', 'dict_mul'):
            closure.append(('parse_ad.' + name, fn))
    for name, fn in sorted(att.funcs.items()):
        if name.startswith('p_') or name in ('parse_args',):
            closure.append(('ia32_att.' + name, fn))
    n_sites = 0
    for q, fn in closure:
        mod_ = pa if q.startswith('parse_ad.') else (att if q.startswith('ia32_att.') else arch)
        # local aliases of narrowing constructors:  t_size = tab_size2int[..]
        aliases = {}
        checked_all = {}  # name -> [(size expr text, assignment)] for  v = check_imm_size(x, S)
        index_names = set()
        for n in walk_no_nested(fn):
            if isinstance(n, ast.Assign) and len(n.targets) == 1 and isinstance(n.targets[0], ast.Name):
                v = n.value
                if isinstance(v, ast.Subscript) and u(v.value) == 'tab_size2int':
                    aliases[n.targets[0].id] = u(v.slice)
                if isinstance(v, ast.Call) and u(v.func) == 'check_imm_size' and len(v.args) == 2:
                    checked_all.setdefault(n.targets[0].id, []).append((u(v.args[1]), n))
                if isinstance(v, ast.Call) and isinstance(v.func, ast.Attribute) and v.func.attr == 'index':
                    index_names.add(n.targets[0].id)
        for n in walk_no_nested(fn):
            site = None
            if isinstance(n, ast.Call):
                f = n.func
                if isinstance(f, ast.Name) and f.id in MODCLASSES and n.args:
                    site = ('class ' + f.id, n.args[0], MODCLASSES[f.id][0], f.id)
                elif isinstance(f, ast.Subscript) and u(f.value) == 'tab_size2int' and n.args:
                    site = ('tab_size2int[%s]' % u(f.slice), n.args[0], None, u(f.slice))
                elif isinstance(f, ast.Name) and f.id in aliases and n.args:
                    site = ('%s (= tab_size2int[%s])' % (f.id, aliases[f.id]), n.args[0], None, aliases[f.id])
            elif isinstance(n, ast.BinOp) and isinstance(n.op, ast.BitAnd):
                for a, b in ((n.left, n.right), (n.right, n.left)):
                    if isinstance(b, ast.Constant) and b.value in MASKS and 'x86_afs.imm' in u(a) and not in_pack(n):
                        site = ('mask 0x%X' % b.value, a, MASKS[b.value], None)
            if site is None:
                continue
            how, arg, width, sizeexpr = site
            n_sites += 1
            st = enclosing_stmt(n)
            inst = '%s:%s' % (q, norm(st)[:100])
            if not operand_derived(arg):
                R1.ok(inst, sample='%s: literal' % inst, nontrivial=False)
                continue
            if isinstance(arg, ast.Name) and arg.id in index_names:
                R1.ok(inst, sample='%s: position in a table (%s)' % (q, u(arg)), nontrivial=False)
                continue
            checked = {}
            for nm, lst in checked_all.items():
                prev = [(sz, a) for sz, a in lst if a.lineno < n.lineno]
                if prev:
                    checked[nm] = max(prev, key=lambda t: t[1].lineno)
            argt = u(arg)
            # (a) 32-bit normalisation of a parsed number / displacement
            if width == 32 or (sizeexpr in ('x86_afs.u32',) and q.endswith('arg_set_numpy_imm') is False and width is None and False):
                R1.ok(inst, sample='%s: 32-bit normalisation (%s)' % (q, how))
                continue
            # (b) narrowed value is the checked v, same size expression, v is None rejects
            ok = False
            if isinstance(arg, ast.Name) and arg.id in checked:
                sz, asn = checked[arg.id]
                rejects = False
                for m in walk_no_nested(fn):
                    if isinstance(m, ast.If) and u(m.test) in ('%s is None' % arg.id, '%s == None' % arg.id) \
                            and any(isinstance(x, (ast.Break, ast.Continue, ast.Return)) for s2 in m.body for x in ast.walk(s2)):
                        rejects = True
                same = (sizeexpr == sz) if sizeexpr is not None else False
                if rejects and same and asn.lineno < n.lineno:
                    ok = True
                    R1.ok(inst, sample='%s: %s(%s) after %s = check_imm_size(.., %s) and `%s is None` rejection' % (q, how, argt, arg.id, sz, arg.id))
                elif rejects and not same:
                    R1.violation(inst, 'narrow:%s:%s' % (q, norm(st)[:80]), '%s narrows %s with %s but the range check was made for size %s' % (q, argt, how, sz), where(mod_, n))
                    ok = True
            if ok:
                continue
            # (c) re-cast of a slot that was filled from a checked value earlier in the same function
            if isinstance(arg, ast.Subscript):
                filled = False
                for m in walk_no_nested(fn):
                    if isinstance(m, ast.Assign) and u(m.targets[0]) == argt and m.lineno < n.lineno and isinstance(m.value, ast.Call) \
                            and m.value.args and isinstance(m.value.args[0], ast.Name) and m.value.args[0].id in checked:
                        filled = True
                if filled and 'modifs[se]' in ' '.join(u(t) for t, p in _conds(n, fn)):
                    R1.ok(inst, sample='%s: re-cast of the already checked sign-extended byte to the operand size (widening)' % q)
                    continue
            # (d) explicit interval guard on the narrowing type's own limit:  if -T.limit//2 <= int(x) < T.limit: x = T(x)
            tname = u(n.func) if isinstance(n, ast.Call) else None
            guarded = False
            if tname:
                for test, pol in _conds(n, fn):
                    if pol and isinstance(test, ast.Compare) and len(test.ops) == 2 and isinstance(test.ops[0], ast.LtE) and isinstance(test.ops[1], ast.Lt):
                        mid = u(test.comparators[0])
                        lo_t = u(test.left).replace(' ', '').replace('(', '').replace(')', '')
                        hi_t = u(test.comparators[1]).replace(' ', '')
                        if mid in (argt, 'int(%s)' % argt) and hi_t == '%s.limit' % tname and lo_t in ('-%s.limit//2' % tname, '-%s.limit/2' % tname, '0'):
                            guarded = True
            if guarded:
                R1.ok(inst, sample='%s: %s(%s) under the interval test -%s.limit/2 <= value < %s.limit' % (q, tname, argt, tname, tname))
                continue
            R1.violation(inst, 'narrow:%s:%s' % (q, norm(st)[:80]),
                         '%s narrows the operand value %s with %s without a range check for that width: a value that does not fit is silently truncated'
                         % (q, argt, how), where(mod_, n),
                         witness="asm('mov ax, 0x12345') -> 66 b8 45 23" if 'asm_all_candidate' in q else ("asm_att('movb $256, %al') -> b0 00" if 'numpy' in q else None))
    report.analysed['narrowing_sites'] = n_sites
    # byte emission: the loop of asm_all_candidate that turns a candidate (prefix, opcode bytes, displacement, immediates) into bytes is evaluated from its source
    emission_rule(R1, X)

    R15 = report.rule('C02.D15', 'the direct-offset rows (A0-A3) are offered for an absolute address only: the accepting branch of asm_candidates evaluated on operands with no register, '
                      'with a register of coefficient 1 / 2 / 4 / 8 and with the merged coefficients 3 / 5 / 9', floor=8)
    moffs_guard_rule(R15, X)
    R17 = report.rule('C02.D17', 'the fsub / fsubr and fdiv / fdivr exchange of AT&T syntax (att_bug_fsub_fdiv evaluated on 8 mnemonics x 7 operand lists): exchanged for the popping forms and for a '
                      'destination %st(i), i != 0, only - `fsub %st(2)` assembles to fsub', floor=50)
    att_fsub_rule(R17, X)
    R16 = report.rule('C02.D16', 'a segment override in `SIZE PTR seg:[..]` is dropped only when every encoding of the address has that segment as its default (p_ptrformula_2 evaluated on segment '
                      'x address shape, ebp / esp as base, as scaled index and beside another unscaled register): the candidates address the segment the line names', floor=100)
    from .c03 import ptrformula_rule
    ptrformula_rule(ctx, R16, X, semantic=True)
    R3 = report.rule('C02.D3', 'one operand-size mode drives the 0x66 prefix, the immediate width and the emitted candidate', floor=4)
    ac = arch.method('x86_mn', 'asm_candidates')
    prefix_guard = None
    for n in walk_no_nested(ac):
        if isinstance(n, ast.If) and any(isinstance(x, ast.Call) and u(x.func) == 'prefix.append' and x.args and isinstance(x.args[0], ast.Constant) and x.args[0].value == 0x66
                                         for s2 in n.body for x in ast.walk(s2) if not isinstance(s2, (ast.If, ast.For))):
            if isinstance(n.test, ast.Compare) and u(n.test.comparators[0]) in ('u16', 'x86_afs.u16'):
                prefix_guard = u(n.test.left)
    if prefix_guard is None:
        raise AnalysisError('asm_candidates: the guard of prefix.append(0x66) was not found')
    R3.ok('prefix-0x66', sample='0x66 is emitted when %s == u16' % prefix_guard)
    n_fmt = 0
    for n in walk_no_nested(ac):
        if isinstance(n, ast.Call) and u(n.func).endswith('get_im_fmt') and len(n.args) == 3:
            n_fmt += 1
            if u(n.args[1]) == prefix_guard:
                R3.ok('get_im_fmt-mode', sample='get_im_fmt(.., %s, ..)' % prefix_guard)
            else:
                R3.violation('get_im_fmt-mode', 'mode:get_im_fmt:%s' % u(n.args[1]), 'the width of an imm/ims immediate is chosen from %s, the 0x66 prefix from %s: in 16-bit operand mode '
                             'the immediate is checked and emitted with the 32-bit width' % (u(n.args[1]), prefix_guard), where(arch, n), witness="asm('mov ax, 0x1234')")
    if n_fmt == 0:
        raise AnalysisError('asm_candidates no longer calls get_im_fmt')
    conv = [n for n in walk_no_nested(ac) if isinstance(n, ast.If) and isinstance(n.test, ast.Compare) and u(n.test.comparators[0]) in ('u32', 'x86_afs.u32')
            and isinstance(n.test.ops[0], ast.NotEq) and any(isinstance(x, ast.Assign) and u(x.targets[0]) == 'dib' for s2 in n.body for x in ast.walk(s2))]
    if not conv:
        R3.violation('fixed-dib-mode', 'mode:fixed-dib', 'fixed-width immediates (u32/s32 rows) are no longer narrowed to 16 bits in 16-bit operand mode', where(arch, ac))
    for n in conv:
        if u(n.test.left) == prefix_guard:
            body = ' ; '.join(norm(x) for x in n.body)
            if 'dib = u16' in body and 'dib = s16' in body:
                R3.ok('fixed-dib-mode', sample='u32->u16 and s32->s16 when %s != u32' % prefix_guard)
            else:
                R3.violation('fixed-dib-mode', 'mode:fixed-dib:body', 'the 16-bit narrowing of fixed-width immediates no longer maps u32->u16 and s32->s16: %s' % body[:100], where(arch, n))
        else:
            R3.violation('fixed-dib-mode', 'mode:fixed-dib:%s' % u(n.test.left), 'fixed-width immediates are narrowed under %s, the prefix is driven by %s' % (u(n.test.left), prefix_guard), where(arch, n))
    outs = [n for n in walk_no_nested(ac) if isinstance(n, ast.Call) and u(n.func) == 'candidate_out.append']
    for n in outs:
        t = n.args[0]
        if isinstance(t, ast.Tuple) and len(t.elts) == 4 and u(t.elts[3]) == prefix_guard:
            R3.ok('candidate-mode', sample='candidate tuple carries %s' % prefix_guard)
        else:
            R3.violation('candidate-mode', 'mode:candidate', 'the candidate tuple no longer carries %s as its operand mode: %s' % (prefix_guard, norm(n)[:80]), where(arch, n))

    # the operand mode is detected from ALL operands: a 32-bit register anywhere wins over a 16-bit operand before or after it (asm_candidates interpreted up to the
    # decision; where the vote is taken - a loop in the body, a helper method - is not read)
    def _g(n_, size_):
        return {n_: 1, afs.size: size_, afs.ad: False}
    for text_, name_, ops_, want_ in (('out dx, eax', 'out', [_g(2, afs.u16), _g(0, afs.u32)], afs.u32), ('movzx eax, bx', 'movzx', [_g(0, afs.u32), _g(3, afs.u16)], afs.u32),
                                      ('out dx, ax', 'out', [_g(2, afs.u16), _g(0, afs.u16)], afs.u16), ('add ax, bx', 'add', [_g(0, afs.u16), _g(3, afs.u16)], afs.u16)):
        st_, pf_, mode_ = mode_decision(X, name_, ops_)
        inst = 'mode-detection:%s' % text_
        if st_ != 'ok':
            R3.violation(inst, 'mode:detect:raises', 'asm_candidates raises %s on `%s` before the operand size is decided' % (pf_, text_), where(arch, ac))
        elif mode_ != want_:
            R3.violation(inst, 'mode:detect:%s' % ('u16-break' if want_ == afs.u32 else 'u16-lost'), '`%s`: the operand-mode detection decides %s; %s' % (
                text_, mode_, 'the 32-bit register decides whatever stands beside it (the instruction gets a 0x66 prefix)' if want_ == afs.u32 else 'both operands are 16 bits wide'),
                where(arch, ac), witness="asm('out dx, eax') == [66 ef]")
        else:
            R3.ok(inst, sample='`%s` -> %s' % (text_, mode_))

    from ..consteval import Evaluator as _Ev3, Obj as _Obj3, Native as _Nat3, NotConst as _NC3
    fixed_reg_mode_rule(ctx, R3, X)

    # MMX/SSE rows never take part in the 16/32-bit operand-mode detection (0x66 is their mandatory prefix)
    cb = None
    for n in walk_no_nested(ac):
        if isinstance(n, ast.For) and u(n.iter) == 'candidate' and any(isinstance(x, ast.Assign) and u(x.targets[0]) == 'can_be_16_32' for s2 in n.body for x in ast.walk(s2)):
            cb = n
    if cb is None:
        raise AnalysisError('asm_candidates: the loop that clears can_be_16_32 was not found')
    for label, mods in (('mmx', {'mmx': True}), ('sd', {'sd': True}), ('wd', {'wd': True}), ('plain', {})):
        cobj = _Obj3('c')
        base = dict((E[k], None) for k in ('w8', 'se', 'sw', 'sd', 'wd', 'mmx', 'sg', 'cr', 'dr'))
        base.update(dict((E[k], v) for k, v in mods.items()))
        cobj.modifs = base
        lg = _Obj3('log')
        lg.debug = _Nat3(lambda *a: None)
        scope = dict(E)
        scope.update({'candidate': [cobj], 'can_be_16_32': True, 'log': lg})
        ev3 = _Ev3({})
        ev3.env = scope
        try:
            ev3.exec_stmts([cb], scope)
        except _NC3 as e:
            raise AnalysisError('asm_candidates: can_be_16_32 loop not evaluable: %s' % e)
        got = scope['can_be_16_32']
        want = (label == 'plain')
        inst = 'mode-detection-applies:%s' % label
        if got == want:
            R3.ok(inst, sample='rows with %s: operand-mode detection %s' % (label, 'applies' if want else 'is skipped'))
        else:
            R3.violation(inst, 'mode:detect:applies:%s' % label, 'the 16/32-bit operand-mode detection %s for rows with the %s attribute: a 16-bit operand then adds a 0x66 prefix, which for MMX/SSE '
                         'rows selects another instruction' % ('runs' if got else 'is skipped', label), where(arch, cb), witness="asm('pinsrw mm0, WORD PTR [eax], 1') == 66 0f c4 00 01 (pinsrw xmm0)")
    # the prefix list accumulates segment and size prefixes: tests on it must be membership tests
    n_pl = 0
    for n in walk_no_nested(ac):
        if isinstance(n, ast.Compare) and u(n.left) == 'prefix' and isinstance(n.ops[0], (ast.Eq, ast.NotEq)) and isinstance(n.comparators[0], ast.List):
            n_pl += 1
            R3.violation('prefix-compare:%s' % norm(n), 'prefix:list-compare:%s' % norm(n), 'asm_candidates compares the whole prefix list with %s; a segment override appended earlier makes the test fail'
                         % u(n.comparators[0]), where(arch, n), witness="asm('movq xmm0, QWORD PTR fs:[eax]') returns only F3 0F 6E (undefined)")
    if n_pl == 0:
        R3.ok('prefix-compare', sample='no comparison of the whole prefix list with a literal list in asm_candidates')
    # MMX/SSE rows with a plain name whose register file depends on the prefix need an assembler special case that adds 0x66
    plain = set()
    for row, opc, nm in X.variants:
        if nm.get(E['mmx']) and '#' not in row.name and not isinstance(row.afs, int):
            plain.add(row.name)
    for nm_ in sorted(plain):
        a0 = X.dis_mmx_modes(nm_, [], False)
        a1 = X.dis_mmx_modes(nm_, [0x66], False)
        inst = 'plain-mmx-row:%s' % nm_
        if a0 == a1 or not isinstance(a0, tuple) or not isinstance(a1, tuple):
            R3.ok(inst, sample='%s: register files do not depend on the prefix' % nm_, nontrivial=False)
            continue
        special = [n for n in walk_no_nested(ac) if isinstance(n, ast.If) and u(n.test) in ("name == '%s'" % nm_,) and
                   any(isinstance(x, ast.Call) and u(x.func) == 'prefix.append' for s2 in n.body for x in ast.walk(s2))]
        if special:
            R3.ok(inst, sample='%s: asm_candidates adds the mandatory prefix in a special case' % nm_)
        else:
            R3.violation(inst, 'plain-mmx:%s' % nm_, 'the decoder distinguishes the mm and xmm forms of %s by the 0x66 prefix, but the row has a plain name (no # suffix scheme) and asm_candidates has no '
                         'special case adding the prefix: the xmm form is assembled as the mm form' % nm_, where(arch, ac), witness="asm('pmovmskb eax, xmm0') == 0f d7 c0")

    R4 = report.rule('C02.D4', 'grammar actions accumulate register coefficients when they merge two parsed operands', floor=2)
    accumulate_rule(R4, att, pa)
    imm_accumulate_rule(R4, att, pa)

    R5 = report.rule('C02.D5', 'the reverse ModRM table maps every operand shape to ModRM/SIB bytes that decode to that shape', floor=1000)
    T = X.modrm_tables()
    fd = T['fd_afs']
    loc_pre = where(arch, arch.method('x86allmncs', 'init_pre_modrm'))

    def strip(d):
        return tuple(sorted(((k, v) for k, v in d.items() if k != 'txt'), key=str))
    tables = {'general': T['db_afs'], 'mm': T['db_afs_mm'], 'xmm': T['db_afs_xmm']}
    n_ent = 0
    for key, lst in fd.items():
        kd = dict(key)
        want = strip(kd)
        for index, j in lst:
            n_ent += 1
            inst = 'fd_afs[%s] -> %02X%s' % (','.join('%s=%s' % kv for kv in want), index, '' if j is None else ' %02X' % j)
            if index & 0x38:
                R5.violation(inst, 'fd_afs:regfield:%s' % ('mm/xmm' if any(isinstance(k, int) and k >= 0x100 for k in kd) or any(isinstance(k, int) and k >= 8 for k in kd) else 'general'),
                             'the reverse table offers ModRM byte %02X, whose reg field is not zero, for the operand %s: forge_opc ORs it over the reg field of the other operand, '
                             'so the candidate encodes a different register' % (index, dict(want)), loc_pre, witness="asm('movq mm1, mm2') contains 0f 6f da (movq mm3, mm2)")
                continue
            hits = []
            for tn, tab in tables.items():
                ent = tab[index]
                if isinstance(ent, list):
                    if j is not None:
                        hits.append(strip(ent[j]))
                elif j is None:
                    hits.append(strip(ent))
            if want in hits:
                R5.ok(inst, sample='%s decodes back to the operand' % inst, nontrivial=(n_ent % 16 == 0))
            else:
                R5.violation(inst, 'fd_afs:mismatch:%02X:%s' % (index, j), 'the reverse table maps the operand %s to ModRM %02X%s, which decodes to %s' % (
                    dict(want), index, '' if j is None else ' SIB %02X' % j, hits), loc_pre)
    # completeness: every decodable shape (reg field 0) is reachable
    for tn, tab in tables.items():
        for index in range(0x100):
            if index & 0x38:
                continue
            ents = [(None, tab[index])] if not isinstance(tab[index], list) else list(enumerate(tab[index]))
            for j, ent in ents:
                k1 = tuple(sorted(ent.items(), key=str))
                k2 = strip(ent)
                if any((index, j) in fd.get(k, []) for k in (k1, k2)):
                    R5.ok('complete:%s:%02X:%s' % (tn, index, j), nontrivial=False)
                else:
                    R5.violation('complete:%s:%02X:%s' % (tn, index, j), 'fd_afs:incomplete:%s:%02X' % (tn, index), 'ModRM %02X%s of the %s table is not listed in the reverse table: '
                                 'the operand it denotes cannot be assembled' % (index, '' if j is None else ' SIB %02X' % j, tn), loc_pre)
    report.analysed['fd_afs_entries'] = n_ent

    R2 = report.rule('C02.D2', 'range table of check_imm_size and struct formats are the width semantics', floor=10)
    range_rule(ctx, R2)


    R6 = report.rule('C02.D6', 'a displacement written before the brackets is assembled with the sign it is written with', floor=4)
    from .c19 import disp_outside_rule
    disp_outside_rule(ctx, R6)

    # ---------------------------------------------------------------- D7 instructions with several immediates take them in the order the decoder emits them
    R7 = report.rule('C02.D7', 'rows with more than one immediate operand: every immediate branch of asm_candidates consumes the operands in decoder order', floor=4)
    IMM_KINDS = [E[k] for k in ('imm', 'ims', 'u08', 's08', 'u16', 's16', 'u32', 's32')]
    multi = [r for r in X.rows if r.afs == E['noafs'] and len([d for d in r.rm if d in IMM_KINDS]) > 1]
    if len(multi) < 3:
        raise AnalysisError('expected the far jmp / far call / enter rows (several immediates), found %d' % len(multi))
    ac = arch.method('x86_mn', 'asm_candidates')
    dib_loops = [n for n in ast.walk(ac) if isinstance(n, ast.For) and u(n.iter) == 'dibs']
    if len(dib_loops) != 1:
        raise AnalysisError('asm_candidates: the loop over dibs was not found')
    branches = []
    cur = [st for st in dib_loops[0].body if isinstance(st, ast.If)][0] if dib_loops[0].body else None
    while isinstance(cur, ast.If):
        t = cur.test
        if isinstance(t, ast.Compare) and u(t.left) == 'dib' and isinstance(t.ops[0], (ast.In, ast.Eq)):
            try:
                kinds = Evaluator(dict(E)).ev(t.comparators[0])
            except NotConst:
                kinds = None
            kinds = kinds if isinstance(kinds, list) else [kinds]
            if any(k in IMM_KINDS for k in kinds if k is not None):
                branches.append((kinds, cur))
        cur = cur.orelse[0] if len(cur.orelse) == 1 else None
    if len(branches) < 2:
        raise AnalysisError('asm_candidates: the immediate branches of the dib dispatch were not found')
    for row in multi:
        for kinds, br in branches:
            for pos, d in enumerate(row.rm):
                if d not in kinds:
                    continue
                # the statements of the branch that choose the operand index
                idx_stmts = [st for st in br.body if (isinstance(st, ast.Assign) and u(st.targets[0]) == 'index_im') or
                             (isinstance(st, ast.If) and any(isinstance(x, ast.Assign) and u(x.targets[0]) == 'index_im' for x in ast.walk(st)))]
                inst = 'row %s %s: dib %s' % (row.name, row.opc, d)
                if not idx_stmts:
                    uses_last = any(isinstance(x, ast.Call) and u(x.func) == 'args_sample.pop' and not x.args for x in ast.walk(br)) or \
                        any(isinstance(x, ast.Subscript) and u(x.value) == 'args_sample' and u(x.slice) == '-1' for x in ast.walk(br))
                    idx = -1 if uses_last else None
                else:
                    scope = dict(E)
                    scope.update({'afs': row.afs, 'dibs': list(row.rm), 'dib': d, 'name': row.name, 'args_sample': [{}, {}]})
                    ev_ = Evaluator(scope)
                    try:
                        ev_.exec_stmts(idx_stmts, scope)
                    except NotConst as e:
                        raise AnalysisError('asm_candidates: operand index of the %s branch not evaluable: %s' % (kinds, e))
                    idx = scope.get('index_im')
                if idx == 0:
                    R7.ok(inst, sample='%s: operand 0 (operands are consumed in decoder order)' % inst)
                else:
                    R7.violation(inst, 'imm-order:%s:%s' % (row.name, d), '%s has the immediates %s, which the decoder emits in that order; the assembler takes operand %s for %s: '
                                 'the operands are encoded exchanged' % (row.name, [x for x in row.rm if x in IMM_KINDS], idx, d), where(arch, br),
                                 witness="asm('jmpf 2, 1') == ea 01 00 00 00 02 00 while dis(ea 02 00 00 00 01 00) prints 'jmpf 2, 1'")

    # ---------------------------------------------------------------- D8 the assembler does not offer (opcode, mandatory prefix) pairs the decoder rejects
    R8 = report.rule('C02.D8', 'every predicate by which _dis rejects an MMX/SSE (opcode, mandatory prefix) pair is applied to the assembler\'s candidates', floor=1)
    dis_ = arch.method('x86_mn', '_dis')
    guards = [n for n in walk_no_nested(dis_) if isinstance(n, ast.If) and u(n.test) == 'm.modifs[mmx]' and any(isinstance(x, ast.Return) and (x.value is None or u(x.value) == 'None') for x in ast.walk(n))]
    preds = set()
    for g in guards:
        for inner in ast.walk(g):
            if isinstance(inner, ast.If) and any(isinstance(x, ast.Return) and (x.value is None or u(x.value) == 'None') for x in inner.body):
                for c_ in ast.walk(inner.test):
                    if isinstance(c_, ast.Call) and isinstance(c_.func, ast.Name) and c_.func.id in arch.funcs:
                        preds.add(c_.func.id)
        for a_ in ast.walk(g):
            if isinstance(a_, ast.Assign) and isinstance(a_.value, ast.Call) and isinstance(a_.value.func, ast.Name) and a_.value.func.id in arch.funcs:
                preds.add(a_.value.func.id)
    if not preds:
        raise AnalysisError('_dis: the MMX/SSE rejection guards call no module-level predicate (expected mmx_set_suffix at least)')
    asm_txt_calls = set(c_.func.id for c_ in ast.walk(ac) if isinstance(c_, ast.Call) and isinstance(c_.func, ast.Name))
    # module-level construction of the name table the assembler starts from
    mod_calls = set()
    for st in arch.tree.body:
        if isinstance(st, (ast.For, ast.Assign)):
            for c_ in ast.walk(st):
                if isinstance(c_, ast.Call) and isinstance(c_.func, ast.Name):
                    mod_calls.add(c_.func.id)
    for pr in sorted(preds):
        inst = 'predicate %s' % pr
        if pr in asm_txt_calls or pr in mod_calls:
            R8.ok(inst, sample='%s is consulted by the decoder and by the assembler (%s)' % (pr, 'asm_candidates' if pr in asm_txt_calls else 'name table'))
        else:
            R8.violation(inst, 'asm-validity:%s' % pr, '_dis rejects (opcode, mandatory prefix) pairs with %s, which the assembler never consults: it offers encodings the '
                         'disassembler reports as no instruction' % pr, where(arch, ac), witness="asm('andss xmm0, xmm1') == f3 0f 54 c1")

    # ---------------------------------------------------------------- D11 segment override of a string operand (shared with C03.D5)
    R11 = report.rule('C02.D11', 'string instructions written with explicit operands: the segment override on the source operand reaches the encoding, wherever that operand stands '
                      '(movs / cmps / lods / outs and the es: destinations; special_opcodes, the elision of __str__ and normalize_args evaluated on family x override)', floor=12)
    from .c03 import string_trip_rule
    string_trip_rule(ctx, R11, X)

    # ---------------------------------------------------------------- D12 far jump / call in AT&T syntax (shared with C09.D8)
    R12 = report.rule('C02.D12', 'AT&T `ljmp $seg, $off` / `lcall $seg, $off`: the operands reach the EA / 9A rows as offset, segment (mnemo_from_att evaluated on the operand list parse_args delivers)', floor=2)
    from .c09 import far_order_rule
    far_order_rule(ctx, R12)

    # ---------------------------------------------------------------- D13 what a line assembles to does not depend on the lines assembled before (shared with C12.D7)
    R13 = report.rule('C02.D13', 'the assembler and the operand parsers edit no table they look up and hand out no cached operand that a caller then completes in place: the candidates of '
                      'a line are those of that line, whatever was assembled before', floor=100)
    from .c12 import shared_table_rule
    shared_table_rule(R13, [ctx.mod('ia32_arch'), ctx.mod('parse_ad'), ctx.mod('ia32_att')])

    # ---------------------------------------------------------------- D10 condition-code spellings
    R10 = report.rule('C02.D10', 'every spelling the assembler accepts for a condition code (cond_list, all aliases of jcc / setcc / cmovcc) is an IA-32 spelling of that very code', floor=16)
    from ..irsets import load_cc_ref
    ccref = load_cc_ref()
    cl = E.get('cond_list')
    if not isinstance(cl, list) or len(cl) != 16:
        raise AnalysisError('ia32_arch.cond_list is not a list of 16 alias lists')
    for code, names in enumerate(cl):
        want = set(ccref[code]['names'])
        inst = 'cond_list[%d]' % code
        wrong = [n_ for n_ in names if n_ not in want]
        if not names:
            R10.violation(inst, 'cond_list:%d:empty' % code, 'condition code %d has no spelling' % code, where(arch, arch.assigns['cond_list'][-1]))
        elif wrong:
            home = [c_ for c_, ent in ccref.items() if wrong[0] in ent['names']]
            R10.violation(inst, 'cond_list:%d:%s' % (code, wrong[0]), 'cond_list[%d] lists %r: j%s / set%s / cmov%s are then assembled with condition code %d (%s); IA-32: %s'
                          % (code, wrong[0], wrong[0], wrong[0], wrong[0], code, '/'.join(sorted(want)), ('code %d' % home[0]) if home else 'no such condition'),
                          where(arch, arch.assigns['cond_list'][-1]), witness="asm('jng 2') == 7c 02 (jl)")
        else:
            R10.ok(inst, sample='cond_list[%d] = %s' % (code, names))

    # ---------------------------------------------------------------- D9 mandatory prefix of names shared by the mm and the xmm form
    R14 = report.rule('C02.D14', 'the operand-size vote of asm_candidates, run from the first statement of the method until it has set the mode, on lines with 16-bit / 32-bit general '
                      'registers, 16-bit memory operands and segment registers (mov Sreg, sldt / str / smsw / lar / lsl): the 0x66 prefix is selected exactly when the general '
                      'register operand is 16 bits wide', floor=20)
    size_vote_rule(ctx, R14, X)

    R9 = report.rule('C02.D9', 'MMX/SSE mnemonics spelled alike for the mm and the xmm form get the 0x66 prefix exactly when an operand is an xmm register, wherever it stands', floor=100)
    mm_if = None
    for n in walk_no_nested(ac):
        if isinstance(n, ast.If) and u(n.test) == 'name in mnemo_mmx_hash':
            mm_if = n
    if mm_if is None:
        raise AnalysisError('asm_candidates: the branch `name in mnemo_mmx_hash` was not found')
    from ..consteval import Evaluator as _Ev9, Obj as _Obj9, Native as _Nat9, NotConst as _NC9
    hash9 = E['mnemo_mmx_hash']
    lg9 = _Obj9('log')
    for k_ in ('debug', 'error', 'info', 'warning'):
        setattr(lg9, k_, _Nat9(lambda *a: None))
    afs9 = X.afs
    shared = sorted(nm for nm, row in hash9.items() if isinstance(nm, str) and [p_ for p_ in range(4) if nm == X.mmx_set_suffix(row, p_)] == [0, 1])
    if len(shared) < 30:
        raise AnalysisError('mnemonics shared by the mm and xmm forms: %d found (paddb, movd, pextrw ... expected)' % len(shared))

    def op9(size):
        return {afs9.ad: False, afs9.size: size, 1: 1}
    shapes = [('xmm,xmm', [op9(afs9.xmm), op9(afs9.xmm)], True), ('xmm,r32', [op9(afs9.xmm), op9(afs9.u32)], True), ('r32,xmm', [op9(afs9.u32), op9(afs9.xmm)], True),
              ('mem,xmm', [{afs9.ad: afs9.u32, afs9.size: afs9.u32, 1: 1}, op9(afs9.xmm)], True), ('r32,xmm,imm', [op9(afs9.u32), op9(afs9.xmm), {afs9.ad: False, afs9.size: afs9.u32, afs9.imm: 3}], True),
              ('mm,mm', [op9(afs9.mm), op9(afs9.mm)], False), ('r32,mm', [op9(afs9.u32), op9(afs9.mm)], False), ('mm,mem', [op9(afs9.mm), {afs9.ad: afs9.u32, afs9.size: afs9.u32, 1: 1}], False)]
    for nm in shared:
        bad = []
        for label, args9, want66 in shapes:
            scope = dict((k_, v_) for k_, v_ in E.items() if isinstance(v_, (str, int, bool, list, tuple, dict)) or v_ is None)
            pf = []
            scope.update({'name': nm, 'args_eval': [dict(a_) for a_ in args9], 'prefix': pf, 'log': lg9, 'x86_afs': afs9, 'mmx_set_suffix': _Nat9(X.mmx_set_suffix)})
            ev9 = _Ev9({})
            ev9.env = scope
            try:
                ev9.exec_stmts(mm_if.body, scope)
            except _NC9 as e:
                raise AnalysisError('asm_candidates: mandatory-prefix selection not evaluable for %s: %s' % (nm, e))
            if (0x66 in pf) != want66:
                bad.append((label, list(pf)))
        inst = 'shared-name:%s' % nm
        if bad:
            R9.violation(inst, 'sse-prefix:%s' % ';'.join(b_[0] for b_ in bad)[:60], 'the assembler gives `%s %s` the prefixes %s: the 0x66 prefix selects the xmm form, so an xmm operand in that position is '
                         'assembled as the mm register of the same number' % (nm, bad[0][0], bad[0][1]), where(arch, mm_if), witness="asm('movd eax, xmm1') == 0f 7e c8 (movd eax, mm1)")
        else:
            R9.ok(inst, sample='%s: 0x66 iff an operand is xmm, on %d operand shapes' % (nm, len(shapes)), nontrivial=(len(R9.nontrivial) < 120))



def size_vote_rule(ctx, R, X, what='vote'):
    """x86_mn.asm_candidates(self, prefix, name, args_eval) is interpreted statement by statement, with the instruction table answered by the row model, until self.mnemo_mode
    is set; the prefix list and the mode are then read.  IA-32: the operand-size prefix belongs to a line whose general register operand is 16 bits wide; a 16-bit memory operand
    of the selector instructions and a segment register decide nothing."""
    from ..consteval import Evaluator, Obj, Native, NotConst, PyRaise, class_obj
    arch, E, afs = X.arch, X.env, X.afs
    ac = arch.method('x86_mn', 'asm_candidates')
    params = [a.arg for a in ac.args.args]
    if len(params) != 4:
        raise AnalysisError('x86_mn.asm_candidates has an unexpected signature: %s' % params)
    log = Obj('log')
    for k_ in ('debug', 'error', 'info', 'warning', 'warn'):
        setattr(log, k_, Native(lambda *a: None))
    base_keys = [E[k] for k in ('w8', 'se', 'sw', 'ww', 'sg', 'dr', 'cr', 'ft', 'w64', 'sd', 'wd', 'bkf', 'spf', 'dtf', 'mmx') if k in E]

    def rows_of(name):
        out = []
        for opc, nm, row in X.lookup.get(name, []):
            c = Obj('row:%s' % name)
            md = dict((k, None) for k in base_keys)
            md.update(nm)
            c.modifs, c.afs, c.name, c.opc, c.rm = md, row.afs, row.name, list(opc), list(row.rm)
            out.append(c)
        return out
    db = Obj('x86mndb')
    db.find_mnemo = Native(rows_of)
    scope0 = dict((k_, v_) for k_, v_ in E.items() if isinstance(v_, (str, int, bool, list, tuple, dict)) or v_ is None)
    for fname_, fnode_ in arch.funcs.items():
        scope0.setdefault(fname_, fnode_)
    scope0.update({'log': log, 'x86_afs': afs, 'x86mndb': db})
    sgbase = E['mask_drcrsg'][E['sg']] if 'mask_drcrsg' in E else 0x400

    def g(n, size):
        return {n: 1, afs.size: size, afs.ad: False}

    def mem(n, size):
        return {n: 1, afs.size: size, afs.ad: size}
    sreg = {sgbase | 3: 1, afs.size: afs.u32, afs.ad: False}
    u16, u32 = afs.u16, afs.u32
    lines = [('mov ax, ds', 'mov', [g(0, u16), sreg], True), ('mov eax, ds', 'mov', [g(0, u32), sreg], False), ('mov WORD PTR [ebx], ds', 'mov', [mem(3, u16), sreg], False),
             ('sldt ax', 'sldt', [g(0, u16)], True), ('sldt eax', 'sldt', [g(0, u32)], False), ('sldt WORD PTR [eax]', 'sldt', [mem(0, u16)], False),
             ('str bx', 'str', [g(3, u16)], True), ('str ebx', 'str', [g(3, u32)], False), ('smsw cx', 'smsw', [g(1, u16)], True), ('smsw WORD PTR [eax]', 'smsw', [mem(0, u16)], False),
             ('lar ax, bx', 'lar', [g(0, u16), g(3, u16)], True), ('lar eax, ebx', 'lar', [g(0, u32), g(3, u32)], False), ('lar ax, WORD PTR [ebx]', 'lar', [g(0, u16), mem(3, u16)], True),
             ('lar eax, WORD PTR [ebx]', 'lar', [g(0, u32), mem(3, u16)], False), ('lsl cx, WORD PTR [ebx]', 'lsl', [g(1, u16), mem(3, u16)], True), ('lsl ecx, ebx', 'lsl', [g(1, u32), g(3, u32)], False),
             ('add ax, bx', 'add', [g(0, u16), g(3, u16)], True), ('add eax, ebx', 'add', [g(0, u32), g(3, u32)], False), ('add WORD PTR [ebx], ax', 'add', [mem(3, u16), g(0, u16)], True),
             ('inc WORD PTR [ebx]', 'inc', [mem(3, u16)], True), ('inc DWORD PTR [ebx]', 'inc', [mem(3, u32)], False), ('movzx eax, bx', 'movzx', [g(0, u32), g(3, u16)], False),
             ('movzx ax, bl', 'movzx', [g(0, u16), g(3, afs.u08)], True), ('out dx, eax', 'out', [g(2, u16), g(0, u32)], False), ('out dx, ax', 'out', [g(2, u16), g(0, u16)], True)]
    if what == 'segm':
        # every memory operand with a segment override contributes its prefix byte and loses the segm key (asm_candidates interpreted up to the operand-size decision)
        pseg = E.get('prefix_seg')
        if not isinstance(pseg, (dict, list, tuple)):
            raise AnalysisError('prefix_seg is not statically evaluable')
        seg_items = list(pseg.items()) if isinstance(pseg, dict) else list(enumerate(pseg))
        n_done = 0
        for sg, byte in seg_items[:6]:
            for text, name, mk in (('inc DWORD PTR seg%s:[edi]' % sg, 'inc', lambda: [dict(mem(7, u32), **{afs.segm: sg})]),
                                   ('mov eax, seg%s:[ebx]' % sg, 'mov', lambda: [g(0, u32), dict(mem(3, u32), **{afs.segm: sg})]),
                                   ('add seg%s:[ebx], ax' % sg, 'add', lambda: [dict(mem(3, u16), **{afs.segm: sg}), g(0, u16)])):
                ops = mk()
                me = class_obj(arch, 'x86_mn', 'self')
                pf = []
                scope = dict(scope0)
                scope.update({params[0]: me, params[1]: pf, params[2]: name, params[3]: ops})
                ev = Evaluator({})
                ev.env = scope
                try:
                    for st in ac.body:
                        ev.exec_stmts([st], scope)
                        if 'mnemo_mode' in me.__dict__.get('_attrs', {}):
                            break
                except PyRaise as e:
                    R.violation('segm[%s]' % text, 'segm-prefix:raises:%s' % name, 'asm_candidates raises %s on `%s`' % (e.exc_name, text), where(arch, ac))
                    continue
                except NotConst as e:
                    raise AnalysisError('asm_candidates is outside the evaluable subset before the operand size is decided (`%s`): %s' % (text, e))
                n_done += 1
                inst = 'segm[%s]' % text
                left = [o for o in ops if afs.segm in o]
                if byte in pf and not left:
                    R.ok(inst, sample='%s: prefixes %s, the operand has lost its segm key' % (text, ['%#x' % b for b in pf]), nontrivial=(n_done % 3 == 1))
                else:
                    R.violation(inst, 'segm-prefix:skipped', '`%s`: asm_candidates collects the prefixes %s and %s: the override does not reach the encoding (or no row matches the operand)'
                                % (text, ['%#x' % b for b in pf], 'leaves the segm key in the operand' if left else 'drops the key'), where(arch, ac), witness="asm('inc DWORD PTR es:[edi]') == []")
        if n_done < 12:
            raise AnalysisError('segment prefix: only %d lines were evaluated' % n_done)
        return
    if what == 'order':
        # C03.D13: the encoding a reference assembler produces puts the segment override in front of the mandatory prefix of an MMX/SSE opcode (26 66 0f d4 00);
        # the prefixes asm_candidates has collected when the operand size is decided must come in that order
        segn = dict((v_, k_) for k_, v_ in enumerate(E['prefix_seg'])) if isinstance(E.get('prefix_seg'), (list, tuple)) else None
        pseg = E.get('prefix_seg')
        if not isinstance(pseg, (dict, list, tuple)):
            raise AnalysisError('prefix_seg is not statically evaluable')
        seg_items = list(pseg.items()) if isinstance(pseg, dict) else list(enumerate(pseg))

        def xr(n):
            return {n: 1, afs.size: afs.xmm, afs.ad: False}

        def xm(n, sg, size=None):
            return {n: 1, afs.size: size or afs.xmm, afs.ad: True, afs.segm: sg}
        cases = []
        for sg, byte in seg_items[:6]:
            for nm, mand in (('paddq', 0x66), ('addsd', 0xF2), ('movdqu', 0xF3), ('movq', 0xF3), ('addpd', 0x66), ('cvttss2si', 0xF3)):
                if nm == 'cvttss2si':
                    ops = [g(1, u32), xm(3, sg, afs.u32)]
                else:
                    ops = [xr(0), xm(3, sg, afs.u64 if nm in ('addsd', 'movq') and hasattr(afs, 'u64') else None)]
                cases.append(('%s xmm0, seg%s:[ebx]' % (nm, sg), nm, ops, (byte, mand)))
        n_done = 0
        for text, name, ops, (byte, mand) in cases:
            me = class_obj(arch, 'x86_mn', 'self')
            pf = []
            scope = dict(scope0)
            scope.update({params[0]: me, params[1]: pf, params[2]: name, params[3]: [dict(o) for o in ops]})
            ev = Evaluator({})
            ev.env = scope
            try:
                for st in ac.body:
                    ev.exec_stmts([st], scope)
                    if 'mnemo_mode' in me.__dict__.get('_attrs', {}):
                        break
            except PyRaise as e:
                R.note('%s: asm_candidates raises %s before the operand size is decided (not judged here)' % (text, e.exc_name))
                continue
            except NotConst as e:
                raise AnalysisError('asm_candidates is outside the evaluable subset before the operand size is decided (`%s`): %s' % (text, e))
            if byte not in pf or mand not in pf:
                R.note('%s: prefixes %s (segment or mandatory prefix not collected at this point; not judged here)' % (text, ['%#x' % b for b in pf]))
                continue
            n_done += 1
            inst = 'prefix-order[%s]' % text
            if pf.index(byte) < pf.index(mand):
                R.ok(inst, sample='%s: prefixes %s' % (text, ['%#x' % b for b in pf]), nontrivial=True)
            else:
                R.violation(inst, 'prefix-order:%s' % name, '`%s`: asm_candidates collects the prefixes %s; the canonical encoding has the segment override %#x in front of the mandatory prefix %#x, so '
                            'the bytes a reference assembler produces are not among the candidates of their own rendering' % (text, ['%#x' % b for b in pf], byte, mand), where(arch, ac),
                            witness="asm(str(dis(2e 66 0f d4 00))) lacks 2e 66 0f d4 00")
        if n_done < 10:
            raise AnalysisError('prefix order: only %d of %d lines collected both prefixes' % (n_done, len(cases)))
        return
    for text, name, ops, want66 in lines:
        if not X.lookup.get(name):
            raise AnalysisError('the row model has no mnemonic %r' % name)
        me = class_obj(arch, 'x86_mn', 'self')
        pf = []
        scope = dict(scope0)
        scope.update({params[0]: me, params[1]: pf, params[2]: name, params[3]: [dict(o) for o in ops]})
        ev = Evaluator({})
        ev.env = scope
        decided = False
        try:
            for st in ac.body:
                ev.exec_stmts([st], scope)
                if 'mnemo_mode' in me.__dict__.get('_attrs', {}):
                    decided = True
                    break
        except PyRaise as e:
            R.violation('vote[%s]' % text, 'size-vote:raises:%s' % name, 'asm_candidates raises %s on `%s` before the operand size is decided' % (e.exc_name, text), where(arch, ac))
            continue
        except NotConst as e:
            raise AnalysisError('asm_candidates is outside the evaluable subset before the operand size is decided (`%s`): %s' % (text, e))
        if not decided:
            raise AnalysisError('asm_candidates never sets self.mnemo_mode on `%s`' % text)
        got66 = 0x66 in pf
        inst = 'vote[%s]' % text
        if got66 == want66:
            R.ok(inst, sample='%s: prefixes %s' % (text, ['%#x' % b for b in pf]))
        else:
            R.violation(inst, 'size-vote:%s:%s' % (name, 'missing-66' if want66 else 'spurious-66'), '`%s`: asm_candidates decides the %s-bit operand size (prefixes %s); the general register '
                        'operand makes it a %s-bit instruction' % (text, '16' if got66 else '32', ['%#x' % b for b in pf], '16' if want66 else '32'), where(arch, ac),
                        witness="asm('sldt ax') == 0f 00 c0 (sldt eax)")


def imm_accumulate_rule(R4, att, pa):
    """Grammar actions that combine two sub-results which can both carry a number (imm) must add the numbers."""
    import re as _re
    for mod_, fns in ((att, att.funcs), (pa, pa.funcs)):
        for name, fn in sorted(fns.items()):
            if not name.startswith('p_') or not fn.args.args or not fn.body or not isinstance(fn.body[0], ast.Expr):
                continue
            doc = fn.body[0].value.value if isinstance(fn.body[0].value, ast.Constant) else ''
            tn = fn.args.args[0].arg
            alias = None
            for st in fn.body:
                if isinstance(st, ast.Assign) and len(st.targets) == 1 and u(st.targets[0]) == '%s[0]' % tn and isinstance(st.value, ast.Subscript) \
                        and u(st.value.value) == tn and isinstance(st.value.slice, ast.Constant):
                    alias = st.value.slice.value
                # t[0][x86_afs.imm] = V   on an aliased sub-result that is an expression / constant (may already hold a number)
                if alias is not None and isinstance(st, ast.Assign) and u(st.targets[0]) == '%s[0][x86_afs.imm]' % tn:
                    syms = doc.split(':', 1)[1].split('|')[0].split() if ':' in doc else []
                    sub = syms[alias - 1] if 0 < alias <= len(syms) else '?'
                    if sub not in ('expression', 'constant', 'formula', 'brackets', 'address'):
                        continue
                    inst = '%s:%s' % (name, norm(st))
                    vt = u(st.value).replace(' ', '')
                    if any(('%s[%d].get(x86_afs.imm,0)' % (tn, k)) in vt for k in (0, alias)) or ('%s[%d][x86_afs.imm]' % (tn, alias)) in vt:
                        R4.ok(inst, sample='%s: %s' % (name, norm(st)[:90]))
                    else:
                        R4.violation(inst, 'imm-overwrite:%s' % name, '%s stores a number into the result aliased from the %s %s[%d] without adding the number that sub-result may already carry: '
                                     'the inner displacement is lost' % (name, sub, tn, alias), where(mod_, st), witness="asm('mov eax, DWORD PTR 4[ebx+8]') addresses [ebx+4]")
                # t[0].update(t[j]) of two constants
                if alias is not None and isinstance(st, ast.Expr) and isinstance(st.value, ast.Call) and u(st.value.func) == '%s[0].update' % tn and st.value.args:
                    other = st.value.args[0]
                    if isinstance(other, ast.Subscript) and u(other.value) == tn and isinstance(other.slice, ast.Constant):
                        syms = doc.split(':', 1)[1].split('|')[0].split() if ':' in doc else []
                        j = other.slice.value
                        a_sym = syms[alias - 1] if 0 < alias <= len(syms) else '?'
                        b_sym = syms[j - 1] if 0 < j <= len(syms) else '?'
                        if a_sym == b_sym == 'constant':
                            inst = '%s:%s' % (name, norm(st))
                            txt = ' '.join(u(x) for x in fn.body).replace(' ', '')
                            if ('%s[%d][x86_afs.imm]+%s[%d][x86_afs.imm]' % (tn, alias, tn, j)) in txt or ('%s[%d][x86_afs.imm]+%s[%d][x86_afs.imm]' % (tn, j, tn, alias)) in txt:
                                R4.ok(inst, sample='%s adds the numbers of both constants before merging' % name)
                            else:
                                R4.violation(inst, 'imm-overwrite:%s' % name, '%s merges two constants with dict.update: the number of the right operand replaces the number of the left one' % name,
                                             where(mod_, st), witness="asm_att('movl $1+2, %eax') loads 2")


def accumulate_rule(R4, att, pa):
    import re as _re
    for mod_, fns in ((att, att.funcs), (pa, pa.funcs)):
        for name, fn in sorted(fns.items()):
            if not name.startswith('p_') or not fn.args.args:
                continue
            tn = fn.args.args[0].arg
            alias = None
            keyvars = {}
            for st in fn.body:
                if isinstance(st, ast.Assign) and len(st.targets) == 1:
                    tg, v = st.targets[0], st.value
                    if u(tg) == '%s[0]' % tn and isinstance(v, ast.Subscript) and u(v.value) == tn and isinstance(v.slice, ast.Constant):
                        alias = v.slice.value
                    elif isinstance(tg, ast.Name):
                        src = set(int(x) for x in _re.findall(r'\b%s\[(\d+)\]' % tn, u(v)))
                        if src:
                            keyvars[tg.id] = src
                    elif alias is not None and isinstance(tg, ast.Subscript) and u(tg.value) == '%s[0]' % tn and isinstance(tg.slice, ast.Name) and tg.slice.id in keyvars:
                        k = tg.slice.id
                        inst = '%s:%s' % (name, norm(st))
                        if keyvars[k] == {alias}:
                            R4.ok(inst, sample='%s: key %s comes from the aliased operand itself (overwrites its own coefficient)' % (name, k), nontrivial=False)
                            continue
                        vt = u(v).replace(' ', '')
                        if ('%s[0].get(%s,0)' % (tn, k)) in vt or ('%s[%d].get(%s,0)' % (tn, alias, k)) in vt:
                            R4.ok(inst, sample='%s: %s' % (name, norm(st)))
                        else:
                            R4.violation(inst, 'accumulate:%s:%s' % (name, k), '%s stores the coefficient of a register parsed from %s[%s] into the operand aliased from %s[%d] without '
                                         'adding the coefficient already there: when both name the same register one of them is lost' % (name, tn, sorted(keyvars[k]), tn, alias),
                                         where(mod_, st), witness="asm_att('leal (%eax,%eax,2), %ebx') encodes [eax*2]")


def _conds(node, fn):
    out = []
    child, p = node, parent(node)
    while p is not None and p is not fn:
        if isinstance(p, ast.If):
            if any(child is s for s in p.body):
                out.append((p.test, True))
            elif any(child is s for s in p.orelse):
                out.append((p.test, False))
        child, p = p, parent(p)
    return out



def emission_rule(R1, X):
    """The emission loop of x86_mn.asm_all_candidate (`for .. in candidate_out:` up to the return) is evaluated from its source on candidates whose displacement and
    immediates have every combination of widths: the bytes are prefix + opcode + each value in little-endian order with exactly the width and signedness of its checked
    size token, back to back (no padding, no reordering), and the recorded symbol offsets are the positions of the values."""
    import struct as _struct
    from ..consteval import Evaluator, Obj, Native, NotConst, PyRaise
    arch, E, afs = X.arch, X.env, X.afs
    aac = arch.method('x86_mn', 'asm_all_candidate')
    loops = [n for n in aac.body if isinstance(n, ast.For) and u(n.iter) == 'candidate_out']
    if len(loops) != 1:
        raise AnalysisError('asm_all_candidate: the emission loop over candidate_out was not found')
    i0 = aac.body.index(loops[0])
    j0 = i0
    while j0 > 0 and isinstance(aac.body[j0 - 1], ast.Assign) and isinstance(aac.body[j0 - 1].value, (ast.List, ast.Dict)):
        j0 -= 1
    rets = [k for k in range(i0 + 1, len(aac.body)) if isinstance(aac.body[k], ast.Return)]
    if not rets:
        raise AnalysisError('asm_all_candidate: no return after the emission loop')
    frag = aac.body[j0:rets[0] + 1]
    st = Obj('struct')
    def _pack(f, *v):
        try:
            return _struct.pack(f, *[int(x) for x in v])
        except _struct.error as e_:
            raise PyRaise('struct.pack(%r, ..): %s' % (f, e_), 'struct.error', e_)
    st.pack = Native(_pack)
    st.calcsize = Native(_struct.calcsize)

    def mk_struct(fmt):
        o = Obj('Struct')
        o.pack = Native(lambda *v: _pack(fmt, *v))
        o.size = _struct.Struct(fmt).size
        o.format = fmt
        return o
    st.Struct = Native(mk_struct)
    log = Obj('log')
    for lv in ('info', 'debug', 'warning', 'error'):
        setattr(log, lv, Native(lambda *a, **k: None))
    W = {'u08': (1, False), 's08': (1, True), 'u16': (2, False), 's16': (2, True), 'u32': (4, False), 's32': (4, True)}
    tok = dict((k, E[k]) for k in W)

    def val(kind, v):
        return {afs.size: tok[kind], afs.imm: v}
    cases = []
    for dk, dv in ((None, None), ('s08', -8), ('u08', 0x88), ('u32', 0x11223344), ('s32', -2), ('u16', 0x1234)):
        for imms in ((), (('u08', 0x7F),), (('s08', -1),), (('u16', 0xBEEF),), (('u32', 0x12345678),), (('s32', -0x1000),), (('u16', 0x20), ('u08', 1)), (('u32', 0x1000), ('u16', 0x23))):
            cases.append((dk, dv, imms))
    n_ok, bad = 0, None
    for pfx, mode_ in (([], afs.u32), ([0x66], afs.u16), ([0x66], 'u16'), ([], 'u32')):
        for dk, dv, imms in cases:
            opc = [0xC7, 0x40]
            cand = (None, None, (list(opc), val(dk, dv) if dk else {}, [val(k_, v_) for k_, v_ in imms]), mode_)
            scope = dict((k, v) for k, v in E.items() if isinstance(v, (str, int, bool, list, tuple, dict)) or v is None)
            scope.update({'x86_afs': afs, 'struct': st, 'log': log, 'hexdump': Native(lambda b: ''), 'candidate_out': [cand], 'prefix': list(pfx)})
            for fname_, fnode_ in arch.funcs.items():
                scope.setdefault(fname_, fnode_)
            loc = {'candidate_out': [cand], 'prefix': list(pfx), 'self': Obj('self')}
            try:
                Evaluator(scope).exec_stmts(frag, loc)
                raise AnalysisError('asm_all_candidate: the emission fragment does not return')
            except PyRaise as e:
                got = 'raises %s' % e.exc_name
            except NotConst as e:
                raise AnalysisError('asm_all_candidate: the emission loop is outside the evaluable subset: %s' % e)
            except Exception as e:
                if type(e).__name__ == '_Return':
                    got = e.v
                else:
                    raise
            want_b = bytes(pfx + opc)
            offs = []
            for k_, v_ in ([(dk, dv)] if dk else []) + list(imms):
                offs.append(len(want_b))
                n_, sg_ = W[k_]
                want_b += int(v_).to_bytes(n_, 'little', signed=sg_)
            desc = 'prefix %s, opcode c7 40, displacement %s, immediates %s' % (pfx, '%s:%#x' % (dk, dv) if dk else 'none', ', '.join('%s:%#x' % i_ for i_ in imms) or 'none')
            ok = isinstance(got, list) and len(got) == 1 and isinstance(got[0], tuple) and bytes(got[0][0]) == want_b and list(got[0][1]) == offs
            if ok:
                n_ok += 1
            elif bad is None:
                shown = got if isinstance(got, str) else ('%s, offsets %s' % (bytes(got[0][0]).hex(), list(got[0][1])) if isinstance(got, list) and got and isinstance(got[0], tuple) else repr(got)[:80])
                bad = (desc, shown, '%s, offsets %s' % (want_b.hex(), offs))
    inst = 'emission: asm_all_candidate'
    if bad:
        R1.violation(inst, 'emission:%s' % ('raises' if bad[1].startswith('raises') else 'bytes'), 'byte emission of a candidate with %s gives %s; the encoding is %s (each value little-endian in the '
                     'width of its checked size, back to back)' % bad, where(arch, loops[0]), witness="asm('mov DWORD PTR [eax+8], 0x12345678')")
    else:
        R1.ok(inst, sample='the emission loop evaluated on %d candidates (6 displacement kinds x 8 immediate lists x 2 operand-size modes): bytes and symbol offsets are exact' % n_ok, nontrivial=True)


def att_fsub_rule(R, X):
    """GNU as keeps a historical quirk (Debian bug 372528): for the non-commutative x87 operations the AT&T mnemonics fsub / fsubr and fdiv / fdivr (and their popping forms) are
    exchanged when the destination is %st(i), i != 0.  `att_bug_fsub_fdiv` is evaluated from its source on the eight mnemonics x the operand lists the parsers deliver (none, one
    register, st / st(i) in both roles, memory): the name is exchanged exactly for the popping forms and for two operands whose destination is not st(0); `fsub %st(2)` stays fsub."""
    from ..consteval import Evaluator, NotConst, PyRaise
    arch, afs = X.arch, X.afs
    fn = arch.funcs.get('att_bug_fsub_fdiv')
    if fn is None:
        raise AnalysisError('ia32_arch.att_bug_fsub_fdiv not found')
    scope = dict((k_, v_) for k_, v_ in X.env.items() if isinstance(v_, (str, int, bool, list, tuple, dict)) or v_ is None)
    scope['x86_afs'] = afs
    for fname_, fnode_ in arch.funcs.items():
        scope.setdefault(fname_, fnode_)
    st = lambda i: {i: 1, afs.ad: False, afs.size: afs.f64}
    mem = {3: 1, afs.ad: afs.f32, afs.size: afs.f32}
    lists = [('no operand', [], None), ('%st(2)', [st(2)], None), ('memory', [dict(mem)], None), ('destination st, source st(2)', [st(0), st(2)], 0), ('destination st(2), source st', [st(2), st(0)], 2),
             ('destination st(1), source st', [st(1), st(0)], 1), ('%st(0)', [st(0)], None)]
    swap = {'fsub': 'fsubr', 'fsubr': 'fsub', 'fdiv': 'fdivr', 'fdivr': 'fdiv', 'fsubp': 'fsubrp', 'fsubrp': 'fsubp', 'fdivp': 'fdivrp', 'fdivrp': 'fdivp'}
    for name in sorted(swap):
        for label, ops, dest in lists:
            want = swap[name] if (name.endswith('p') or (len(ops) == 2 and dest != 0)) else name
            inst = 'att-fsub:%s:%s' % (name, label)
            try:
                got = Evaluator(scope).call_user(fn, [name, [dict(o) for o in ops], 'att_syntax'])
            except PyRaise as e:
                R.violation(inst, 'att-fsub:%s:raises' % name, 'att_bug_fsub_fdiv(%s, %s) raises %s' % (name, label, e.exc_name), where(arch, fn))
                continue
            except NotConst as e:
                raise AnalysisError('att_bug_fsub_fdiv is outside the evaluable subset: %s' % e)
            if got == want:
                R.ok(inst, sample='%s with %s is %s' % (name, label, want), nontrivial=(got != name))
            else:
                R.violation(inst, 'att-fsub:%s:%s' % ('popping' if name.endswith('p') else 'plain', 'one-operand' if len(ops) == 1 else '%d-operands' % len(ops)),
                            'the AT&T mnemonic %s with operands (%s) is taken for %s; GNU as means %s (the exchange applies to the popping forms and to a destination %%st(i), i != 0, only)'
                            % (name, label, got, want), where(arch, fn), witness="asm_att('fsub %st(2)') is d8 e2")


def moffs_guard_rule(R, X):
    """The direct-offset forms (A0-A3, operand kind `mim`) can encode an absolute address only.  The branch of asm_candidates that accepts a candidate for such a row is
    evaluated, from its source, on memory operands: [disp] is accepted with that displacement; an operand that names a register - with the coefficient 1, a scale, or the
    sum of base and index written with one register (3, 5, 9) - is refused (accepting it silently drops the register: `a1 34 12 00 00` for `mov eax, [ecx+ecx*2+0x1234]`)."""
    from ..consteval import Evaluator, Obj, Native, NotConst, PyRaise
    from .. import consteval as _ce
    from .. import simpeval as _SE
    arch, E, afs = X.arch, X.env, X.afs
    ac = arch.method('x86_mn', 'asm_candidates')
    br = [n for n in ast.walk(ac) if isinstance(n, ast.If) and u(n.test).replace(' ', '') in ('dib==mim', 'mim==dib')]
    if len(br) != 1:
        raise AnalysisError('asm_candidates: the branch for the direct-offset operand kind (dib == mim) was not found (%d candidates)' % len(br))
    log = Obj('log')
    for k_ in ('debug', 'error', 'info', 'warning', 'warn'):
        setattr(log, k_, Native(lambda *a: None))
    scope = dict((k_, v_) for k_, v_ in E.items() if isinstance(v_, (str, int, bool, list, tuple, dict)) or v_ is None)
    scope.update(_SE.INT_CLASSES)
    for fname_, fnode_ in arch.funcs.items():
        scope.setdefault(fname_, fnode_)
    scope.update({'log': log, 'x86_afs': afs})
    cases = [('[0x1234]', {afs.ad: afs.u32, afs.size: afs.u32, afs.imm: 0x1234}, True),
             ('[0x1234] (as the AT&T parser delivers it)', {afs.ad: afs.u32, afs.size: afs.u32, afs.imm: 0x1234, 'txt': '0x1234'}, True)]
    for coef in (1, 2, 3, 4, 5, 8, 9):
        cases.append(('[ecx*%d+0x1234]' % coef, {afs.ad: afs.u32, afs.size: afs.u32, afs.imm: 0x1234, 1: coef}, False))
    cases.append(('[ebx+esi+0x10]', {afs.ad: afs.u32, afs.size: afs.u32, afs.imm: 0x10, 3: 1, 6: 1}, False))
    cases.append(('es:[0x1234]', {afs.ad: afs.u32, afs.size: afs.u32, afs.imm: 0x1234, afs.segm: 0}, None))       # the override is a prefix by then: not judged
    for text, opnd, want in cases:
        loc = {'args_sample': [dict(opnd)], 'good_c': True, 'opc_add': [], 'parsed_args': [], 'dib_out': [], 'dib': E.get('mim'), 'self': Obj('self'), 'c': Obj('c')}
        ev = Evaluator({})
        ev.env = dict(scope)
        try:
            ev.exec_stmts(br[0].body, loc)
        except _ce._Break:
            pass
        except PyRaise as e:
            R.violation('moffs[%s]' % text, 'moffs-guard:raises', 'the direct-offset branch of asm_candidates raises %s on %s' % (e.exc_name, text), where(arch, br[0]))
            continue
        except NotConst as e:
            raise AnalysisError('asm_candidates: the direct-offset branch is outside the evaluable subset on %s: %s' % (text, e))
        accepted = bool(loc.get('good_c')) and len(loc['opc_add']) == 1
        inst = 'moffs[%s]' % text
        if want is None:
            R.ok(inst, nontrivial=False)
        elif accepted == want and (not want or int(loc['opc_add'][0].get(afs.imm, -1)) == opnd[afs.imm]):
            R.ok(inst, sample='%s: %s by the direct-offset row' % (text, 'accepted' if want else 'refused'), nontrivial=True)
        elif want:
            R.violation(inst, 'moffs-guard:refuses-absolute', 'the direct-offset row refuses %s (or encodes another offset): the short form of an absolute address is lost' % text, where(arch, br[0]))
        else:
            R.violation(inst, 'moffs-guard:accepts-register', 'the direct-offset row (A0-A3) accepts %s: the candidate encodes the displacement alone and silently drops the register'
                        % text, where(arch, br[0]), witness="asm('mov eax, DWORD PTR [ecx+ecx*2+0x1234]')[0] == a1 34 12 00 00")

MUTANTS = [
    ('moffs-guard-scale-coefficients-only', 'miasmx/arch/ia32_arch.py', "                        if not k in [x86_afs.imm, x86_afs.ad, x86_afs.size, 'txt']:\n                            log.debug(\"mim: cannot encode reg \")",
     "                        if type(k) == int and r[k] in (1, 2, 4, 8):\n                            log.debug(\"mim: cannot encode reg \")", 'C02.D15'),
    ('mem16-widens-registers', 'miasmx/arch/ia32_arch.py', '                    if is_address(a) and a[x86_afs.size] == u16:\n                        a[x86_afs.size] = u32\n                        a[x86_afs.ad] = u32\n', '                    if a[x86_afs.size] == u16:\n                        a[x86_afs.size] = u32\n                        if a[x86_afs.ad]:\n                            a[x86_afs.ad] = u32\n', 'C02.D14'),
    ('condlist-alias-swapped', 'miasmx/arch/ia32_arch.py', '             ["nge","l"],\n             ["nl","ge"],\n             ["ng","le"],', '             ["ng","l"],\n             ["nl","ge"],\n             ["nge","le"],', 'C02.D10'),
    ('in-al-dx-66', 'miasmx/arch/ia32_arch.py', "                if name in ['in', 'out'] and \\\n                        dict([_ for _ in a.items() if _[0] != 'txt']) == r_dx:\n                    # neither does the port register of in/out (always dx)\n                    continue\n", "", 'C02.D3'),
    ('asm-offers-undefined-sse', 'miasmx/arch/ia32_arch.py', "        candidate = [c for c in candidate\n                     if not (c.modifs[mmx] and mmx_undefined_form(c, prefix))]\n", "", 'C02.D8'),
    ('far-imm-last-operand', 'miasmx/arch/ia32_arch.py', "                            [imm, ims, u08, s08, u16, s16, u32, s32]]) > 1:\n                        index_im = 0\n", "                            [imm, ims, u08, s08, u16, s16, u32, s32]]) > 1:\n                        index_im = -1\n", 'C02.D7'),
    ('drop-check', 'miasmx/arch/ia32_arch.py',
     "                    v = check_imm_size(args_sample[index_im][x86_afs.imm], size)\n                    if v is None:\n                        log.debug(\"cannot encode this val in size %s %x!\", size, args_sample[index_im][x86_afs.imm])\n                        good_c= False\n                        break\n",
     "                    v = args_sample[index_im][x86_afs.imm]\n", 'C02.D1'),
    ('s08-bound', 'miasmx/arch/ia32_arch.py', "    elif size == s08 and -0x80 <= j < 0x80:", "    elif size == s08 and -0x80 <= j <= 0x80:", 'C02.D2'),
    ('u16-upper', 'miasmx/arch/ia32_arch.py', "    elif size == u16 and -0x8000 <= i < 0x10000:", "    elif size == u16 and -0x8000 <= i < 0x100000:", 'C02.D2'),
    ('check-other-size', 'miasmx/arch/ia32_arch.py', "                    r[x86_afs.imm] = tab_size2int[t](v)\n", "                    r[x86_afs.imm] = tab_size2int[s08](v)\n", 'C02.D1'),
    ('s16-fmt', 'miasmx/arch/ia32_reg.py', "self.s16:'h',", "self.s16:'H',", 'C02.D2'),
    ('ret-cast', 'miasmx/arch/ia32_arch.py', "    elif size == s16 and -0x8000 <= j < 0x8000:\n        return int16(imm)", "    elif size == s16 and -0x8000 <= j < 0x8000:\n        return uint16(imm)", 'C02.D2'),
    ('pack-mask', 'miasmx/arch/ia32_arch.py', "out_byte+=struct.pack(x86_afs.dict_size[c[x86_afs.size]], int(c[x86_afs.imm]))", "out_byte+=struct.pack(x86_afs.dict_size[c[x86_afs.size]], int(c[x86_afs.imm]) & 0xff)", 'C02.D1'),
    ('imm-mode-admode', 'miasmx/arch/ia32_arch.py', "get_im_fmt(c.modifs, self.mnemo_mode, dib)", "get_im_fmt(c.modifs, self.admode, dib)", 'C02.D3'),
    ('att-unguarded', 'miasmx/arch/ia32_arch.py', "                if -t_size.limit//2 <= int(a[x86_afs.imm]) < t_size.limit:\n                    a[x86_afs.imm] = t_size(a[x86_afs.imm])\n", "                if True:\n                    a[x86_afs.imm] = t_size(a[x86_afs.imm])\n", 'C02.D1'),
    ('att-guard-wide', 'miasmx/arch/ia32_arch.py', "                if -t_size.limit//2 <= int(a[x86_afs.imm]) < t_size.limit:", "                if -t_size.limit//2 <= int(a[x86_afs.imm]) < 2*t_size.limit:", 'C02.D1'),
    ('pack-16-mask', 'miasmx/arch/ia32_arch.py', "                if c[x86_afs.size] in [u08, s08, u16, s16, u32, s32]:\n", "                if mnemo_mode == 'u16' and c[x86_afs.size] in [u32, s32] and not c.get(x86_afs.ad,False):\n                    out_byte+=struct.pack(x86_afs.dict_size[mnemo_mode], int(c[x86_afs.imm]&0xffff))\n                elif c[x86_afs.size] in [u08, s08, u16, s16, u32, s32]:\n", 'C02.D1'),
    ('fixed-dib-no16', 'miasmx/arch/ia32_arch.py', "                        if dib == u32:\n                            dib = u16\n", "                        if dib == u32:\n                            dib = u32\n", 'C02.D3'),
    ('deref3-overwrite', 'miasmx/arch/ia32_att.py', "    t[0][reg] = t[6] + t[0].get(reg, 0)", "    t[0][reg] = t[6]", 'C02.D4'),
    ('deref2-overwrite', 'miasmx/arch/ia32_att.py', "    t[0][reg] = 1 + t[0].get(reg, 0)", "    t[0][reg] = 1", 'C02.D4'),
    ('fd-afs-mm-all-bytes', 'miasmx/arch/ia32_arch.py', "            # the reverse table only lists bytes with an empty reg field\n            if i == i&0xC7:\n                self.fd_afs[ad].append((i, None))", "            self.fd_afs[ad].append((i, None))", 'C02.D5'),
    ('fd-afs-wrong-index', 'miasmx/arch/ia32_arch.py', "                if not (index, None)  in self.fd_afs[ad]:\n                    self.fd_afs[ad].insert(0, (index, None) )\n        for i in range(0x100):", "                if not (index, None)  in self.fd_afs[ad]:\n                    self.fd_afs[ad].insert(0, (index^1, None) )\n        for i in range(0x100):", 'C02.D5'),
    # ('mode-detect-break' retired: with the in/out port exemption a `break` after the first 16-bit operand changes no decision on a valid line - an equivalent mutant that the
    #  old reading of the loop's shape reported; the vote is now decided on values, C02.D3 / D14)
    ('brackets-overwrite', 'miasmx/core/parse_ad.py', "    t[0] = t[3]\n    t[0][x86_afs.imm] = t[0].get(x86_afs.imm, 0) + int(int32(uint32(int(t[1]))))", "    t[0] = t[3]\n    t[0][x86_afs.imm] = int(int32(uint32(int(t[1]))))", 'C02.D4'),
    ('att-const-update', 'miasmx/arch/ia32_att.py', "    if x86_afs.imm in t[1] and x86_afs.imm in t[3]:\n        # both sides carry a number: add them\n        t[3][x86_afs.imm] = t[1][x86_afs.imm] + t[3][x86_afs.imm]\n", "", 'C02.D4'),
    ('mmx-mode-detect', 'miasmx/arch/ia32_arch.py', "            if c.modifs[sd] or c.modifs[wd] or c.modifs[mmx]:\n                can_be_16_32 = False", "            if c.modifs[sd] or c.modifs[wd]:\n                can_be_16_32 = False", 'C02.D3'),
    ('prefix-list-eq', 'miasmx/arch/ia32_arch.py', "if name == 'mov#d#' and 0xF3 in prefix:", "if name == 'mov#d#' and prefix == [0xF3]:", 'C02.D3'),
    ('pmovmskb-noprefix', 'miasmx/arch/ia32_arch.py', "        elif name == 'pmovmskb':\n            # plain row name: the xmm form needs its mandatory prefix\n            if [a for a in args_eval if a[x86_afs.size] == x86_afs.xmm]:\n                prefix.append(0x66)\n", "", 'C02.D3'),
    ('forge-nocheck', 'miasmx/arch/ia32_arch.py', "                v = check_imm_size(a.get(x86_afs.imm, 0), ad[x86_afs.imm])\n                if v is None:\n                    log.debug(\"cannot encode this val in size forge!\")\n                    return None, None\n",
     "                v = tab_size2int[ad[x86_afs.imm]](a.get(x86_afs.imm, 0))\n", 'C02.D1'),
]
