"""C12 -- results depend only on explicit inputs: no state-dependent memo flags on shared nodes, no persistent
default-argument state, no in-place mutation of shared IR nodes, table-owned objects do not escape, parser-table
cache guarded by the grammar signature."""
import ast

from ..core import AnalysisError, where, norm
from ..effects import Freshness, ParamEffects, stores, base_name, mutable_defaults, param_names
from ..shapes import u
from ..srcmodel import walk_no_nested, parent, calls_in

SCOPE = ('expression', 'expr_helper', 'eval_abs', 'emul_helper', 'ia32_sem', 'ia32_arch', 'parse_ad', 'ia32_att', 'bin_stream')
IR_FIELDS = {'arg', 'args', 'op', 'name', 'size', 'segm', 'cond', 'src1', 'src2', 'dst', 'src', 'start', 'stop', 'is_reg'}
# memo flags: value = None (pure function of the node's structure, sound as long as nodes are immutable: D3) or reason it is state dependent
MEMO_FLAGS = {'simp': None, 'is_simp': None,
              'is_eval': 'depends on the machine state the node was evaluated in',
              'is_term': 'depends on the evaluation context that declared the node terminal'}
API_DEFAULT_OMITTED = {('ia32_arch', 'x86_mnemo_metaclass', 'asm'), ('ia32_arch', 'x86_mnemo_metaclass', 'dis'),
                       ('emul_helper', None, 'get_instr_expr')}

API_CLASSES = {('eval_abs', 'eval_abs')}


def all_functions(mod):
    out = []
    for node in ast.walk(mod.tree):
        if isinstance(node, ast.FunctionDef):
            p = parent(node)
            cname = p.name if isinstance(p, ast.ClassDef) else None
            out.append((cname, node))
    return out


def operand_ownership_rule(ctx, R4):
    arch = ctx.mod('ia32_arch')
    dis = arch.method('x86_mn', '_dis')
    helpers = {}
    for hname in ('get_afs', 'get_afs_re'):
        hf = arch.method('x86allmncs', hname)
        hfr = Freshness(hf)
        rets = [n for n in ast.walk(hf) if isinstance(n, ast.Return)]
        pos_fresh = {}
        for r in rets:
            v = r.value
            elts = v.elts if isinstance(v, ast.Tuple) else [v]
            for i, e in enumerate(elts):
                pos_fresh.setdefault(i if isinstance(v, ast.Tuple) else None, []).append(hfr.is_fresh_expr(e) or isinstance(e, ast.Name) and e.id in ('re',))
        helpers[hname] = pos_fresh

    def fresh_call(call, idx):
        f = call.func
        name = f.attr if isinstance(f, ast.Attribute) else (f.id if isinstance(f, ast.Name) else None)
        if name in helpers:
            vals = helpers[name].get(idx)
            return bool(vals) and all(vals)
        return False
    fr = Freshness(dis, fresh_call=fresh_call)
    sinks = []
    for n in walk_no_nested(dis):
        if isinstance(n, ast.Call) and isinstance(n.func, ast.Attribute) and n.func.attr == 'append' \
                and u(n.func.value) in ('mnemo_args', 'dib_out') and n.args:
            sinks.append((n, n.args[0]))
        if isinstance(n, ast.Assign) and u(n.targets[0]) == 'mnemo_args' and isinstance(n.value, ast.BinOp):
            for side in (n.value.left, n.value.right):
                if isinstance(side, ast.List):
                    for e in side.elts:
                        sinks.append((n, e))
    for node, val in sinks:
        inst = '_dis:%s' % norm(node)
        if fr.is_fresh_at(val, node if isinstance(node, ast.stmt) else fr._stmt_of(node)):
            R4.ok(inst, sample='%s: operand created in the decoder' % inst)
        else:
            R4.violation(inst, inst, 'the decoder stores %s into the instruction\'s operand list without copying it: the object is owned by the opcode table / module '
                         'and is shared by every instruction decoded from that row' % norm(val), where(arch, node),
                         witness='dis(d3 e0).arg[1] is ia32_arch.r_cl itself: mutating one decoded operand changes later decodes')
    if not sinks:
        raise AnalysisError('no operand sinks found in _dis')



def fresh_result_rule(ctx, R):
    """The list a semantic function returns is extended by its callers (get_instr_expr_args appends the count update of a repeated string instruction,
    lifters concatenate helper results with +=).  A function of ia32_sem that returns a module-level list hands out shared state: the second lifting sees
    what the first one appended.  Every `return` of a module-level function of ia32_sem returns a value built in the call: not a bare module-level name
    bound to a list / dict / set display or constructor."""
    sem = ctx.mod('ia32_sem')
    shared = {}
    for st in sem.tree.body:
        if isinstance(st, ast.Assign) and len(st.targets) == 1 and isinstance(st.targets[0], ast.Name):
            v = st.value
            if isinstance(v, (ast.List, ast.Dict, ast.Set, ast.ListComp, ast.DictComp)) or (isinstance(v, ast.Call) and u(v.func) in ('list', 'dict', 'set')):
                shared[st.targets[0].id] = st
    n = 0
    for fname, fn in sorted(sem.funcs.items()):
        local = set(a.arg for a in fn.args.args)
        for x in walk_no_nested(fn):
            if isinstance(x, (ast.Assign, ast.AugAssign)):
                for tg in (x.targets if isinstance(x, ast.Assign) else [x.target]):
                    if isinstance(tg, ast.Name):
                        local.add(tg.id)
            if isinstance(x, ast.For) and isinstance(x.target, ast.Name):
                local.add(x.target.id)
        for r in walk_no_nested(fn):
            if not (isinstance(r, ast.Return) and r.value is not None):
                continue
            n += 1
            v = r.value
            if isinstance(v, ast.Name) and v.id in shared and v.id not in local:
                R.violation('%s: %s' % (fname, norm(r)), 'shared-result:%s:%s' % (fname, v.id), '%s returns the module-level %s itself: callers extend the list they are given '
                            '(the count update of a repeated string instruction is appended in place), so a later lifting starts from the extended list'
                            % (fname, v.id), where(sem, r), witness='lifting f3 6e twice: the second list assigns ecx twice')
    R.ok('ia32_sem: results are built per call', sample='%d return statements of ia32_sem return a value built in the call' % n)


MUT = {'append', 'extend', 'insert', 'reverse', 'sort', 'pop', 'remove', 'update', 'setdefault', 'clear', 'add', 'discard', 'popitem'}


def shared_table_rule(R7, mods):
    """No function mutates in place a module-level object, or a local bound to one (or to an element of one: `regs = pusha_regs[s]; regs.reverse()`)
    without a copy.  Shared by C12.D7 (all API modules) and C04.D16 (the lifter: lifting is a function of the instruction)."""
    def root_name(n):
        while isinstance(n, (ast.Attribute, ast.Subscript)):
            n = n.value
        return n.id if isinstance(n, ast.Name) else None

    def is_alias_expr(v):
        # a name, attribute or element of a module-level object; a slice x[a:b] is a copy
        if isinstance(v, ast.Subscript) and isinstance(v.slice, ast.Slice):
            return False
        return isinstance(v, (ast.Name, ast.Attribute, ast.Subscript))
    # functions that hand out shared storage: a method of a class with a module-level instance (x86mndb = x86allmncs()) returning self.<table> or an
    # element of it, or a function returning (an element of) a module-level object.  A local bound to the result of such a call aliases the table.
    hands_out = {}
    for m in mods:
        glob0 = set()
        inst_classes = set()
        for st in m.tree.body:
            if isinstance(st, ast.Assign):
                glob0.update(t.id for t in st.targets if isinstance(t, ast.Name))
                if isinstance(st.value, ast.Call) and isinstance(st.value.func, ast.Name):
                    inst_classes.add(st.value.func.id)
        for cname, fn in all_functions(m):
            loc0 = set(a.arg for a in fn.args.args) | set(x.id for x in ast.walk(fn) if isinstance(x, ast.Name) and isinstance(x.ctx, ast.Store))
            for r_ in ast.walk(fn):
                if not (isinstance(r_, ast.Return) and r_.value is not None and is_alias_expr(r_.value)) or isinstance(r_.value, ast.Name):
                    continue
                root = root_name(r_.value)
                if (cname in inst_classes and root == 'self' and isinstance(r_.value, (ast.Attribute, ast.Subscript))) or (root in glob0 and root not in loc0):
                    hands_out.setdefault(fn.name, []).append('%s%s returns %s' % ((cname + '.') if cname else '', fn.name, u(r_.value)))
    for common in ('get', 'pop', 'copy', 'keys', 'values', 'items', 'index', '__init__', '__getitem__'):
        hands_out.pop(common, None)

    def shared_call(v):
        if isinstance(v, ast.Call):
            nm = v.func.attr if isinstance(v.func, ast.Attribute) else v.func.id if isinstance(v.func, ast.Name) else None
            if nm in hands_out:
                return hands_out[nm][0]
        return None
    for m in mods:
        glob = set()
        for st in m.tree.body:
            if isinstance(st, ast.Assign):
                glob.update(t.id for t in st.targets if isinstance(t, ast.Name))
            elif isinstance(st, ast.ClassDef):
                glob.add(st.name)
            elif isinstance(st, (ast.Import, ast.ImportFrom)):
                glob.update((a.asname or a.name).split('.')[0] for a in st.names)
        for cname, fn in all_functions(m):
            params = set(a.arg for a in fn.args.args) | set(a.arg for a in fn.args.kwonlyargs)
            binds = {}
            for n in ast.walk(fn):
                if isinstance(n, ast.Assign) and len(n.targets) == 1 and isinstance(n.targets[0], ast.Name):
                    binds.setdefault(n.targets[0].id, []).append(n)
                elif isinstance(n, (ast.For, ast.comprehension)) and isinstance(n.target, ast.Name):
                    binds.setdefault(n.target.id, [])
            localnames = set(binds) | params
            inst = '%s::%s%s' % (m.name, (cname + '.') if cname else '', fn.name)
            bad = False
            for n in ast.walk(fn):
                tgt = what = None
                if isinstance(n, ast.Call) and isinstance(n.func, ast.Attribute) and n.func.attr in MUT:
                    tgt, what = n.func.value, '.%s()' % n.func.attr
                elif isinstance(n, (ast.Assign, ast.AugAssign)):
                    for tg in (n.targets if isinstance(n, ast.Assign) else [n.target]):
                        if isinstance(tg, ast.Subscript):
                            tgt, what = tg.value, 'item assignment'
                    if isinstance(n, ast.AugAssign) and isinstance(n.target, ast.Name) and isinstance(n.op, (ast.Add, ast.BitOr, ast.Mult)) \
                            and isinstance(n.value, (ast.List, ast.ListComp, ast.Dict, ast.Set, ast.Call, ast.Name)):
                        # x += [..] extends the list x is bound to, in place
                        tgt, what = n.target, 'augmented assignment %s' % norm(n)
                elif isinstance(n, ast.Delete):
                    for tg in n.targets:
                        if isinstance(tg, ast.Subscript):
                            tgt, what = tg.value, 'item deletion'
                if tgt is None:
                    continue
                r = root_name(tgt)
                if r is None:
                    continue
                if r in localnames and isinstance(tgt, ast.Name) and r not in params:
                    shared = [b for b in binds.get(r, []) if b.lineno <= n.lineno and is_alias_expr(b.value) and root_name(b.value) in glob
                              and root_name(b.value) not in localnames and _reaches(b, n, binds.get(r, []), fn)]
                    handed = [b for b in binds.get(r, []) if b.lineno <= n.lineno and shared_call(b.value) and _reaches(b, n, binds.get(r, []), fn)]
                    if handed and not shared:
                        bad = True
                        R7.violation(inst, 'shared-table:%s:%s:%s' % (fn.name, u(handed[-1].value.func), what), '%s binds the local %s to the result of %s (%s: the table itself, not a copy) and '
                                     'mutates it in place (%s): every later call sees the changed table' % (fn.name, r, u(handed[-1].value.func), shared_call(handed[-1].value), what), where(m, n))
                    if shared:
                        bad = True
                        R7.violation(inst, 'shared-table:%s:%s:%s' % (fn.name, u(shared[-1].value), what), '%s binds the local %s to the shared table %s and mutates it in place (%s): every '
                                     'later call sees the changed table' % (fn.name, r, u(shared[-1].value), what), where(m, n), witness='lifting popad once makes mov eax, ebx lift to edi = esp'
                                     if fn.name == 'popad' else None)
                elif r in glob and r not in localnames:
                    verdict = _result_cache_verdict(m, fn, r, mods)
                    if verdict == 'sound-cache':
                        # a result cache that stores and hands out copies only: results do not depend on it
                        R7.note('%s fills the module-level cache %s; every object stored in it or handed out of it is a copy, or no caller edits what it gets' % (fn.name, r))
                        continue
                    bad = True
                    if verdict is not None:
                        R7.violation(inst, 'shared-table:%s:%s:cache-hands-out' % (fn.name, r), '%s keeps its results in the module-level cache %s and %s; %s: the next call with the '
                                     'same argument gets the edited object' % (fn.name, r, verdict[0], verdict[1]), where(m, n), witness="asm('cmp al, -2') then asm('cmp eax, -2')")
                    else:
                        R7.violation(inst, 'shared-table:%s:%s:%s' % (fn.name, u(tgt), what), '%s mutates the module-level object %s in place (%s)' % (fn.name, u(tgt), what), where(m, n))
            if not bad:
                R7.ok(inst, nontrivial=(len(R7.nontrivial) < 400))


def _cache_sites(tree):
    """(fn, kind, owner text, key text, miss test, stored value expr, node) for the two memo idioms:
    attribute memo   if <miss test on X.a>: X.a = value          (X a parameter of fn)
    table memo       if K not in T: T[K] = value   /   try: return T[K]  except KeyError: .. T[K] = value    (T a module-level name)"""
    out = []
    for fn in [n for n in ast.walk(tree) if isinstance(n, ast.FunctionDef)]:
        params = set(param_names(fn))
        for n in walk_no_nested(fn):
            if isinstance(n, ast.If):
                tt = u(n.test).replace(' ', '')
                for st in ast.walk(ast.Module(body=n.body, type_ignores=[])):
                    if not (isinstance(st, ast.Assign) and len(st.targets) == 1):
                        continue
                    tg = st.targets[0]
                    if isinstance(tg, ast.Attribute) and isinstance(tg.value, ast.Name) and tg.value.id in params:
                        x_, a_ = tg.value.id, tg.attr
                        miss = ("getattr(%s,'%s',None)isNone" % (x_, a_), '%s.%sisNone' % (x_, a_), "nothasattr(%s,'%s')" % (x_, a_), 'not%s.%s' % (x_, a_),
                                "'%s'notin%s.__dict__" % (a_, x_), "notgetattr(%s,'%s',None)" % (x_, a_))
                        if tt in miss:
                            out.append((fn, 'attribute', x_, x_, n.test, st.value, st))
                    if isinstance(tg, ast.Subscript) and isinstance(tg.value, ast.Name) and tg.value.id not in params:
                        t_, k_ = tg.value.id, u(tg.slice).replace(' ', '')
                        if tt in ('%snotin%s' % (k_, t_), 'not%sin%s' % (k_, t_), 'not(%sin%s)' % (k_, t_), '%s.get(%s)isNone' % (t_, k_)):
                            out.append((fn, 'table', t_, u(tg.slice), n.test, st.value, st))
            # attribute memo read under try:   try: return X.a  except AttributeError: ..   X.a = value
            if isinstance(n, ast.Try) and len(n.body) == 1 and isinstance(n.body[0], ast.Return) and isinstance(n.body[0].value, ast.Attribute) \
                    and isinstance(n.body[0].value.value, ast.Name) and n.body[0].value.value.id in params:
                x_, a_ = n.body[0].value.value.id, n.body[0].value.attr
                for st in walk_no_nested(fn):
                    if isinstance(st, ast.Assign) and getattr(st, 'lineno', 0) > n.lineno:
                        for tg in st.targets:
                            if isinstance(tg, ast.Attribute) and isinstance(tg.value, ast.Name) and tg.value.id == x_ and tg.attr == a_:
                                v_ = st.value
                                # X.a = local = value   (chained assignment): the local carries the value
                                out.append((fn, 'attribute', x_, x_, n.body[0].value, v_, st))
            # table memo kept on the instance:   if K in self.T: return self.T[K]   ..   self.T[K] = value
            if isinstance(n, ast.If) and isinstance(n.test, ast.Compare) and len(n.test.ops) == 1 and isinstance(n.test.ops[0], (ast.In, ast.NotIn)) \
                    and isinstance(n.test.comparators[0], ast.Attribute) and isinstance(n.test.comparators[0].value, ast.Name) and n.test.comparators[0].value.id in params:
                t_, k_ = u(n.test.comparators[0]), u(n.test.left).replace(' ', '')
                hit_ = n.body if isinstance(n.test.ops[0], ast.In) else n.orelse
                if not any(isinstance(r_, ast.Return) and isinstance(r_.value, ast.Subscript) and u(r_.value.value) == t_ and u(r_.value.slice).replace(' ', '') == k_ for r_ in hit_):
                    continue        # the hit branch does not hand out the kept value (a duplicate test that raises, a registry): not a memo
                for st in walk_no_nested(fn):
                    if isinstance(st, ast.Assign) and len(st.targets) == 1 and isinstance(st.targets[0], ast.Subscript) and u(st.targets[0].value) == t_ \
                            and u(st.targets[0].slice).replace(' ', '') == k_:
                        out.append((fn, 'table', t_, u(st.targets[0].slice), n.test, st.value, st))
            if isinstance(n, ast.Try) and len(n.body) == 1 and isinstance(n.body[0], ast.Return) and isinstance(n.body[0].value, ast.Subscript) \
                    and isinstance(n.body[0].value.value, ast.Name) and n.body[0].value.value.id not in params:
                t_, k_ = n.body[0].value.value.id, u(n.body[0].value.slice).replace(' ', '')
                follow = []
                for h in n.handlers:
                    follow += h.body
                blk = parent(n)
                for fld in ('body', 'orelse'):
                    lst = getattr(blk, fld, None)
                    if isinstance(lst, list) and n in lst:
                        follow += lst[lst.index(n) + 1:]
                for st in ast.walk(ast.Module(body=follow, type_ignores=[])):
                    if isinstance(st, ast.Assign) and len(st.targets) == 1 and isinstance(st.targets[0], ast.Subscript) and isinstance(st.targets[0].value, ast.Name) \
                            and st.targets[0].value.id == t_ and u(st.targets[0].slice).replace(' ', '') == k_:
                        out.append((fn, 'table', t_, u(st.targets[0].slice), n.body[0].value, st.value, st))
    return out


def _param_deps(fn, expr, upto):
    """parameters of fn that the expression is computed from, through the simple local assignments of fn that precede `upto`"""
    params = set(param_names(fn))
    local = {}
    for n in walk_no_nested(fn):
        if getattr(n, 'lineno', 0) >= upto.lineno:
            continue
        if isinstance(n, ast.Assign) and len(n.targets) == 1 and isinstance(n.targets[0], (ast.Name, ast.Tuple)):
            names_ = [n.targets[0].id] if isinstance(n.targets[0], ast.Name) else [e_.id for e_ in n.targets[0].elts if isinstance(e_, ast.Name)]
            for nm_ in names_:
                local.setdefault(nm_, []).append(n.value)
                # control dependence: a value assigned under a test (or in a loop over a list) is computed from what the test reads
                p_ = parent(n)
                while p_ is not None and p_ is not fn:
                    if isinstance(p_, (ast.If, ast.While)):
                        local[nm_].append(p_.test)
                    elif isinstance(p_, ast.For):
                        local[nm_].append(p_.iter)
                    p_ = parent(p_)
        if isinstance(n, ast.For) and isinstance(n.target, ast.Name):
            local.setdefault(n.target.id, []).append(n.iter)
    seen, todo, deps = set(), [expr], set()
    while todo:
        e = todo.pop()
        bound = set()
        for x in ast.walk(e):
            if isinstance(x, ast.comprehension):
                bound.update(y.id for y in ast.walk(x.target) if isinstance(y, ast.Name))
            if isinstance(x, ast.Lambda):
                bound.update(a.arg for a in x.args.args)
        for x in ast.walk(e):
            if isinstance(x, ast.Name) and isinstance(x.ctx, ast.Load) and x.id not in bound and x.id not in seen:
                seen.add(x.id)
                if x.id in params and x.id not in local:
                    deps.add(x.id)
                elif x.id in params:
                    deps.add(x.id)
                    todo.extend(local[x.id])
                elif x.id in local:
                    todo.extend(local[x.id])
    return deps


def cache_key_rule(R, mods):
    """A memoised value is computed from the parameters of the function; the place it is kept in is selected by the owner object (attribute memo) or the key (table memo).
    A parameter that feeds the value and is neither the owner, nor part of the key, nor consulted by the miss test makes the second call with another argument return the
    first call's value (shared as C08.D9)."""
    example = ast.parse("def ops(l, segs=()):\n    if getattr(l, 'kept', None) is None:\n        l.kept = [f(x, segs) for x in l.arg]\n    return l.kept\n"
                        "T = {}\ndef tab(a, b):\n    k = a\n    try:\n        return T[k]\n    except KeyError:\n        pass\n    v = g(a, b)\n    T[k] = v\n    return v\n"
                        "def fine(l, segs=()):\n    if l.kept is None:\n        l.kept = [f(x) for x in l.arg]\n    return l.kept\n"
                        "def ground(m, tks):\n    try:\n        return m._g\n    except AttributeError:\n        pass\n    g = True\n    for t in tks:\n        if t in ids(m):\n            g = False\n    m._g = g\n    return g\n"
                        "class K(object):\n    def fmt(self, a, b, im):\n        key = (a, b)\n        if key in self.memo:\n            return self.memo[key]\n        if im == 1:\n            v, w = ('B', 1)\n        else:\n            v, w = ('b', 2)\n"
                        "        self.memo[key] = size(v), v\n        return self.memo[key]\n")
    for _n in ast.walk(example):
        for _c in ast.iter_child_nodes(_n):
            _c._parent = _n
    exs = [(fn.name, sorted(_param_deps(fn, val, st) - _param_deps(fn, ast.parse(key, mode='eval').body, st) - _param_deps(fn, test, st)))
           for fn, kind, owner, key, test, val, st in _cache_sites(example)]
    if sorted(exs) != [('fine', []), ('fmt', ['im']), ('ground', ['tks']), ('ops', ['segs']), ('tab', ['b'])]:
        raise AnalysisError('cache-key rule: the built-in positive examples are no longer recognised: %r' % (exs,))
    n = 0
    for m in mods:
        for fn, kind, owner, key, test, val, st in _cache_sites(m.tree):
            n += 1
            first = param_names(fn)[0] if param_names(fn) else None
            extra = _param_deps(fn, val, st) - _param_deps(fn, ast.parse(key, mode='eval').body, st) - _param_deps(fn, test, st)
            if kind == 'table':
                extra.discard('self' if first == 'self' else None)
            inst = '%s::%s:%s[%s]' % (m.name, fn.name, owner, key if kind == 'table' else u(st.targets[0]))
            if extra:
                R.violation(inst, 'cache-key:%s:%s' % (fn.name, ','.join(sorted(extra))), '%s keeps %s per %s, but the kept value is computed from %s as well: a second call with another %s '
                            'returns the value of the first' % (fn.name, u(st.targets[0]), key, ', '.join(sorted(extra)), sorted(extra)[0]), where(m, st),
                            witness='two calls on one object with different arguments')
            else:
                R.ok(inst, sample='%s: %s is computed from its %s only' % (fn.name, u(st.targets[0]), 'owner' if kind == 'attribute' else 'key'))
    if not n:
        R.ok('no memo idiom', sample='no attribute memo / table memo in the scanned modules (positive examples recognised)')


def _class_level_state(tree):
    """(class, attribute, method, node) for every container created once in a class body that a method changes in place through `self` while __init__ does not give
    each instance its own (`self.x = ...` as a statement of __init__ itself)."""
    out = []
    for cdef in [n for n in ast.walk(tree) if isinstance(n, ast.ClassDef)]:
        shared = {}
        for st in cdef.body:
            if isinstance(st, ast.Assign) and len(st.targets) == 1 and isinstance(st.targets[0], ast.Name):
                v = st.value
                if isinstance(v, (ast.Dict, ast.List, ast.Set)) or (isinstance(v, ast.Call) and u(v.func) in ('dict', 'list', 'set', 'defaultdict', 'collections.defaultdict',
                                                                                                                'OrderedDict', 'collections.OrderedDict')):
                    shared[st.targets[0].id] = st
        if not shared:
            continue
        meths = [st for st in cdef.body if isinstance(st, ast.FunctionDef)]
        own = set()
        for fn in meths:
            if fn.name == '__init__' and fn.args.args:
                sname = fn.args.args[0].arg
                for st in fn.body:
                    if isinstance(st, ast.Assign):
                        for t in st.targets:
                            if isinstance(t, ast.Attribute) and isinstance(t.value, ast.Name) and t.value.id == sname:
                                own.add(t.attr)
        for fn in meths:
            if not fn.args.args or any(u(d) in ('classmethod', 'staticmethod') for d in fn.decorator_list):
                continue
            sname = fn.args.args[0].arg
            for n in walk_no_nested(fn):
                hit = None
                if isinstance(n, (ast.Assign, ast.AugAssign, ast.Delete)):
                    tgts = n.targets if isinstance(n, (ast.Assign, ast.Delete)) else [n.target]
                    for t in tgts:
                        if isinstance(t, ast.Subscript) and isinstance(t.value, ast.Attribute) and isinstance(t.value.value, ast.Name) and t.value.value.id == sname:
                            hit = t.value.attr
                if isinstance(n, ast.Call) and isinstance(n.func, ast.Attribute) and n.func.attr in MUT and isinstance(n.func.value, ast.Attribute) \
                        and isinstance(n.func.value.value, ast.Name) and n.func.value.value.id == sname:
                    hit = n.func.value.attr
                if hit in shared and hit not in own:
                    out.append((cdef, hit, fn, n))
    return out


def class_level_state_rule(R, mods):
    example = ast.parse("class M(object):\n    table = {}\n    names = []\n    own = {}\n    def __init__(self):\n        self.own = {}\n    def look(self, k):\n        if k not in self.table:\n"
                        "            self.table[k] = 1\n        self.own[k] = 2\n        return self.table[k]\n    def reset(self):\n        self.table = {}\n")
    for _n in ast.walk(example):
        for _c in ast.iter_child_nodes(_n):
            _c._parent = _n
    if [(c.name, a, f.name) for c, a, f, _ in _class_level_state(example)] != [('M', 'table', 'look')]:
        raise AnalysisError('class-level state rule: the built-in positive example is no longer recognised')
    n_cls = 0
    for m in mods:
        classes = [n for n in ast.walk(m.tree) if isinstance(n, ast.ClassDef)]
        n_cls += len(classes)
        hits = _class_level_state(m.tree)
        seen = set()
        for cdef, attr, fn, n in hits:
            if (cdef.name, attr) in seen:
                continue
            seen.add((cdef.name, attr))
            R.violation('%s::%s.%s' % (m.name, cdef.name, attr), 'class-level-state:%s.%s' % (cdef.name, attr), '%s.%s is created once, in the class body; %s.%s changes it in place through self and '
                        '__init__ gives an instance no container of its own: every instance (every machine, every parser) reads what another one stored' % (cdef.name, attr, cdef.name, fn.name),
                        where(m, n), witness='two instances; the second reads what the first stored')
        R.ok('%s: class-level containers' % m.name, sample='%s: %d classes, no class-level container is changed in place through self' % (m.name, len(classes)), nontrivial=not hits)
    if not n_cls:
        raise AnalysisError('no class found in the scanned modules')


def state_copy_rule(R, mods):
    """For every class with a copy() method that builds a new instance of the class: the attributes that methods other than __init__ assign (`self.x = ..`, `self.x += ..`)
    or change in place (`self.x[k] = v`, `self.x.append(..)`, `self.x.__setitem__(..)`) are the state of an instance; copy() must set each of them on the new object (or hand it
    to the constructor).  An attribute it forgets keeps its initial value in the copy while the original has moved on (shared with C06.D12 / C07.D14)."""
    MUTS = set(MUT) | {'__setitem__', '__delitem__'}
    n_cls = 0
    for m in mods:
        for cname, cdef in m.classes.items():
            meths = m.methods(cname)
            cp = meths.get('copy')
            if cp is None:
                continue
            news = [n for n in ast.walk(cp) if isinstance(n, ast.Assign) and len(n.targets) == 1 and isinstance(n.targets[0], ast.Name) and isinstance(n.value, ast.Call)
                    and u(n.value.func) in (cname, 'self.__class__', 'type(self)')]
            if not news:
                continue
            n_cls += 1
            new_name = news[0].targets[0].id
            ctor_args = set(u(a) for a in news[0].value.args) | set(u(k.value) for k in news[0].value.keywords)
            state = {}
            for mname, fn in meths.items():
                if mname in ('__init__', 'copy'):
                    continue
                sname = fn.args.args[0].arg if fn.args.args else 'self'
                for n in ast.walk(fn):
                    tgts = []
                    if isinstance(n, ast.Assign):
                        tgts = n.targets
                    elif isinstance(n, ast.AugAssign):
                        tgts = [n.target]
                    for t in tgts:
                        b = t
                        while isinstance(b, ast.Subscript):
                            b = b.value
                        if isinstance(b, ast.Attribute) and isinstance(b.value, ast.Name) and b.value.id == sname:
                            state.setdefault(b.attr, '%s.%s' % (cname, mname))
                    if isinstance(n, ast.Call) and isinstance(n.func, ast.Attribute) and n.func.attr in MUTS and isinstance(n.func.value, ast.Attribute) \
                            and isinstance(n.func.value.value, ast.Name) and n.func.value.value.id == sname:
                        state.setdefault(n.func.value.attr, '%s.%s' % (cname, mname))
            set_on_copy = set()
            inplace = set()
            for mname, fn in meths.items():
                if mname in ('__init__', 'copy'):
                    continue
                sname = fn.args.args[0].arg if fn.args.args else 'self'
                for n in ast.walk(fn):
                    if isinstance(n, ast.Call) and isinstance(n.func, ast.Attribute) and n.func.attr in MUTS and isinstance(n.func.value, ast.Attribute) \
                            and isinstance(n.func.value.value, ast.Name) and n.func.value.value.id == sname:
                        inplace.add(n.func.value.attr)
                    if isinstance(n, (ast.Assign, ast.AugAssign)):
                        for t in (n.targets if isinstance(n, ast.Assign) else [n.target]):
                            if isinstance(t, ast.Subscript) and isinstance(t.value, ast.Attribute) and isinstance(t.value.value, ast.Name) and t.value.value.id == sname:
                                inplace.add(t.value.attr)
            for n in ast.walk(cp):
                if isinstance(n, (ast.Assign, ast.AugAssign)):
                    for t in (n.targets if isinstance(n, ast.Assign) else [n.target]):
                        if isinstance(t, ast.Attribute) and isinstance(t.value, ast.Name) and t.value.id == new_name:
                            set_on_copy.add(t.attr)
                            if isinstance(n, ast.Assign) and t.attr in inplace and u(n.value) == 'self.%s' % t.attr:
                                R.violation('%s.copy:%s:fresh' % (cname, t.attr), 'state-copy-alias:%s:%s' % (cname, t.attr),
                                            '%s.copy() hands the new object the very container self.%s that the methods of the class change in place: a store in the copy is a store in the original'
                                            % (cname, t.attr), where(m, n), witness='p = pool.copy(); p[a] = v; pool[a]')
                if isinstance(n, ast.Call) and isinstance(n.func, ast.Name) and n.func.id == 'setattr' and n.args and isinstance(n.args[0], ast.Name) and n.args[0].id == new_name:
                    set_on_copy.add('*')
                if isinstance(n, ast.Call) and isinstance(n.func, ast.Attribute) and n.func.attr == 'update' and u(n.func.value) == '%s.__dict__' % new_name:
                    set_on_copy.add('*')
            for attr, who in sorted(state.items()):
                inst = '%s.copy:%s' % (cname, attr)
                if '*' in set_on_copy or attr in set_on_copy or any(('self.%s' % attr) in a for a in ctor_args):
                    R.ok(inst, sample='%s.copy carries %s (updated by %s)' % (cname, attr, who))
                else:
                    R.violation(inst, 'state-copy:%s:%s' % (cname, attr), '%s updates self.%s, but %s.copy() builds the new %s without it: the copy keeps the initial value while the original has moved on'
                                % (who, attr, cname, cname), where(m, cp), witness='m2.pool = m.pool.copy(); a read inside a cell stored before the copy')
    if not n_cls:
        raise AnalysisError('no state class with a copy() method found (mpool expected)')


ONE_SHOT = ('map', 'filter', 'zip', 'reversed', 'iter', 'enumerate')


def _oneshot_bindings(tree):
    """module- or class-level names (roots of the assignment targets) bound to, or holding, a one-shot iterator: [(name, node, text)]"""
    out = []

    def holds_iterator(v):
        for x in ast.walk(v):
            if isinstance(x, ast.GeneratorExp):
                return x
            if isinstance(x, ast.Call) and isinstance(x.func, ast.Name) and x.func.id in ONE_SHOT:
                # consumed at once by an enclosing list(..) / tuple(..) / sorted(..) / dict(..) / set(..) / sum / any / all / join: not stored
                return x
        return None

    def consumed(v, it):
        par = {}
        for n in ast.walk(v):
            for ch in ast.iter_child_nodes(n):
                par[id(ch)] = n
        p_ = par.get(id(it))
        while p_ is not None:
            if isinstance(p_, ast.Call) and ((isinstance(p_.func, ast.Name) and p_.func.id in ('list', 'tuple', 'sorted', 'dict', 'set', 'frozenset', 'sum', 'any', 'all', 'max', 'min', 'len'))
                                            or (isinstance(p_.func, ast.Attribute) and p_.func.attr in ('join', 'extend', 'update'))):
                return True
            if isinstance(p_, (ast.ListComp, ast.SetComp, ast.DictComp)):
                return True
            p_ = par.get(id(p_))
        return False
    bodies = [tree.body] + [c.body for c in tree.body if isinstance(c, ast.ClassDef)]
    for body in bodies:
        for st in body:
            if isinstance(st, (ast.Assign, ast.AugAssign)):
                v = st.value
                it = holds_iterator(v)
                if it is None or consumed(v, it):
                    continue
                for tg in (st.targets if isinstance(st, ast.Assign) else [st.target]):
                    r = tg
                    while isinstance(r, (ast.Subscript, ast.Attribute)):
                        r = r.value
                    if isinstance(r, ast.Name):
                        out.append((r.id, st, u(it)[:60]))
    return out


def oneshot_rule(R, mods):
    example = ast.parse("T = {32: [1, 2]}\nT[16] = map(lambda r: r + 1, T[32])\nU = list(map(str, [1]))\ndef f(s):\n    for i, r in enumerate(T[s]):\n        pass\n")
    ex = _oneshot_bindings(example)
    if [n for n, _, _ in ex] != ['T']:
        raise AnalysisError('C12.D15: the built-in positive example is no longer recognised')
    n_found = 0
    for m in mods:
        binds = _oneshot_bindings(m.tree)
        if not binds:
            continue
        used_in = {}
        for fn in [n for n in ast.walk(m.tree) if isinstance(n, ast.FunctionDef)]:
            for x in ast.walk(fn):
                if isinstance(x, ast.Name) and isinstance(x.ctx, ast.Load):
                    used_in.setdefault(x.id, fn)
                if isinstance(x, ast.Attribute):
                    used_in.setdefault(x.attr, fn)
        for name, st, txt in binds:
            n_found += 1
            if name in used_in:
                R.violation('%s::%s' % (m.name, name), 'one-shot-iterator:%s:%s' % (m.name, name), '%s.%s holds the iterator %s, created once when the module is loaded, and %s reads it on every call: '
                            'the first call consumes it, later calls find it empty' % (m.name, name, txt, used_in[name].name), where(m, st), witness='lifting 66 60 (pushaw) twice')
            else:
                R.ok('%s::%s' % (m.name, name), sample='%s.%s holds an iterator no function reads' % (m.name, name))
    if not n_found:
        R.ok('no stored iterator', sample='no module- or class-level table of the API modules holds a one-shot iterator (positive example recognised)')


MEMO_DECORATORS = ('lru_cache', 'cache', 'memoize', 'memoized', 'memoise', 'cached')


def _memoised_functions(mods_or_tree):
    out = {}
    trees = [(getattr(m, 'name', '<example>'), getattr(m, 'tree', m)) for m in mods_or_tree]
    for mname, tree in trees:
        for n in ast.walk(tree):
            if isinstance(n, ast.FunctionDef):
                for d in n.decorator_list:
                    f = d.func if isinstance(d, ast.Call) else d
                    nm = f.attr if isinstance(f, ast.Attribute) else f.id if isinstance(f, ast.Name) else None
                    if nm in MEMO_DECORATORS:
                        out[n.name] = '%s.%s (@%s)' % (mname, n.name, u(f))
            # name = lru_cache(..)(name) / name = memoize(name)
            if isinstance(n, ast.Assign) and len(n.targets) == 1 and isinstance(n.targets[0], ast.Name) and isinstance(n.value, ast.Call) and n.value.args \
                    and isinstance(n.value.args[0], ast.Name) and n.value.args[0].id == n.targets[0].id:
                f = n.value.func.func if isinstance(n.value.func, ast.Call) else n.value.func
                nm = f.attr if isinstance(f, ast.Attribute) else f.id if isinstance(f, ast.Name) else None
                if nm in MEMO_DECORATORS:
                    out[n.targets[0].id] = '%s.%s (= %s(..))' % (mname, n.targets[0].id, u(f))
    return out


def _memo_edits(tree, memo):
    """(function, node, description) for every in-place edit of a cached result inside the functions of `tree`."""
    found = []

    def is_memo_call(v):
        if isinstance(v, ast.Call):
            nm = v.func.attr if isinstance(v.func, ast.Attribute) else v.func.id if isinstance(v.func, ast.Name) else None
            return nm in memo
        return False
    for fn in [n for n in ast.walk(tree) if isinstance(n, ast.FunctionDef)]:
        obj, cont = set(), set()
        changed = True
        while changed:
            changed = False
            for n in ast.walk(fn):
                if isinstance(n, ast.Assign) and len(n.targets) == 1 and isinstance(n.targets[0], ast.Name):
                    t, v = n.targets[0].id, n.value
                    if (is_memo_call(v) or (isinstance(v, ast.Name) and v.id in obj) or (isinstance(v, ast.Subscript) and isinstance(v.value, ast.Name) and v.value.id in cont
                                                                                         and not isinstance(v.slice, ast.Slice))) and t not in obj:
                        obj.add(t)
                        changed = True
                    if ((isinstance(v, (ast.ListComp, ast.List, ast.Tuple)) and any(is_memo_call(x) or (isinstance(x, ast.Name) and x.id in obj) for x in ast.walk(v)))
                            or (isinstance(v, ast.Name) and v.id in cont) or (isinstance(v, ast.Subscript) and isinstance(v.slice, ast.Slice) and isinstance(v.value, ast.Name) and v.value.id in cont)
                            or (isinstance(v, ast.Call) and isinstance(v.func, ast.Name) and v.func.id in ('list', 'tuple', 'sorted', 'reversed') and v.args and isinstance(v.args[0], ast.Name)
                                and v.args[0].id in cont)) and t not in cont:
                        cont.add(t)
                        changed = True
                if isinstance(n, (ast.For, ast.comprehension)) and isinstance(n.target, ast.Name) and isinstance(n.iter, ast.Name) and n.iter.id in cont and n.target.id not in obj:
                    obj.add(n.target.id)
                    changed = True
        if not obj and not cont:
            continue
        for n in ast.walk(fn):
            tgt = what = None
            if isinstance(n, ast.Call) and isinstance(n.func, ast.Attribute) and n.func.attr in MUT:
                tgt, what = n.func.value, '.%s()' % n.func.attr
            elif isinstance(n, (ast.Assign, ast.AugAssign)):
                for tg in (n.targets if isinstance(n, ast.Assign) else [n.target]):
                    if isinstance(tg, (ast.Subscript, ast.Attribute)):
                        tgt, what = tg.value, 'item / attribute assignment'
            elif isinstance(n, ast.Delete):
                for tg in n.targets:
                    if isinstance(tg, ast.Subscript):
                        tgt, what = tg.value, 'item deletion'
            if tgt is None:
                continue
            # the edited object: a cached result itself, or an element of a list of cached results
            if isinstance(tgt, ast.Name) and tgt.id in obj:
                found.append((fn, n, '%s (a cached result): %s' % (tgt.id, what)))
            elif isinstance(tgt, ast.Subscript) and isinstance(tgt.value, ast.Name) and tgt.value.id in cont and not isinstance(tgt.slice, ast.Slice):
                found.append((fn, n, '%s (an element of a list of cached results): %s' % (u(tgt), what)))
    return found


def memoised_results_rule(R, mods):
    # the rule must fire on a small positive example on every run (expected count on the repository is zero)
    example = ast.parse("import functools\n@functools.lru_cache(maxsize=None)\ndef parse(a):\n    return {'k': a}\ndef user(xs):\n    args = [parse(x) for x in xs]\n    args[0]['k'] = 1\n"
                        "def user2(x):\n    d = parse(x)\n    d.update(z=1)\n")
    ex_memo = _memoised_functions([example])
    if len(_memo_edits(example, ex_memo)) != 2:
        raise AnalysisError('C12.D13: the built-in positive example is no longer recognised')
    memo = _memoised_functions(mods)
    if not memo:
        R.ok('no cached function', sample='no function of the API modules is wrapped by a result cache (positive example recognised)')
        return
    for m in mods:
        for fn, n, desc in _memo_edits(m.tree, memo):
            R.violation('%s::%s' % (m.name, fn.name), 'memoised-result-edited:%s:%s' % (fn.name, desc.split(':')[0][:60]), '%s edits %s; the result comes from %s, which returns the same object '
                        'for the same argument: the next call with that argument gets the edited object' % (fn.name, desc, ', '.join(sorted(memo.values()))), where(m, n),
                        witness="asm('inc BYTE PTR [eax]') after asm('prefetcht0 BYTE PTR [eax]')")
    for name, desc in sorted(memo.items()):
        R.ok('cached:%s' % name, sample='%s: callers scanned for edits of its results' % desc)


def _result_cache_verdict(m, fn, name, mods):
    """Is the module-level object `name` a result cache of `fn` -- a dict that starts empty, that only fn touches, by `name[k] = v`, `.clear()`, `.pop(..)` and reads?
    None: not a cache (any mutation of it is shared state).  'sound-cache': what is stored and what is returned are never the same object as a returned / stored one
    (copies: dict(x), list(x), x.copy(), x[:], copy.copy / deepcopy), or no caller of fn edits its result.  Otherwise (how the object escapes, which caller edits it)."""
    init = [st for st in m.tree.body if isinstance(st, ast.Assign) and any(isinstance(t, ast.Name) and t.id == name for t in st.targets)]
    if len(init) != 1 or not (isinstance(init[0].value, ast.Dict) and not init[0].value.keys or (isinstance(init[0].value, ast.Call) and u(init[0].value.func) in ('dict', 'OrderedDict', 'collections.OrderedDict')
                                                                                                  and not init[0].value.args)):
        return None
    users = [f2 for _, f2 in all_functions(m) if any(isinstance(x, ast.Name) and x.id == name for x in ast.walk(f2))]
    if users != [fn]:
        return None
    stored = []
    for n in ast.walk(fn):
        if isinstance(n, ast.Call) and isinstance(n.func, ast.Attribute) and isinstance(n.func.value, ast.Name) and n.func.value.id == name:
            if n.func.attr not in ('clear', 'pop', 'popitem', 'get', 'keys', 'values', 'items', 'setdefault', '__contains__', 'move_to_end'):
                return None
            if n.func.attr == 'setdefault' and len(n.args) == 2:
                stored.append(n.args[1])
        if isinstance(n, ast.Assign):
            for tg in n.targets:
                if isinstance(tg, ast.Subscript) and isinstance(tg.value, ast.Name) and tg.value.id == name:
                    stored.append(n.value)
        if isinstance(n, ast.AugAssign) and isinstance(n.target, ast.Subscript) and isinstance(n.target.value, ast.Name) and n.target.value.id == name:
            return None

    def is_copy(e):
        if isinstance(e, ast.Call):
            f = u(e.func)
            if f in ('dict', 'list', 'tuple', 'set', 'copy.copy', 'copy.deepcopy', 'deepcopy') and e.args:
                return True
            if isinstance(e.func, ast.Attribute) and e.func.attr in ('copy', 'deepcopy'):
                return True
        if isinstance(e, ast.Subscript) and isinstance(e.slice, ast.Slice):
            return True
        if isinstance(e, (ast.Constant, ast.Tuple)):
            return True
        return False
    stored_names = set(e.id for e in stored if isinstance(e, ast.Name))
    escapes = None
    for r_ in [x for x in ast.walk(fn) if isinstance(x, ast.Return) and x.value is not None]:
        v = r_.value
        if isinstance(v, ast.Name) and v.id in stored_names:
            escapes = 'returns the very object it has stored (`%s`) on the path that fills the cache' % u(r_)
        elif isinstance(v, ast.Subscript) and isinstance(v.value, ast.Name) and v.value.id == name and not isinstance(v.slice, ast.Slice):
            escapes = 'returns the cached object itself (`%s`)' % u(r_)
        elif isinstance(v, ast.Call) and isinstance(v.func, ast.Attribute) and isinstance(v.func.value, ast.Name) and v.func.value.id == name and v.func.attr in ('get', 'setdefault', 'pop'):
            escapes = 'returns the cached object itself (`%s`)' % u(r_)
    if any(not is_copy(e) and not isinstance(e, ast.Name) for e in stored):
        pass
    if escapes is None:
        return 'sound-cache'
    memo = {fn.name: '%s.%s (cache %s)' % (m.name, fn.name, name)}
    for m2 in mods:
        eds = _memo_edits(m2.tree, memo)
        if eds:
            f2, n2, desc = eds[0]
            return escapes, '%s.%s edits %s' % (m2.name, f2.name, desc)
    return 'sound-cache'


READONLY_METHODS = ('__str__', 'breakflow', 'splitflow', 'dstflow', 'getdstflow', 'getnextflow', 'is_subcall', 'is_mem')


def readonly_methods_rule(ctx, R):
    """Rendering an instruction and asking for its control-flow metadata are reads: the same decoded object is rendered in Intel and in AT&T syntax, one
    after the other.  In these methods of x86_mn nothing reachable from `self` is changed in place - neither through `self.x...` nor through a local bound
    to `self.x` / an element of it without a copy (`prefix = self.prefix; prefix.remove(p)`).  A slice `self.x[:]`, list(..), dict(..), a comprehension or
    .copy() makes the local the method's own."""
    arch = ctx.mod('ia32_arch')
    meths = arch.methods('x86_mn')
    MUT_ = {'append', 'extend', 'insert', 'reverse', 'sort', 'pop', 'remove', 'update', 'setdefault', 'clear', 'add', 'discard', 'popitem'}

    def self_path(e):
        while isinstance(e, (ast.Attribute, ast.Subscript)):
            if isinstance(e, ast.Subscript) and isinstance(e.slice, ast.Slice):
                return False
            if isinstance(e, ast.Attribute) and isinstance(e.value, ast.Name) and e.value.id == 'self':
                return True
            e = e.value
        return False
    n_m = 0
    for name in READONLY_METHODS:
        fn = meths.get(name)
        if fn is None:
            continue
        n_m += 1
        alias = {}
        for n in walk_no_nested(fn):
            if isinstance(n, ast.Assign) and len(n.targets) == 1 and isinstance(n.targets[0], ast.Name) and self_path(n.value):
                alias.setdefault(n.targets[0].id, n.value)
            if isinstance(n, ast.For) and isinstance(n.target, ast.Name) and self_path(n.iter):
                alias.setdefault(n.target.id, n.iter)
        inst = 'x86_mn.%s is read-only' % name
        bad = False
        for n in walk_no_nested(fn):
            tgt = what = None
            if isinstance(n, ast.Call) and isinstance(n.func, ast.Attribute) and n.func.attr in MUT_:
                tgt, what = n.func.value, '.%s()' % n.func.attr
            elif isinstance(n, (ast.Assign, ast.AugAssign)):
                for tg in (n.targets if isinstance(n, ast.Assign) else [n.target]):
                    if isinstance(tg, (ast.Subscript, ast.Attribute)):
                        tgt, what = tg.value, 'store to %s' % u(tg)
            elif isinstance(n, ast.Delete):
                for tg in n.targets:
                    if isinstance(tg, ast.Subscript):
                        tgt, what = tg.value, 'item deletion'
            if tgt is None:
                continue
            root = tgt
            while isinstance(root, (ast.Attribute, ast.Subscript)):
                root = root.value
            if self_path(tgt) or (isinstance(tgt, ast.Name) and tgt.id == 'self'):
                bad = True
                R.violation(inst, 'readonly:%s:%s:%s' % (name, u(tgt), what), 'x86_mn.%s changes %s in place (%s): a second rendering / query of the same instruction sees another instruction'
                            % (name, u(tgt), what), where(arch, n))
            elif isinstance(root, ast.Name) and root.id in alias:
                bad = True
                R.violation(inst, 'readonly:%s:%s<-%s:%s' % (name, root.id, u(alias[root.id]), what), 'x86_mn.%s binds %s to %s without a copy and changes it in place (%s): the decoded '
                            'instruction itself is changed by rendering it' % (name, root.id, u(alias[root.id]), what), where(arch, n),
                            witness="i = dis(66 0f 6f 00); str(i) is movdqa, the AT&T rendering that follows is movq (the 66 prefix was removed from i.prefix)")
        if not bad:
            R.ok(inst, sample='%s: no store through self or an uncopied alias of it' % inst)
    if n_m < 4:
        raise AnalysisError('x86_mn: only %d of the read-only methods found' % n_m)


def run(ctx, report):
    mods = [ctx.mod(m) for m in SCOPE]
    report.explanation = (
        'E5 ownership/effect rules over %d modules: D1 memo-flag attribute stores (is_eval, is_term) only on nodes created in the same function '
        '(simp is a pure function of structure, accepted under D3); D2 no parameter with a mutable default is both mutated/read as state (directly or '
        'through a callee, interprocedural fixpoint) and omitted by a call site; D3 no store to a field of an IR node that was not created in the same '
        'function; D4 every operand dict the decoder appends to an instruction is created in the decoder (dict(..)/literal/fresh-returning helper), never a '
        'table-owned object; D5 in ply.yacc.yacc the parser built from on-disk tables is returned only under `read_signature == signature`, both '
        'yacc.yacc call sites pass no optimize, signature() folds start/precedence/tokens/every rule docstring, both lex.lex call sites pass neither '
        'optimize nor lextab.' % len(mods))
    report.not_decided = 'whether a leaked state actually changes a later result for a given history (the existence of the channel is decided).'
    PE = ParamEffects(ctx, mods)

    R1 = report.rule('C12.D1', 'state-dependent memo flags are set only on nodes created in the same function', floor=3)
    R3 = report.rule('C12.D3', 'IR nodes are not mutated in place after construction', floor=5)
    n_stores = 0
    for m in mods:
        for cname, fn in all_functions(m):
            fr = None
            q = '%s::%s%s' % (m.name, (cname + '.') if cname else '', fn.name)
            for node, tgt, kind, attr in stores(fn):
                n_stores += 1
                if kind not in ('attr', 'delattr'):
                    continue
                nm, hops = base_name(tgt)
                if nm in ('self', 'cls') and hops == 0:
                    continue
                if attr not in MEMO_FLAGS and attr not in IR_FIELDS:
                    continue
                if m.name in ('ia32_arch', 'parse_ad', 'ia32_att', 'bin_stream') and attr not in MEMO_FLAGS:
                    # these modules have no IR nodes; `.arg`/`.size` there are instruction/lexer attributes
                    continue
                if fr is None:
                    fr = Freshness(fn)
                fresh = fr.is_fresh_at(tgt, node)
                inst = '%s:%s' % (q, norm(node))
                if attr in MEMO_FLAGS:
                    why = MEMO_FLAGS[attr]
                    if why is None:
                        R1.ok(inst, sample='%s: structural memo flag %s' % (inst, attr), nontrivial=False)
                    elif fresh:
                        R1.ok(inst, sample='%s: flag %s set on a node created here' % (inst, attr))
                    else:
                        R1.violation(inst, inst, 'memo flag %s (%s) is set on a node that may be the caller\'s input or a stored binding: %s'
                                     % (attr, why, norm(node)), where(m, node),
                                     witness='machine A evaluates a shared node; machine B then returns it unevaluated' if attr == 'is_eval' else None)
                else:
                    if fresh:
                        R3.ok(inst, sample='%s: field %s of a node created in this function' % (inst, attr))
                    else:
                        R3.violation(inst, inst, 'field %s of an IR node not created in this function is modified in place: %s' % (attr, norm(node)),
                                     where(m, node))
    report.analysed['store_sites_classified'] = n_stores

    R2 = report.rule('C12.D2', 'no persistent default-argument state', floor=5)
    # call sites by function name
    calls_by_name = {}
    for m in mods:
        for n in ast.walk(m.tree):
            if isinstance(n, ast.Call):
                f = n.func
                nm = f.id if isinstance(f, ast.Name) else (f.attr if isinstance(f, ast.Attribute) else None)
                if nm:
                    calls_by_name.setdefault(nm, []).append((m, n))
    for q, (m, cname, fn) in sorted(PE.funcs.items(), key=lambda kv: str(kv[0])):
        for pname, dnode in mutable_defaults(fn):
            inst = '%s::%s%s(%s=%s)' % (m.name, (cname + '.') if cname else '', fn.name, pname, norm(dnode))
            mutated = pname in PE.mut[q]
            read = pname in PE.read[q]
            ps = param_names(fn)
            idx = ps.index(pname) - (1 if cname and ps and ps[0] in ('self', 'cls') else 0)
            omitted = []
            for m2, call in calls_by_name.get(fn.name, []):
                if any(k.arg == pname for k in call.keywords) or any(k.arg is None for k in call.keywords):
                    continue
                if len(call.args) > idx or any(isinstance(a, ast.Starred) for a in call.args):
                    continue
                omitted.append((m2, call))
            # entry points a client calls with the default omitted: the listed ones and every method of the evaluator class
            api = (m.name, cname, fn.name) in API_DEFAULT_OMITTED or (m.name, cname) in API_CLASSES
            if not mutated:
                R2.ok(inst, sample='%s: default never mutated' % inst)
            elif not omitted and not api:
                R2.ok(inst, sample='%s: mutated but every call site passes it' % inst)
            elif not read:
                R2.ok(inst, nontrivial=False)
                R2.note('%s: the shared default is appended to but never read back (grows, cannot influence results)' % inst)
            else:
                site = omitted[0] if omitted else None
                R2.violation(inst, inst, 'parameter %s has a mutable default that is mutated and read as state, and is omitted by %s: '
                             'the object persists across calls and machines' % (pname, ('%s:%d' % (site[0].relpath, site[1].lineno)) if site else 'API callers'),
                             where(m, fn))

    R4 = report.rule('C12.D4', 'table-owned objects do not escape into decoded instructions', floor=8)
    operand_ownership_rule(ctx, R4)

    R5 = report.rule('C12.D5', 'parser-table cache is guarded by the grammar signature', floor=6)
    yacc = ctx.mod('yacc')
    yf = yacc.func('yacc')
    guarded = unguarded = 0
    for r in [n for n in ast.walk(yf) if isinstance(n, ast.Return) and u(n.value) == 'parser']:
        # is it under the table-read branch?
        p = parent(r)
        conds = []
        while p is not None and p is not yf:
            if isinstance(p, ast.If):
                conds.append(u(p.test))
            p = parent(p)
        in_read = any('read_signature' in c for c in conds)
        if in_read:
            t = [c for c in conds if 'read_signature' in c][0]
            if t.replace(' ', '') in ('optimizeorread_signature==signature', 'read_signature==signature', 'optimizeorsignature==read_signature'):
                R5.ok('yacc:return parser under %s' % t, sample='ply.yacc.yacc returns cached tables only if %s' % t)
                guarded += 1
            else:
                R5.violation('yacc:return', 'yacc:guard:%s' % t, 'cached parser tables are returned under `%s`' % t, where(yacc, r))
        else:
            # a return of a parser that was just built is fine; a return before the signature check is not
            sig_line = [n.lineno for n in ast.walk(yf) if isinstance(n, ast.Assign) and u(n.targets[0]) == 'read_signature']
            if sig_line and r.lineno < min(sig_line):
                R5.violation('yacc:return', 'yacc:early-return', 'parser returned before the signature check', where(yacc, r))
                unguarded += 1
    if guarded == 0:
        R5.violation('yacc:return', 'yacc:no-guarded-return', 'no table-cache return guarded by the signature comparison was found', where(yacc, yf))
    # the cached-table read must sit between signature computation and the guard
    sig = None
    for cn in yacc.classes:
        mm = yacc.method(cn, 'signature', required=False)
        if mm is not None:
            sig = mm
    if sig is None:
        raise AnalysisError('ParserReflect.signature not found')
    st = u(sig)
    need = {'start symbol': 'self.start.encode', 'precedence': 'for p in self.prec', 'tokens': "' '.join(self.tokens)", 'rule docstrings': 'for f in self.pfuncs'}
    for what, needle in need.items():
        if needle in st:
            R5.ok('signature:' + what, sample='signature() folds in the %s' % what)
        else:
            R5.violation('signature:' + what, 'signature:' + what, 'grammar signature no longer covers the %s' % what, where(yacc, sig))
    for mname in ('parse_ad', 'ia32_att'):
        gm = ctx.mod(mname)
        ycalls = [n for n in ast.walk(gm.tree) if isinstance(n, ast.Call) and u(n.func) == 'yacc.yacc']
        lcalls = [n for n in ast.walk(gm.tree) if isinstance(n, ast.Call) and u(n.func) == 'lex.lex']
        if len(ycalls) != 1 or len(lcalls) != 1:
            raise AnalysisError('%s: expected one yacc.yacc and one lex.lex call' % mname)
        yk = dict((k.arg, k.value) for k in ycalls[0].keywords)
        if ('optimize' in yk and u(yk['optimize']) not in ('0', 'False')) or len(ycalls[0].args) >= 7:
            R5.violation('%s:yacc.yacc' % mname, '%s:yacc.yacc:optimize' % mname, '%s builds its parser with optimize set: stale on-disk tables are trusted without '
                         'the signature check' % mname, where(gm, ycalls[0]))
        else:
            R5.ok('%s:yacc.yacc' % mname, sample='%s: yacc.yacc(%s)' % (mname, ', '.join('%s=%s' % (k, u(v)) for k, v in yk.items())))
        lk = dict((k.arg, k.value) for k in lcalls[0].keywords)
        if ('optimize' in lk and u(lk['optimize']) not in ('0', 'False')) or 'lextab' in lk and 'optimize' in lk or len(lcalls[0].args) >= 4:
            R5.violation('%s:lex.lex' % mname, '%s:lex.lex:optimize' % mname, '%s builds its lexer from an on-disk lextab' % mname, where(gm, lcalls[0]))
        else:
            R5.ok('%s:lex.lex' % mname, sample='%s: lex.lex(%s) has no on-disk cache' % (mname, ', '.join('%s=%s' % (k, u(v)) for k, v in lk.items())))
    # lex(): reads a lextab only in optimize mode
    lexm = ctx.mod('lex')
    lf = lexm.func('lex')
    reads = [n for n in ast.walk(lf) if isinstance(n, ast.Call) and u(n.func).endswith('.readtab')]
    ok = True
    for r in reads:
        p = parent(r)
        conds = []
        while p is not None and p is not lf:
            if isinstance(p, ast.If):
                conds.append(u(p.test))
            p = parent(p)
        if not any('optimize' in c for c in conds):
            ok = False
    if reads and ok:
        R5.ok('lex:readtab', sample='ply.lex.lex reads a lextab only when optimize is set')
    else:
        R5.violation('lex:readtab', 'lex:readtab', 'ply.lex.lex can read a cached lextab without optimize', where(lexm, lf))

    # ---------------------------------------------------------------- D6 process-global interpreter state is restored on every exit
    R6 = report.rule('C12.D6', 'sys.path / sys.modules changed inside a function are restored on every exit (finally)', floor=1)
    n_glob = 0
    for m in [ctx.mod('yacc'), ctx.mod('lex')] + mods:
        for cname, fn in all_functions(m):
            sets = [n for n in walk_no_nested(fn) if isinstance(n, ast.Assign) and any(u(t) in ('sys.path', 'sys.modules', 'sys.argv') for t in n.targets)]
            if not sets:
                continue
            saves = dict((n.targets[0].id, u(n.value)) for n in walk_no_nested(fn) if isinstance(n, ast.Assign) and len(n.targets) == 1
                         and isinstance(n.targets[0], ast.Name) and u(n.value) in ('sys.path', 'sys.modules', 'sys.argv'))
            for st in sets:
                what = [u(t) for t in st.targets if u(t).startswith('sys.')][0]
                if isinstance(st.value, ast.Name) and saves.get(st.value.id) == what:
                    continue        # this is the restoring assignment
                n_glob += 1
                inst = '%s::%s%s:%s' % (m.name, (cname + '.') if cname else '', fn.name, norm(st))
                # a restoring assignment inside the finalbody of a Try that follows in the same block
                blk = parent(st)
                body = None
                for fld in ('body', 'orelse', 'finalbody'):
                    lst = getattr(blk, fld, None)
                    if isinstance(lst, list) and st in lst:
                        body = lst
                restored = False
                if body is not None:
                    for nxt in body[body.index(st) + 1:]:
                        if isinstance(nxt, ast.Try) and any(isinstance(x, ast.Assign) and any(u(t) == what for t in x.targets) and isinstance(x.value, ast.Name)
                                                              and saves.get(x.value.id) == what for fb in nxt.finalbody for x in ast.walk(fb)):
                            restored = True
                        break       # only the statement that immediately follows may be the protecting try
                if restored:
                    R6.ok(inst, sample='%s: %s replaced, restored in a finally' % (inst, what))
                else:
                    R6.violation(inst, 'global-state:%s:%s:%s' % (m.name, fn.name, what), '%s replaces %s (%s) and restores it only on the normal path: an exception in between '
                                 '(ImportError when no parser table exists yet) leaves the interpreter with the replaced value for every later import'
                                 % (fn.name, what, norm(st)), where(m, st), witness='TMPDIR=<empty dir>: import miasmx.arch.ia32_arch; import json -> ModuleNotFoundError')
    if n_glob == 0:
        R6.ok('no-global-state-change', nontrivial=False)


    # ---------------------------------------------------------------- D7 shared tables are not mutated in place by a call
    R7 = report.rule('C12.D7', 'no function mutates in place a module-level table or a local that aliases one (a later call would see the changed table)', floor=300)
    shared_table_rule(R7, mods)
    # D7, second part: the tables of a module-level instance (x86mndb = x86allmncs()) are filled by __init__ and what it calls; any other method is
    # reached from the API and must not change them (a lookup that inserts leaves state behind for the next call)
    n_shared = 0
    for m in mods:
        classes = dict((st.name, st) for st in m.tree.body if isinstance(st, ast.ClassDef))
        shared_inst = {}
        for st in m.tree.body:
            if isinstance(st, ast.Assign) and isinstance(st.value, ast.Call) and isinstance(st.value.func, ast.Name) and st.value.func.id in classes \
                    and isinstance(st.targets[0], ast.Name):
                shared_inst[st.value.func.id] = st.targets[0].id
        for cname, iname in sorted(shared_inst.items()):
            meths = dict((n.name, n) for n in classes[cname].body if isinstance(n, ast.FunctionDef))
            build, work = set(['__init__']), ['__init__']
            while work:
                mm = work.pop()
                for n in ast.walk(meths.get(mm, ast.Pass())):
                    if isinstance(n, ast.Attribute) and isinstance(n.value, ast.Name) and n.value.id == 'self' and n.attr in meths and n.attr not in build:
                        build.add(n.attr)
                        work.append(n.attr)
            # methods the rest of the program calls on the shared instance (x86mndb.find_mnemo(..)), and what they call
            runtime, work = set(), []
            for m2 in mods:
                for n in ast.walk(m2.tree):
                    if isinstance(n, ast.Attribute) and isinstance(n.value, ast.Name) and n.value.id == iname and n.attr in meths and n.attr not in runtime:
                        runtime.add(n.attr)
                        work.append(n.attr)
            while work:
                mm = work.pop()
                for n in ast.walk(meths[mm]):
                    if isinstance(n, ast.Attribute) and isinstance(n.value, ast.Name) and n.value.id == 'self' and n.attr in meths and n.attr not in runtime:
                        runtime.add(n.attr)
                        work.append(n.attr)
            for mname, fn in sorted(meths.items()):
                if mname in build and mname not in runtime:
                    continue
                n_shared += 1
                inst = '%s::%s.%s (shared instance %s)' % (m.name, cname, mname, iname)
                bad = False
                for n in ast.walk(fn):
                    tgt = what = None
                    if isinstance(n, ast.Call) and isinstance(n.func, ast.Attribute) and n.func.attr in MUT:
                        tgt, what = n.func.value, '.%s()' % n.func.attr
                    elif isinstance(n, (ast.Assign, ast.AugAssign)):
                        for tg in (n.targets if isinstance(n, ast.Assign) else [n.target]):
                            if isinstance(tg, ast.Subscript):
                                tgt, what = tg.value, 'item assignment'
                    elif isinstance(n, ast.Delete):
                        for tg in n.targets:
                            if isinstance(tg, ast.Subscript):
                                tgt, what = tg.value, 'item deletion'
                    if tgt is None:
                        continue
                    r = tgt
                    while isinstance(r, (ast.Attribute, ast.Subscript)) and not (isinstance(r, ast.Attribute) and isinstance(r.value, ast.Name) and r.value.id == 'self'):
                        r = r.value
                    if isinstance(r, ast.Attribute) and isinstance(r.value, ast.Name) and r.value.id == 'self':
                        bad = True
                        R7.violation(inst, 'shared-instance:%s.%s:%s:%s' % (cname, mname, u(tgt), what), '%s.%s changes %s in place (%s); %s is the module-level instance every call shares and '
                                     'this method is not part of its construction: a call leaves state behind for the next one' % (cname, mname, u(tgt), what, iname), where(m, n),
                                     witness="asm('cmovnel eax, ebx') returns [] and adds the key; asm_att('cmovnel %ebx, %eax') then returns [] instead of 0f 45 c3"
                                     if mname == 'find_mnemo' else None)
                if not bad:
                    R7.ok(inst, nontrivial=(len(R7.nontrivial) < 420))
    if n_shared == 0:
        raise AnalysisError('no module-level instance with run-time methods found (x86mndb = x86allmncs() expected)')

    R14 = report.rule('C12.D14', 'a decode that finds no instruction leaves the stream it was given at the offset it had (also at offset 0): repeating the call gives the same answer '
                      '(shared with C10.D4; the restoring entry point is evaluated for a stream at offset 0 and at offset 5)', floor=1)
    from .c10 import dis_rewind_rule
    arch14 = ctx.mod('ia32_arch')
    dis_rewind_rule(ctx, R14, arch14, arch14.method('x86_mn', '_dis'))

    R15 = report.rule('C12.D15', 'no long-lived table holds a one-shot iterator (map / filter / zip / reversed / iter / a generator expression stored at module or class level and read '
                      'inside a function): the first call consumes it, every later call finds it empty', floor=1)
    oneshot_rule(R15, mods)

    R17 = report.rule('C12.D17', 'a memoised value (attribute memo on a parameter, module-level table memo) is computed only from what selects its slot: the owner object, the key, '
                      'or what the miss test consults; no other parameter feeds it', floor=1)
    cache_key_rule(R17, ctx.all_modules())

    R18 = report.rule('C12.D18', 'a container created once in a class body is not changed in place through self by a method unless __init__ gives every instance its own: two machines, '
                      'two parsers, two instructions share no table', floor=5)
    class_level_state_rule(R18, ctx.all_modules())

    R16 = report.rule('C12.D16', 'copy() of a state class carries every attribute its methods update: a copied machine state answers like the state it was copied from', floor=2)
    state_copy_rule(R16, [ctx.mod('eval_abs')])

    R13 = report.rule('C12.D13', 'a function whose results are cached (functools.lru_cache / cache, memoize decorators) hands out the same object for the same argument: no caller edits '
                      'such a result (directly, as element of a list of results, or through a loop variable)', floor=1)
    memoised_results_rule(R13, mods)

    R12 = report.rule('C12.D12', 'a semantic function never returns a module-level list (its callers extend what they are given)', floor=1)
    fresh_result_rule(ctx, R12)

    R11 = report.rule('C12.D11', 'rendering an instruction or asking for its flow metadata does not change the instruction object', floor=4)
    readonly_methods_rule(ctx, R11)

    R10 = report.rule('C12.D10', 'copy() of every node class is a deep copy (the freshness argument of D3 rests on it)', floor=8)
    from .c15 import copy_visit_rule as _cvr
    _cvr(ctx, R10, only='copy')

    # ---------------------------------------------------------------- D8 process-wide loggers are configured once
    R8 = report.rule('C12.D8', 'no function configures a process-wide logger (addHandler / setLevel on logging.getLogger(name)) on every call', floor=1)
    n_sites = 0
    for m in mods:
        for cname, fn in all_functions(m):
            named = set()
            for n in walk_no_nested(fn):
                if isinstance(n, ast.Assign) and len(n.targets) == 1 and isinstance(n.targets[0], ast.Name) and isinstance(n.value, ast.Call) \
                        and u(n.value.func) in ('logging.getLogger', 'getLogger') and n.value.args:
                    named.add(n.targets[0].id)
            if not named:
                continue
            for n in walk_no_nested(fn):
                if isinstance(n, ast.Call) and isinstance(n.func, ast.Attribute) and n.func.attr in ('addHandler', 'setLevel') and isinstance(n.func.value, ast.Name) \
                        and n.func.value.id in named:
                    n_sites += 1
                    guarded = False
                    p_ = parent(n)
                    while p_ is not None and p_ is not fn:
                        if isinstance(p_, ast.If) and ('%s.handlers' % n.func.value.id) in u(p_.test):
                            guarded = True
                        p_ = parent(p_)
                    inst = '%s::%s%s:%s' % (m.name, (cname + '.') if cname else '', fn.name, norm(n))
                    if guarded:
                        R8.ok(inst, sample='%s: only when the logger has no handler yet' % inst)
                    else:
                        R8.violation(inst, 'logger-config:%s:%s' % (fn.name, n.func.attr), '%s%s calls %s on the process-wide logger on every call: each new instance adds a handler '
                                     '(records of every other instance are then written once more) or resets the level the application chose'
                                     % ((cname + '.') if cname else '', fn.name, norm(n)), where(m, n), witness='after eval_abs({}) x 11, one warning of the first machine is printed 11 times')
    if n_sites == 0:
        R8.ok('no function configures a named logger', sample='logger configuration happens at import time only')


    # ---------------------------------------------------------------- D9 state a token rule keeps on a shared lexer is reset per parse
    R9 = report.rule('C12.D9', 'an attribute a token rule updates on a module-level PLY lexer is reset by every function that parses with that lexer', floor=2)
    for mname in ('parse_ad', 'ia32_att'):
        m = ctx.mod(mname)
        lexers = set()
        for st in m.tree.body:
            if isinstance(st, ast.Assign) and len(st.targets) == 1 and isinstance(st.targets[0], ast.Name) and isinstance(st.value, ast.Call) and u(st.value.func) in ('lex.lex', 'lex'):
                lexers.add(st.targets[0].id)
        if not lexers:
            raise AnalysisError('%s: no module-level lexer (lex.lex()) found' % mname)
        kept = {}
        for fname, fn in m.funcs.items():
            if not fname.startswith('t_') or not fn.args.args:
                continue
            tok = fn.args.args[0].arg
            for n in ast.walk(fn):
                tg = n.target if isinstance(n, ast.AugAssign) else (n.targets[0] if isinstance(n, ast.Assign) and len(n.targets) == 1 else None)
                if isinstance(tg, ast.Attribute) and u(tg.value) == '%s.lexer' % tok:
                    kept.setdefault(tg.attr, fname)
        entries = []
        for fname, fn in m.funcs.items():
            for n in walk_no_nested(fn):
                if isinstance(n, ast.Call) and isinstance(n.func, ast.Attribute) and n.func.attr == 'parse':
                    lx = [k_.value.id for k_ in n.keywords if k_.arg == 'lexer' and isinstance(k_.value, ast.Name)]
                    if lx and lx[0] in lexers:
                        entries.append((fname, fn, n, lx[0]))
        if not entries:
            # (a lexer built or cloned per call keeps no state between calls)
            R9.ok('%s: no function parses with a module-level lexer' % mname, sample='%s: the lexer is not shared between calls' % mname)
            continue
        for fname, fn, call, lx in entries:
            for attr, rule_fn in sorted(kept.items()):
                inst = '%s::%s: %s.%s' % (mname, fname, lx, attr)
                reset = [st for st in fn.body if isinstance(st, ast.Assign) and len(st.targets) == 1 and u(st.targets[0]) == '%s.%s' % (lx, attr)
                         and isinstance(st.value, ast.Constant) and st.lineno < call.lineno]
                if reset:
                    R9.ok(inst, sample='%s resets %s.%s before parsing' % (fname, lx, attr))
                else:
                    R9.violation(inst, 'lexer-state:%s:%s:%s' % (mname, fname, attr), '%s updates %s on the lexer it is given; %s parses every line with the module-level lexer %s and '
                                 'never resets it (PLY\'s input() does not): the positions in the error of a later call depend on the lines parsed before'
                                 % (rule_fn, attr, fname, lx), where(m, call), witness="asm('mov eax eax') fails with LexToken(REGISTER,'eax',1,5), after a line holding two newlines with (..,3,5)")
            if not kept:
                R9.ok('%s::%s' % (mname, fname), sample='no token rule keeps state on the lexer')


def _chain(node, fn):
    """[(holder statement, field, index)] from the function body down to the statement containing `node`."""
    out = []
    cur = node
    while cur is not None and cur is not fn:
        p = parent(cur)
        if p is None:
            break
        for fld in ('body', 'orelse', 'finalbody', 'handlers'):
            seq = getattr(p, fld, None)
            if isinstance(seq, list) and any(cur is x for x in seq):
                out.append((p, fld, [i for i, x in enumerate(seq) if x is cur][0]))
        cur = p
    out.reverse()
    return out


def _reaches(b, m, all_binds, fn):
    """Does the binding b of a local reach the use m?  Not when they sit in different arms of one if/try, nor when a later binding on the path to m
    (same block as an ancestor of m, before it) rebinds the name unconditionally."""
    cb, cm = _chain(b, fn), _chain(m, fn)
    for (pb, fb, _), (pm, fm, _) in zip(cb, cm):
        if pb is not pm:
            break
        if fb != fm and isinstance(pb, (ast.If, ast.Try)):
            return False
    for k in all_binds:
        if k is b or not (b.lineno < k.lineno <= m.lineno):
            continue
        ck = _chain(k, fn)
        # k kills b when k is a direct statement of a block that holds (an ancestor of) m, before that ancestor
        if len(ck) <= len(cm) and all(ck[i][0] is cm[i][0] and ck[i][1] == cm[i][1] for i in range(len(ck))) \
                and all(ck[i][2] == cm[i][2] for i in range(len(ck) - 1)) and ck[-1][2] < cm[len(ck) - 1][2]:
            return False
    return True


MUTANTS = [
    ('mpool-copy-drops-mem', 'miasmx/expression/expression_eval_abstract.py', "        p.pool_mem = dict(self.pool_mem)\n        return p", "        return p", 'C12.D16'),
    ('mpool-copy-aliases-mem', 'miasmx/expression/expression_eval_abstract.py', "        p.pool_mem = dict(self.pool_mem)\n        return p", "        p.pool_mem = self.pool_mem\n        return p", 'C12.D16'),
    ('popad-shared-table', 'miasmx/arch/ia32_sem.py', "        regs = [eax, ecx, edx, ebx, esp, ebp, esi, edi]\n    regs.reverse()", "        regs = ia32_rexpr.reg_list32\n    regs.reverse()", 'C12.D7'),
    ('yacc-syspath-no-finally', 'ply/yacc.py', "            finally:\n                # (the import fails when no table has been written yet)\n                sys.path = old_path\n", "            finally:\n                pass\n            sys.path = old_path\n", 'C12.D6'),
    ('eval-cache-default-dict', 'miasmx/expression/expression_eval_abstract.py', "    def eval_expr_no_cache(self, e, eval_cache = None):\n        if eval_cache is None:\n            # (a default dictionary would be shared by every machine)\n            eval_cache = {}\n", "    def eval_expr_no_cache(self, e, eval_cache = {}):\n", 'C12.D2'),
    ('yacc-optimize', 'miasmx/core/parse_ad.py', 'parser_intel = yacc.yacc(debug=0,', 'parser_intel = yacc.yacc(debug=0, optimize=1,', 'C12.D5'),
    ('get_afs-nocopy', 'miasmx/arch/ia32_arch.py', '            a = dict(db_afs[m])\n', '            a = db_afs[m]\n', 'C12.D4'),
    ('yacc-guard', 'ply/yacc.py', 'if optimize or (read_signature == signature):', 'if optimize or read_signature:', 'C12.D5'),
    ('sig-no-docs', 'ply/yacc.py', "            for f in self.pfuncs:\n                if f[3]:\n                    sig.update(f[3].encode('latin-1'))\n", '', 'C12.D5'),
    ('simp-mutate-arg', 'miasmx/expression/expression_helper.py', '            e = ExprMem(e.arg.arg, size = e.stop, segm = e.arg.segm)\n            return e\n',
     '            e.arg.size = e.stop\n            return e.arg\n', 'C12.D3'),
    ('lex-optimize', 'miasmx/arch/ia32_att.py', 'lexer_att = lex.lex()', 'lexer_att = lex.lex(optimize=1, lextab="att_lextab")', 'C12.D5'),
    ('evalid-flag', 'miasmx/expression/expression_eval_abstract.py', '        if not e in self.pool:\n            return e\n        return self.pool[e]\n',
     '        if not e in self.pool:\n            e.is_term = True\n            return e\n        return self.pool[e]\n', 'C12.D1'),
    ('merge-nocopy', 'miasmx/expression/expression_helper.py', '            sources_int[a[1]] = (ExprInt(a[0].arg.__class__(a[0].arg)),\n', '            sources_int[a[1]] = (a[0],\n', 'C12.D3'),
    ('logger-every-call', 'miasmx/expression/expression_eval_abstract.py', "            if not log.handlers:\n                # the logger is shared by every machine: configure it once\n", "            if True:\n", 'C12.D8'),
    ('intel-lexer-lineno-kept', 'miasmx/core/parse_ad.py', "    lexer_intel.lineno = 1\n", "", 'C12.D9'),
    ('att-lexer-lineno-kept', 'miasmx/arch/ia32_att.py', "    lexer_att.lineno = 1\n", "", 'C12.D9'),
    ('slice-copy-removed', 'miasmx/expression/expression.py', "    def copy(self):\n        return ExprSlice(self.arg.copy(), self.start, self.stop)\n", "", 'C12.D10'),
    ('find-mnemo-inserts', 'miasmx/arch/ia32_arch.py', "        if name in self.mnemo_lookup.keys():\n            return self.mnemo_lookup[name]\n        else:\n            return []", "        return self.mnemo_lookup.setdefault(name, [])", 'C12.D7'),
    ('str-prefix-alias', 'miasmx/arch/ia32_arch.py', "        prefix = self.prefix[:]\n        mnemo = [ self.m.name ]", "        prefix = self.prefix\n        mnemo = [ self.m.name ]", 'C12.D11'),
    ('into-shared-empty-list', 'miasmx/arch/ia32_sem.py', "def into(info):\n    return []\n", "no_effect = []\ndef into(info):\n    return no_effect\n", 'C12.D12'),
]
