"""C01 -- x86 decoding agrees with IA-32: every opcode-table unit agrees with an independently written opcode map
(mnemonic, operand signature, direction, immediate kind), length/raw-bytes/offset bookkeeping of _dis, and the
operand-size / address-size selector of every operand fetch."""
import ast
import os
import re

from ..core import AnalysisError, where, norm, VERIF
from ..shapes import u
from ..srcmodel import walk_no_nested, parent
from ..x86table import model as x86model, RowView

PFX = ('np', '66', 'f2', 'f3')      # order of ia32_arch.mmx_prefixes [0x00, 0x66, 0xF2, 0xF3]


def load_ref():
    path = os.path.join(VERIF, 'ref', 'ia32_opcodes.ref')
    units, cc = {}, {}
    with open(path) as f:
        for ln, line in enumerate(f, 1):
            line = line.rstrip('\n')
            if not line.strip() or line.startswith('# ') or line.strip() == '#':
                continue
            if line.startswith('cc '):
                _, nib, names = line.split()
                cc[int(nib, 16)] = names.split('|')
                continue
            if ' : ' not in line:
                raise AnalysisError('ref/ia32_opcodes.ref:%d unparsable' % ln)
            left, right = line.split(' : ', 1)
            toks = left.split()
            ext = ''
            if toks[-1].startswith('/') or toks[-1] in ('+r', '+cc'):
                ext = toks.pop()
            key = (tuple(int(t, 16) for t in toks), ext)
            parts = [p.strip() for p in right.split(';')]
            head = parts[0].split()
            if head[0] == 'sse':
                names = {}
                for t in head[1:]:
                    k, v = t.split('=')
                    names[k] = v.split('|')
                flags = set(x for x in parts[1:] if not x.startswith('ops ') and not x.startswith('mem '))
                memd = {}
                for x in parts[1:]:
                    if x.startswith('mem '):
                        for t in x.split()[1:]:
                            k, v = t.split('=')
                            memd[k] = v
                opsd = {}
                for x in parts[1:]:
                    if x.startswith('ops '):
                        for t in x.split()[1:]:
                            k, v = t.split('=')
                            opsd[k] = [alt.split(',') for alt in v.split('|')]
                ent = {'kind': 'sse', 'names': names, 'flags': flags, 'ops': opsd, 'mem': memd, 'line': ln, 'text': line}
            else:
                names = head[0].split('|')
                sigtxt = right[len(head[0]):].strip()
                sigs = []
                for alt in (sigtxt.split('||') if sigtxt else ['-']):
                    alt = alt.strip()
                    sigs.append([] if alt in ('-', '') else [t.split('|') for t in alt.split(',')])
                ent = {'kind': 'int', 'names': names, 'sigs': sigs, 'line': ln, 'text': line}
            if key in units:
                raise AnalysisError('ref/ia32_opcodes.ref:%d duplicate unit' % ln)
            units[key] = ent
    if len(units) < 600 or len(cc) != 16:
        raise AnalysisError('ref/ia32_opcodes.ref: %d units, %d condition codes' % (len(units), len(cc)))
    return units, cc


def rm_code(X, c, is_mem):
    """Size letter of the ModRM r/m operand of a row variant, from the size statements of _dis evaluated under both operand sizes
    (b/w/d/q/t fixed, v = follows the operand size); None when _dis rejects that form."""
    a = X.afs
    s32, s16 = X.dis_rm_size(c, is_mem, a.u32), X.dis_rm_size(c, is_mem, a.u16)
    if s32 == 'rejected' or s16 == 'rejected':
        return None
    if s32 != s16:
        if (s32, s16) == (a.u32, a.u16):
            return 'v'
        raise AnalysisError('_dis gives the r/m operand of %s sizes %r / %r under 32- / 16-bit operand size' % (c.row.key(), s32, s16))
    return {a.u08: 'b', a.u16: 'w', a.u32: 'd', a.f32: 'd', a.f64: 'q', a.f80: 't'}[s32]


def model_sig(X, c, is_mem=True):
    """Operand signature of a trie cell in the vocabulary of the ref, following the operand construction of x86_mn._dis:
    ModRM operands [G, E] (reversed under sw), accumulator inserted in front (behind under sw), then the remaining
    descriptors in table order.  The size of the r/m operand is what the size statements of _dis compute for the memory
    (is_mem) or the register form; None when _dis rejects the form."""
    E = X.env
    if (isinstance(c.row.afs, int) or E['rmr'] in c.row.rm) and not c.modifs.get(E['mmx']):
        rc = rm_code(X, c, is_mem)
        if rc is None:
            return None
    else:
        rc = None
    m, row, rm = c.modifs, c.row, c.row.rm
    g = lambda k: m.get(E[k])
    w8, se, sw, sd_, wd_ = g('w8'), g('se'), g('sw'), g('sd'), g('wd')
    x87 = 0xD8 <= c.opc[0] <= 0xDF
    imm, ims, rmr = E['imm'], E['ims'], E['rmr']
    args = []
    if isinstance(row.afs, int):
        s = 'v'
        if sd_ is True:
            s = 'd'
        elif sd_ is False:
            s = 'q'
        elif sd_ == 'fp80':
            s = 't'
        if w8:
            s = 'b'
        if wd_:
            s = 'w'
        args = [('E' if is_mem else 'R') + (rc or s)]
    elif row.afs == E['reg']:
        args = ['STi' if x87 else ('Zb' if w8 else 'Zv')]
    elif rmr in rm:
        G = 'Gb' if w8 else 'Gv'
        es = 'b' if w8 else 'v'
        if se is not None and not (imm in rm or ims in rm):
            es = 'w' if se else 'b'
        if wd_:
            es, G = 'w', 'Gw'
        if g('sg'):
            G = 'Sw'
        elif g('cr'):
            G = 'Cd'
        elif g('dr'):
            G = 'Dd'
        ecode = ('E' if is_mem else 'R') + (rc or es)
        args = [G, ecode]
        if row.afs == E['cond'] and row.name.startswith('set'):
            args = [ecode]
    if sw:
        args.reverse()
    out = []
    for d in rm:
        if d == rmr:
            continue
        if d == E['r_eax']:
            t = 'ST' if x87 else ('AL' if w8 else 'eAX')
            if args:
                args = args + [t] if sw else [t] + args
            else:
                out.append(t)
            continue
        if d == imm:
            t = 'Ibs' if se else ('Ib' if w8 else 'Iz')
        elif d == ims:
            t = 'Jb' if (se or w8) else 'Jz'
        elif d == E['r_cl']:
            t = 'CL'
        elif d == E['r_dx']:
            t = 'DX'
        elif d == E.get('mim'):
            t = 'Ob' if w8 else 'Ov'
        elif d == E.get('im1'):
            t = '1'
        elif d == E.get('im3'):
            t = '3'
        elif d in E['segm_regs']:
            t = str(d).upper()
        elif d == X.afs.u08:
            t = 'Ib'
        elif d == X.afs.s08:
            t = 'Jb'
        elif d == X.afs.u16:
            t = 'Iw'
        elif d == X.afs.s16:
            t = 'Jw'
        elif d == X.afs.u32:
            t = 'Iz'
        elif d == X.afs.s32:
            t = 'Jz'
        else:
            raise AnalysisError('operand descriptor %r of row %s is not modelled' % (d, row.key()))
        out.append(t)
    return args + out


def tok_match(mt, alts):
    """model token against the alternatives of a ref token.  The model names the r/m operand E<size> for the memory form and
    R<size> for the register form; the ref's E<size> stands for both, M / M<size> for the memory form, R<size> for the register form."""
    for r in alts:
        if r == mt:
            return True
        if mt[0] == 'E' and len(mt) == 2:
            if r == 'M' or (len(r) == 2 and r[0] == 'M' and r[1] == mt[1]):
                return True
        if mt[0] == 'R' and len(mt) == 2:
            if len(r) == 2 and r[0] == 'E' and r[1] == mt[1]:
                return True
            if r == 'M' or (len(r) == 2 and r[0] == 'M'):
                # the register encodings of a memory-only unit are judged by C01.D7
                return True
    return False


def sig_match(msig, sigs):
    for s in sigs:
        if len(s) == len(msig) and all(tok_match(a, b) for a, b in zip(msig, s)):
            return True
    return False


def fmt_sigs(sigs):
    return ' || '.join(','.join('|'.join(t) for t in s) or '-' for s in sigs)


def fetch_width_rule(ctx, R3, X=None):
    """Operand fetches of _dis take their width from the right mode variable (shared with C10: a fetch of the wrong width over-reads or
    leaves bytes of the instruction unread)."""
    X = X or x86model(ctx)
    arch, E = X.arch, X.env
    dis = arch.method('x86_mn', '_dis')
    # prefix toggles: the statements of _dis that set self.opmode / self.admode from the prefixes read are evaluated on prefix lists.  An override switches
    # the default size once, however often the prefix occurs and whatever stands between two occurrences.
    from ..consteval import Evaluator as _Ev, Obj as _Obj, NotConst as _NC, PyRaise as _PR
    afs_ = X.afs
    stmts = []
    for n in walk_no_nested(dis):
        if isinstance(n, (ast.If, ast.For)) and 'read_prefix' in u(n.test if isinstance(n, ast.If) else n.iter) \
                and any(isinstance(a, ast.Assign) and u(a.targets[0]) in ('self.opmode', 'self.admode') for a in ast.walk(n)):
            par = parent(n)
            # top-most such statement only
            if not any(n is not s_ and any(n is x for x in ast.walk(s_)) for s_ in stmts):
                stmts.append(n)
    stmts = [s_ for s_ in stmts if not any(s_ is not t_ and any(s_ is x for x in ast.walk(t_)) for t_ in stmts)]
    if not stmts:
        R3.violation('prefix 66 / 67', 'mode:prefix:none', 'no statement of _dis sets self.opmode / self.admode from the prefixes read', where(arch, dis))
    else:
        stmts.sort(key=lambda s_: s_.lineno)
        other = {afs_.u16: afs_.u32, afs_.u32: afs_.u16}
        for pl in ([], [0x66], [0x67], [0x66, 0x67], [0x66, 0x66], [0x67, 0x67], [0x66, 0x2E, 0x66], [0x67, 0x66, 0x67], [0xF3, 0x66], [0x2E]):
            for mode0 in (afs_.u32, afs_.u16):
                me = _Obj('self')
                me.opmode, me.admode = mode0, mode0
                m_ = _Obj('m')
                m_.name, m_.opc = 'add', [0]
                scope = dict((k_, v_) for k_, v_ in E.items() if isinstance(v_, (str, int, bool, list, tuple, dict)) or v_ is None)
                scope.update({'x86_afs': afs_})
                loc = {'self': me, 'read_prefix': list(pl), 'm': m_}
                inst = 'prefixes [%s], default size %s' % (' '.join('%02x' % b for b in pl), mode0)
                try:
                    _Ev(scope).exec_stmts(stmts, loc)
                except _PR as e:
                    R3.violation(inst, 'mode:prefix:raises:%s' % e.exc_name, 'the mode selection of _dis raises %s on %s' % (e.exc_name, inst), where(arch, stmts[0]))
                    continue
                except _NC as e:
                    raise AnalysisError('_dis: the prefix/mode statements are outside the evaluable subset: %s' % e)
                want_op = other[mode0] if 0x66 in pl else mode0
                want_ad = other[mode0] if 0x67 in pl else mode0
                if (me.opmode, me.admode) == (want_op, want_ad):
                    R3.ok(inst, nontrivial=(len(pl) > 1))
                else:
                    R3.violation(inst, 'mode:prefix:%s' % '-'.join('%02x' % b for b in pl if b in (0x66, 0x67)), '%s: _dis ends with operand size %s, address size %s; IA-32: %s, %s '
                                 '(an override switches the default once, however often the prefix is repeated)' % (inst, me.opmode, me.admode, want_op, want_ad), where(arch, stmts[0]),
                                 witness='66 66 e8 00 80 is call rel16 (5 bytes); with the prefix toggling per occurrence it is read as call rel32')
    WANT = []
    for n in walk_no_nested(dis):
        if isinstance(n, ast.Call) and u(n.func) == 'x86mndb.get_afs' and len(n.args) == 3:
            WANT.append(('ModRM operand and displacement', n, u(n.args[2]), 'self.admode'))
    # register operands
    for n in walk_no_nested(dis):
        if isinstance(n, ast.If) and u(n.test) == 'm.modifs[w8]' and n.orelse and len(n.body) == 1 and len(n.orelse) == 1:
            a, b = n.body[0], n.orelse[0]
            if isinstance(a, ast.Assign) and isinstance(b, ast.Assign) and u(a.targets[0]) == u(b.targets[0]) and u(a.targets[0]).endswith('[x86_afs.size]') and u(a.value) == 'x86_afs.u08':
                WANT.append(('register operand size', b, u(b.value), 'self.opmode'))
        # the same choice written as a conditional expression:  X[x86_afs.size] = x86_afs.u08 if m.modifs[w8] else <size>
        if isinstance(n, ast.Assign) and len(n.targets) == 1 and isinstance(n.targets[0], ast.Subscript) and u(n.targets[0].slice) == 'x86_afs.size' and isinstance(n.value, ast.IfExp):
            ie = n.value
            if u(ie.test) == 'm.modifs[w8]' and u(ie.body) == 'x86_afs.u08':
                WANT.append(('register operand size', n, u(ie.orelse), 'self.opmode'))
            elif u(ie.test) == 'not m.modifs[w8]' and u(ie.orelse) == 'x86_afs.u08':
                WANT.append(('register operand size', n, u(ie.body), 'self.opmode'))
    # immediates and direct offsets: the operand loop of _dis is evaluated as a whole for every immediate kind x operand size x address size (bytes consumed, operand width) and for the
    # moffs operand of A0..A3 (offset bytes by the address size, operand size by the operand size / w8) -- see sa/immdecode.py
    from ..immdecode import imm_decode_rule
    imm_decode_rule(ctx, R3, X, 'mode', part='modes')
    from collections import Counter
    kinds = Counter(w[0] for w in WANT)
    for kind_, least in (('ModRM operand and displacement', 2), ('register operand size', 2)):
        if kinds.get(kind_, 0) < least:
            raise AnalysisError('_dis: expected at least %d site(s) of kind "%s", found %d (the construct was rewritten: re-read and extend the rule)' % (least, kind_, kinds.get(kind_, 0)))
    for what, n, got, want in WANT:
        inst = '%s:%s' % (what, norm(n)[:60])
        if got == want:
            R3.ok(inst + '@%d' % (n.lineno - dis.lineno), sample='%s: %s' % (what, want))
        else:
            R3.violation(inst, 'mode:%s:%s' % (what, got), 'the %s is sized by %s; IA-32 sizes it by %s' % (what, got, {'self.admode': 'the address size (0x67)',
                         'self.opmode': 'the operand size (0x66)'}.get(want, want)), where(arch, n),
                         witness='66 a1 78 56 34 12 must be 6 bytes long' if what.startswith('moffs') else None)
    # get_afs: displacement tokens
    ga = arch.method('x86allmncs', 'get_afs')
    # every displacement kind the ModRM tables can hold, read through get_afs itself (evaluated): bytes consumed and value
    import struct as _struct
    from ..consteval import Evaluator as _Ev1, Obj as _Obj1, Native as _Nat1, NotConst as _NC1, PyRaise as _PR1, class_obj as _cobj1
    from .. import simpeval as _SE1
    afs1 = X.afs
    toks = [('u08', 1, 0xF0), ('s08', 1, -16), ('u16', 2, 0xDEF0), ('u32', 4, 0x9ABCDEF0)]
    n_tok = 0
    for mode_name, mbits in (('u32', 32), ('u16', 16)):
        for tok, nbytes, want in toks:
            if (mode_name, tok) in (('u16', 'u32'),):
                continue
            for sib in (False, True):
                data = (b'\x24' if sib else b'') + b'\xF0\xDE\xBC\x9A\x78'
                pos = [0]

                def readbs(k=1, _d=data, _p=pos):
                    r = _d[_p[0]:_p[0] + k]
                    _p[0] += k
                    return r
                b_ = _Obj1('bin')
                b_.readbs = _Nat1(readbs)
                entry = {getattr(afs1, 'imm'): getattr(afs1, tok), 0: 1, getattr(afs1, 'ad'): True}
                table = [([dict(entry) for _ in range(256)] if sib else dict(entry)) for _ in range(256)]
                me_ = _cobj1(arch, 'x86allmncs', 'self')
                me_.db_afs = me_.db_afs_16 = me_.db_afs_mm = me_.db_afs_xmm = table
                st_ = _Obj1('struct')
                st_.unpack = _Nat1(_struct.unpack)
                scope_ = dict((k_, v_) for k_, v_ in E.items() if isinstance(v_, (str, int, bool, list, tuple, dict)) or v_ is None)
                scope_.update(_SE1.INT_CLASSES)
                scope_.update({'x86_afs': afs1, 'struct': st_})
                inst = 'get_afs:%s:%s%s' % (mode_name, tok, ':sib' if sib else '')
                try:
                    out = _Ev1(scope_).call_user(ga, [me_, b_, 0x04 if sib else 0x05, getattr(afs1, mode_name)])
                except _PR1 as e:
                    R3.violation(inst, 'disp:%s:raises:%s' % (tok, e.exc_name), 'get_afs raises %s on a ModRM table entry whose displacement is of kind %s' % (e.exc_name, tok), where(arch, ga))
                    continue
                except _NC1 as e:
                    raise AnalysisError('x86allmncs.get_afs is outside the evaluable subset: %s' % e)
                n_tok += 1
                used = pos[0] - (1 if sib else 0)
                a_ = out[1] if isinstance(out, tuple) and len(out) == 2 else None
                val = a_.get(getattr(afs1, 'imm')) if isinstance(a_, dict) else None
                ok_ = isinstance(val, int) and int(val) % (1 << mbits) == want % (1 << mbits) and used == nbytes and (not sib or pos[0] == nbytes + 1)
                if ok_:
                    R3.ok(inst, sample='displacement %s under %s addressing: %d byte(s), value %#x' % (tok, mode_name, nbytes, want % (1 << mbits)))
                else:
                    R3.violation(inst, 'disp:%s:%s:%s' % (tok, used, (hex(int(val)) if isinstance(val, int) else type(val).__name__)), 'get_afs reads a displacement of kind %s from %d byte(s) and gives %s; '
                                 'it has %d byte(s) and the value %#x' % (tok, used, (hex(int(val) % (1 << mbits)) if isinstance(val, int) else repr(val)), nbytes, want % (1 << mbits)), where(arch, ga))
    if n_tok < 12:
        raise AnalysisError('get_afs: only %d displacement reads could be evaluated' % n_tok)
    # get_afs on the real ModRM tables (init_pre_modrm evaluated): for every ModRM byte of every addressing mode it consumes the SIB byte exactly when the entry is a SIB
    # table, then the displacement the selected entry names, and returns that entry
    DISP = {afs1.u08: 1, afs1.s08: 1, afs1.u16: 2, afs1.u32: 4}
    for mode_name in ('u32', 'u16', 'mm', 'xmm'):
        bad_m = None
        n_m = 0
        for m_, sib_, used_, got_, entry_ in X.get_afs_on_tables(mode_name):
            n_m += 1
            want_used = (1 if sib_ is not None else 0) + DISP.get(entry_.get(afs1.imm), 0)
            same = isinstance(got_, dict) and set(got_) == set(entry_) and all(got_[k_] == entry_[k_] for k_ in entry_ if k_ != afs1.imm)
            if (used_ != want_used or not same) and bad_m is None:
                bad_m = (m_, sib_, used_, want_used, got_ if isinstance(got_, str) else ('another operand' if not same else 'the operand'))
        inst = 'get_afs:tables:%s' % mode_name
        if bad_m:
            m_, sib_, used_, want_used, what_ = bad_m
            R3.violation(inst, 'get_afs-tables:%s:%s' % (mode_name, what_ if isinstance(what_, str) and what_.startswith('raises') else 'bytes'), 'get_afs under %s addressing, ModRM %02X%s: consumes %d byte(s) '
                         'after the ModRM byte and gives %s; the table entry takes %d' % (mode_name, m_, (' SIB %02X' % sib_) if sib_ is not None else '', used_, what_, want_used), where(arch, ga),
                         witness='67 8b 04 (mov eax, [si])')
        else:
            R3.ok(inst, sample='get_afs under %s addressing: %d (ModRM, SIB) pairs read as the tables say' % (mode_name, n_m))
    # get_afs: table per mode -- the statements that choose the ModRM table are evaluated for every address mode
    from ..consteval import Evaluator as _Ev2, Obj as _Obj2, Native as _Nat2, NotConst as _NC2, PyRaise as _PR2
    pairs = {}
    chooser = [st for st in ga.body if isinstance(st, ast.If) and 'size_m' in u(st.test)]
    if not chooser:
        raise AnalysisError('get_afs: the statement that chooses the ModRM table by size_m was not found')
    for mode_name in ('u16', 'u32', 'mm', 'xmm'):
        me_ = _Obj2('self')
        me_.db_afs_16, me_.db_afs, me_.db_afs_mm, me_.db_afs_xmm = 'self.db_afs_16', 'self.db_afs', 'self.db_afs_mm', 'self.db_afs_xmm'
        scope_ = dict((k_, v_) for k_, v_ in E.items() if isinstance(v_, (str, int, bool, list, tuple, dict)) or v_ is None)
        scope_.update({'x86_afs': X.afs, 'uint16': _Nat2(lambda v: v), 'uint32': _Nat2(lambda v: v)})
        loc_ = {'self': me_, 'size_m': getattr(X.afs, mode_name)}
        try:
            _Ev2(scope_).exec_stmts(chooser[:1], loc_)
        except (_NC2, _PR2) as e_:
            raise AnalysisError('get_afs: the table choice is outside the evaluable subset: %s' % e_)
        pairs[mode_name] = loc_.get('db_afs')
    for mode, want in (('u16', 'self.db_afs_16'), ('u32', 'self.db_afs'), ('mm', 'self.db_afs_mm'), ('xmm', 'self.db_afs_xmm')):
        if pairs.get(mode) == want:
            R3.ok('get_afs:table:%s' % mode, sample='address mode %s -> %s' % (mode, want))
        else:
            R3.violation('get_afs:table:%s' % mode, 'afs-table:%s:%s' % (mode, pairs.get(mode)), 'get_afs uses %s for mode %s, expected %s' % (pairs.get(mode), mode, want),
                         where(arch, ga))



def run(ctx, report):
    X = x86model(ctx)
    arch, E = X.arch, X.env
    ref, cc = load_ref()
    report.explanation = (
        'D1: the 539 addop rows are expanded statically into the decode trie (model identical to the real trie) and grouped into architectural units '
        '(opcode bytes, /digit | +r | +cc); every unit is compared with ref/ia32_opcodes.ref, written from the SDM opcode maps: mnemonic (synonyms listed in the ref; '
        'condition-code suffixes through the cc table; the four mandatory-prefix names of MMX/SSE rows through the suffix scheme), operand signature derived from the '
        'row attributes exactly as _dis builds operands (r/m vs reg order under the sw bit, byte/word/operand-size width, sign-extended imm8, fixed immediates, '
        'accumulator/CL/DX/segment operands, moffs, x87 memory width), store direction and imm8 presence of SSE rows. A unit unknown to the ref is a note; a unit that '
        'contradicts the ref is a violation; two rows claiming one cell is a violation. D2: def-use of the values stored in self.l / self.b / self.offset on the '
        'success path of _dis, who-may-read rule on the stream. D3: every operand fetch of _dis takes its width from the architecturally right mode variable '
        '(ModRM/displacement and moffs: address size; immediates, relative targets, register operands: operand size), the 0x66/0x67 toggles, and get_afs unpacks each '
        'displacement token with the format and byte count of that token. D4: init_pre_modrm is evaluated statically (constant evaluation of its loops) and all 256 32-bit ModRM entries, '
        '3 x 256 SIB entries, 256 16-bit ModRM entries and the mm/xmm register forms are compared with the architectural definition written independently in the checker '
        '(base/index registers with their coefficient, displacement kind and signedness); register lists carry the IA-32 numbering.')
    report.not_decided = ('the register file chosen per SSE row inside _dis, operand rendering by __str__/dict_to_ad.')
    R1 = report.rule('C01.D1', 'every opcode-table unit agrees with the IA-32 opcode map', floor=600)
    U = X.units()
    mmx_key = E['mmx']
    n_unknown = 0
    for key in sorted(U, key=lambda k: (k[0], k[1])):
        cells = U[key]
        opc, ext = key
        ccn = None
        rkey = key
        if ext.startswith('+cc'):
            ccn = int(ext[3:], 16)
            rkey = (opc, '+cc')
        kstr = '%s%s' % (' '.join('%02X' % b for b in opc), (' ' + ext) if ext else '')
        ent = ref.get(rkey)
        variants = {}
        for c in cells:
            variants.setdefault((c.name, c.row.idx, tuple(sorted((str(k), str(v)) for k, v in c.modifs.items() if v is not None))), c)
        for (name, ridx, _), c in sorted(variants.items(), key=lambda kv: kv[0][:2]):
            inst = '%s %s' % (kstr, name)
            if ent is None:
                n_unknown += 1
                R1.ok(inst + ':unknown-to-ref', nontrivial=False)
                R1.note('%s (%s) is not in ref/ia32_opcodes.ref: not judged' % (kstr, name))
                continue
            loc = where(arch, c.row.node)
            is_mmx = bool(c.modifs.get(mmx_key))
            if ent['kind'] == 'sse':
                if not is_mmx:
                    R1.violation(inst, 'unit:%s:%s:kind' % (kstr, name), 'table row %s decodes %s as the integer instruction %r; IA-32 (ref line %d): %s'
                                 % (c.row.key(), kstr, name, ent['line'], ent['text']), loc)
                    continue
                bad = []
                undefined = []
                for p, pk in enumerate(PFX):
                    if pk not in ent['names']:
                        # IA-32 defines no instruction for this opcode with that mandatory prefix: the decoder must reject it
                        mn = X.mmx_set_suffix(name, p)
                        if 'INVALID' not in mn and 'REP' not in mn and X.dis_mmx_rejected_early(name, {'np': [], '66': [0x66], 'f2': [0xF2], 'f3': [0xF3]}[pk], row=RowView(c.opc, c.row.afs)) is not True:
                            undefined.append((pk, mn))
                        continue
                    mn = X.mmx_set_suffix(name, p)
                    if mn not in ent['names'][pk]:
                        bad.append('with prefix %s the decoder names it %r, IA-32 names it %s' % (pk, mn, '/'.join(ent['names'][pk])))
                has_ib = any(d in (X.afs.u08, E['imm']) for d in c.row.rm)
                if has_ib != ('ib' in ent['flags']):
                    bad.append('the row %s an imm8, IA-32 %s' % ('reads' if has_ib else 'does not read', 'has one' if 'ib' in ent['flags'] else 'has none'))
                store = bool(c.modifs.get(E['sw']))
                if store != ('store' in ent['flags']):
                    bad.append('the row is the %s form, IA-32 defines the %s form here' % ('store (r/m <- reg)' if store else 'load (reg <- r/m)',
                                                                                            'store' if 'store' in ent['flags'] else 'load'))
                if bad:
                    R1.violation(inst, 'unit:%s:%s' % (kstr, name), 'table row %s at %s: %s (ref line %d: %s)' % (c.row.key(), kstr, '; '.join(bad), ent['line'], ent['text']), loc)
                else:
                    R1.ok(inst, sample='%s = %s' % (kstr, ent['text'].split(' : ')[1]))
                for pk, mn in undefined:
                    R1.violation(inst + ':' + pk, 'unit:%s:%s:undefined-prefix:%s' % (kstr, name, pk), 'table row %s: with mandatory prefix %s the decoder accepts %s as %r; IA-32 defines no '
                                 'instruction there (ref line %d: %s)' % (c.row.key(), pk, kstr, mn, ent['line'], ent['text']), loc, count=False)
                continue
            # integer / x87 unit
            if is_mmx:
                R1.violation(inst, 'unit:%s:%s:kind' % (kstr, name), 'table row %s decodes %s as an MMX/SSE instruction; IA-32 (ref line %d): %s'
                             % (c.row.key(), kstr, ent['line'], ent['text']), loc)
                continue
            bad = []
            if ccn is not None:
                okn = [ent['names'][0] + s for s in cc[ccn]]
                # special_opcodes / AT&T aliases may rename; the table name is what is compared
                if name not in okn:
                    bad.append('condition code %X is named %r, IA-32 names it %s' % (ccn, name, '/'.join(okn)))
            elif name not in ent['names']:
                bad.append('mnemonic %r, IA-32: %s' % (name, '/'.join(ent['names'])))
            msig = model_sig(X, c, True)
            if msig is not None and not sig_match(msig, ent['sigs']):
                bad.append('operands %s, IA-32: %s' % (','.join(msig) or '-', fmt_sigs(ent['sigs'])))
            # the register form (mod == 3), when the decoder accepts it for this row (for /digit rows: when the row owns mod == 3 cells)
            rsig = None
            if isinstance(c.row.afs, int):
                if any(p_[-1] >= 0xC0 for p_, cc_ in X.cells.items() if cc_.row is c.row and cc_.opc == c.opc):
                    rsig = model_sig(X, c, False)
            elif E['rmr'] in c.row.rm:
                rsig = model_sig(X, c, False)
            if rsig is not None and not sig_match(rsig, ent['sigs']):
                bad.append('operands of the register form (mod = 3) %s, IA-32: %s' % (','.join(rsig) or '-', fmt_sigs(ent['sigs'])))
            if msig is None:
                msig = rsig or []
            if bad:
                R1.violation(inst, 'unit:%s:%s' % (kstr, name), 'table row %s decodes %s as %s %s -- %s (ref line %d)'
                             % (c.row.key(), kstr, name, ','.join(msig) or '', '; '.join(bad), ent['line']), loc)
            else:
                R1.ok(inst, sample='%s = %s %s' % (kstr, name, ','.join(msig)))
    report.analysed['units'] = len(U)
    report.analysed['cells'] = len(X.cells)
    report.analysed['units_unknown_to_ref'] = n_unknown
    report.analysed['ref_units'] = len(ref)
    for path, old, row in X.clashes:
        p = ' '.join('%02X' % b for b in path)
        R1.violation('clash %s' % p, 'clash:%s:%s:%s' % (p, old.name, row.name), 'rows %s and %s both claim the decode cell %s' % (old.row.key(), row.key(), p),
                     where(arch, row.node))

    # ---------------------------------------------------------------- D7 memory-only operands
    R7 = report.rule('C01.D7', 'instructions whose ModRM operand must be memory reject register encodings', floor=60)
    for key in sorted(U, key=lambda k: (k[0], k[1])):
        ent = ref.get(key)
        if ent is None or ent['kind'] != 'int' or not ent['sigs']:
            continue
        # memory-only: every signature alternative has a token whose alternatives are all M-codes
        def mem_only(sig):
            return any(all(a.startswith('M') for a in tok) for tok in sig)
        if any(not s_ for s_ in ent['sigs']):
            continue          # the register encodings of this unit are other instructions without operand (lfence ...)
        sigs = [s_ for s_ in ent['sigs'] if s_]
        if not sigs or not all(mem_only(s_) for s_ in sigs):
            continue
        kstr = '%s%s' % (' '.join('%02X' % b for b in key[0]), (' ' + key[1]) if key[1] else '')
        done = set()
        for c in U[key]:
            if c.row.idx in done:
                continue
            done.add(c.row.idx)
            if isinstance(c.row.afs, int):
                # live mod=3 cells of this /digit row?
                live3 = [p_ for p_, cc in X.cells.items() if cc.row is c.row and cc.opc == c.opc and p_[-1] >= 0xC0]
                if not live3:
                    R7.ok('%s %s' % (kstr, c.name), sample='%s %s: mod=3 cells belong to register rows' % (kstr, c.name), nontrivial=False)
                    continue
                rej = X.dis_digit_reg_rejected(c.modifs, c.row.rm, c.name, c.opc)
            else:
                rej = X.dis_rmr_reg_rejected(c.modifs, c.name)
            inst = '%s %s' % (kstr, c.name)
            if rej:
                R7.ok(inst, sample='%s: a register r/m operand is rejected' % inst)
            else:
                R7.violation(inst, 'memonly:%s:%s' % (kstr, c.name), '%s (%s) takes a memory operand only, but the decoder accepts ModRM.mod == 3 and reports a register operand (ref line %d: %s)'
                             % (kstr, c.name, ent['line'], ent['text']), where(arch, c.row.node), witness='0f 01 d0 (xgetbv) decodes as lgdt eax' if c.name == 'lgdt' else None)

    # ---------------------------------------------------------------- D2 bookkeeping
    R2 = report.rule('C01.D2', 'length, raw bytes and offset are the consumed window of the input', floor=6)
    dis = arch.method('x86_mn', '_dis')
    defs = {}
    order = []
    for n in walk_no_nested(dis):
        if isinstance(n, ast.Assign) and len(n.targets) == 1:
            defs.setdefault(u(n.targets[0]), []).append(n)
            order.append(n)

    def single(name):
        d = defs.get(name, [])
        return d[0] if len(d) == 1 else None

    def chase(expr):
        seen = 0
        while isinstance(expr, ast.Name) and single(expr.id) is not None and seen < 5:
            expr = single(expr.id).value
            seen += 1
        return expr
    io = single('init_offset')
    if io is not None and u(io.value) == 'bin.offset' and not any(isinstance(x, ast.Call) and isinstance(x.func, ast.Attribute) and x.func.attr == 'readbs'
                                                                 for n in walk_no_nested(dis) if getattr(n, 'lineno', 0) < io.lineno and isinstance(n, ast.stmt)
                                                                 and not isinstance(n, (ast.If, ast.Try, ast.FunctionDef)) for x in ast.walk(n)):
        R2.ok('init_offset', sample='init_offset = bin.offset before any read')
    else:
        R2.violation('init_offset', 'bookkeeping:init_offset', 'init_offset is no longer the stream offset before the first read', where(arch, dis))
    for attr, want, what in (('self.l', 'bin.offset - init_offset', 'the number of bytes consumed'),
                             ('self.offset', 'bin.offset', 'the offset at which decoding started'),
                             ('self.b', 'bin.readbs(t_len)', 'the bytes consumed')):
        d = single(attr)
        inst = '_dis:%s' % attr
        if d is None:
            R2.violation(inst, 'bookkeeping:%s:defs' % attr, '%s is assigned %d times in _dis' % (attr, len(defs.get(attr, []))), where(arch, dis))
            continue
        v = chase(d.value)
        vt = u(v)
        if attr == 'self.b':
            okb = isinstance(v, ast.Call) and u(v.func) == 'bin.readbs' and len(v.args) == 1 and u(chase(v.args[0])) == 'bin.offset - init_offset'
            # the stream was rewound to init_offset right before
            rew = [n for n in order if u(n.targets[0]) == 'bin.offset' and u(n.value) == 'init_offset']
            src = single(u(d.value)) if isinstance(d.value, ast.Name) else d
            tl = single('t_len')
            if okb and rew and tl is not None and src is not None and tl.lineno < rew[0].lineno < src.lineno:
                R2.ok(inst, sample='self.b = bin.readbs(bin.offset - init_offset) after bin.offset = init_offset')
            else:
                R2.violation(inst, 'bookkeeping:self.b', 'self.b is not the re-read of exactly the consumed window (t_len computed, stream rewound to init_offset, readbs(t_len)): %s' % vt,
                             where(arch, d))
        else:
            if vt == want:
                R2.ok(inst, sample='%s = %s' % (attr, want))
            else:
                R2.violation(inst, 'bookkeeping:%s' % attr, '%s is %s, expected %s (%s)' % (attr, vt, want, what), where(arch, d))
    # who may read: the stream is consumed through readbs only
    for q, fn in (('x86_mn._dis', dis), ('x86allmncs.get_afs', arch.method('x86allmncs', 'get_afs'))):
        bad = [n for n in walk_no_nested(fn) if isinstance(n, ast.Subscript) and isinstance(n.value, ast.Name) and n.value.id == 'bin']
        bad += [n for n in walk_no_nested(fn) if isinstance(n, ast.Attribute) and u(n) in ('bin.bin',)]
        if bad:
            for n in bad:
                R2.violation('%s:who-may-read' % q, 'who-may-read:%s:%s' % (q, norm(n)), '%s reads the stream by %s instead of bin.readbs: the offset bookkeeping does not see it'
                             % (q, norm(n)), where(arch, n))
        else:
            R2.ok('%s:who-may-read' % q, sample='%s consumes input through bin.readbs only' % q)

    # ---------------------------------------------------------------- D3 mode selectors
    R3 = report.rule('C01.D3', 'every operand fetch takes its width from the right mode (address size vs operand size)', floor=12)
    fetch_width_rule(ctx, R3, X)

    # ---------------------------------------------------------------- D4 ModRM / SIB tables
    R4 = report.rule('C01.D4', 'ModRM/SIB addressing tables and register numbering are the IA-32 definition', floor=1500)
    T = X.modrm_tables()
    afs = X.afs
    STD = {'reg_list8': 'al cl dl bl ah ch dh bh', 'reg_list16': 'ax cx dx bx sp bp si di', 'reg_list32': 'eax ecx edx ebx esp ebp esi edi',
           'reg_sg': 'es cs ss ds fs gs', 'reg_cr': 'cr0 cr1 cr2 cr3 cr4 cr5 cr6 cr7', 'reg_dr': 'dr0 dr1 dr2 dr3 dr4 dr5 dr6 dr7',
           'reg_mm': 'mm0 mm1 mm2 mm3 mm4 mm5 mm6 mm7', 'reg_xmm': 'xmm0 xmm1 xmm2 xmm3 xmm4 xmm5 xmm6 xmm7'}
    for attr, names in STD.items():
        got = getattr(afs, attr)
        want = names.split()
        inst = 'x86_afs.%s' % attr
        if list(got)[:len(want)] == want:
            R4.ok(inst, sample='%s = %s' % (attr, names))
        else:
            R4.violation(inst, 'regnum:%s' % attr, 'register numbering %s is %s; IA-32 numbers them %s' % (attr, list(got), want), where(X.reg, X.reg.method('afs_desc', '__init__')))
    DISP = {afs.s08: 'disp8 (sign-extended)', afs.u08: 'disp8 (ZERO-extended)', afs.u16: 'disp16', afs.u32: 'disp32', afs.s32: 'disp32', afs.s16: 'disp16', None: 'no displacement'}

    def arch_sib(mod, sib):
        ss, idx, base = (sib >> 6) & 3, (sib >> 3) & 7, sib & 7
        regs = {}
        if not (base == 5 and mod == 0):
            regs[base] = 1
        if idx != 4:
            regs[idx] = regs.get(idx, 0) + (1 << ss)
        disp = {0: ('disp32' if base == 5 else 'no displacement'), 1: 'disp8 (sign-extended)', 2: 'disp32'}[mod]
        return regs, disp

    def arch_modrm32(mod, rm):
        if mod == 3:
            return 'reg', {rm: 1}, 'no displacement'
        if rm == 4:
            return 'sib', None, None
        if mod == 0 and rm == 5:
            return 'mem', {}, 'disp32'
        return 'mem', {rm: 1}, {0: 'no displacement', 1: 'disp8 (sign-extended)', 2: 'disp32'}[mod]
    BX, SP, BP, SI, DI = 3, 4, 5, 6, 7
    RM16 = {0: {BX: 1, SI: 1}, 1: {BX: 1, DI: 1}, 2: {BP: 1, SI: 1}, 3: {BP: 1, DI: 1}, 4: {SI: 1}, 5: {DI: 1}, 6: {BP: 1}, 7: {BX: 1}}

    def arch_modrm16(mod, rm):
        if mod == 3:
            return 'reg', {rm: 1}, 'no displacement'
        if mod == 0 and rm == 6:
            return 'mem', {}, 'disp16'
        return 'mem', dict(RM16[rm]), {0: 'no displacement', 1: 'disp8 (sign-extended)', 2: 'disp16'}[mod]

    def entry(d):
        regs = dict((k, v) for k, v in d.items() if isinstance(k, int) and v != 0)
        return ('mem' if d.get(afs.ad) else 'reg'), regs, DISP.get(d.get(afs.imm), 'token %r' % d.get(afs.imm))

    def regtxt(regs, names):
        return '+'.join(('%s*%d' % (names[k], c)) if c != 1 else names[k] for k, c in sorted(regs.items())) or '-'
    loc_pre = where(arch, arch.method('x86allmncs', 'init_pre_modrm'))
    SIBT = {0: 'sib_rez_u32', 1: 'sib_rez_u08_ebp', 2: 'sib_rez_u32_ebp'}
    n32 = afs.reg_list32
    for m in range(0x100):
        mod, rm = m >> 6, m & 7
        kind, regs, disp = arch_modrm32(mod, rm)
        got = T['db_afs'][m]
        inst = 'modrm32[%02X]' % m
        if kind == 'sib':
            if got is not T[SIBT[mod]]:
                R4.violation(inst, 'modrm32:%02X:sib-table' % (m & 0xC7), 'ModRM %02X (mod=%d, rm=4) must use the SIB table of mod %d (%s)' % (m, mod, mod, SIBT[mod]), loc_pre)
            else:
                R4.ok(inst, nontrivial=False)
            continue
        if isinstance(got, list):
            R4.violation(inst, 'modrm32:%02X:unexpected-sib' % (m & 0xC7), 'ModRM %02X has no SIB byte in IA-32 but the table expects one' % m, loc_pre)
            continue
        g = entry(got)
        if g == (kind, regs, disp):
            R4.ok(inst, sample='ModRM %02X = %s %s, %s' % (m, kind, regtxt(regs, n32), disp))
        else:
            R4.violation(inst, 'modrm32:mod%d:rm%d' % (mod, rm), 'ModRM %02X (mod=%d rm=%d) decodes as %s [%s], %s; IA-32: %s [%s], %s'
                         % (m, mod, rm, g[0], regtxt(g[1], n32), g[2], kind, regtxt(regs, n32), disp), loc_pre, witness='8b %02x ...' % m)
    for mod, tname in SIBT.items():
        tab = T[tname]
        for sib in range(0x100):
            regs, disp = arch_sib(mod, sib)
            g = entry(tab[sib])
            inst = 'sib[mod%d][%02X]' % (mod, sib)
            if g == ('mem', regs, disp):
                R4.ok(inst, sample='mod=%d SIB %02X = [%s], %s' % (mod, sib, regtxt(regs, n32), disp))
            else:
                R4.violation(inst, 'sib:mod%d:ss%d:i%d:b%d' % (mod, sib >> 6, (sib >> 3) & 7, sib & 7), 'mod=%d SIB %02X decodes as %s [%s], %s; IA-32: mem [%s], %s'
                             % (mod, sib, g[0], regtxt(g[1], n32), g[2], regtxt(regs, n32), disp), loc_pre, witness='8b %02x %02x ...' % (4 | (mod << 6), sib))
    n16 = afs.reg_list16
    for m in range(0x100):
        mod, rm = m >> 6, m & 7
        want = arch_modrm16(mod, rm)
        g = entry(T['db_afs_16'][m])
        inst = 'modrm16[%02X]' % m
        if g == want:
            R4.ok(inst, sample='16-bit ModRM %02X = %s [%s], %s' % (m, want[0], regtxt(want[1], n16), want[2]))
        else:
            R4.violation(inst, 'modrm16:mod%d:rm%d' % (mod, rm), '16-bit ModRM %02X decodes as %s [%s], %s; IA-32: %s [%s], %s'
                         % (m, g[0], regtxt(g[1], n16), g[2], want[0], regtxt(want[1], n16), want[2]), loc_pre, witness='67 8b %02x ...' % m)
    for tname, base, nm in (('db_afs_mm', afs.reg_mm_base, 'mm'), ('db_afs_xmm', afs.reg_xmm_base, 'xmm')):
        tab = T[tname]
        for m in range(0x100):
            inst = '%s[%02X]' % (tname, m)
            if m >> 6 == 3:
                g = entry(tab[m])
                if g == ('reg', {base + (m & 7): 1}, 'no displacement'):
                    R4.ok(inst, sample='%s ModRM %02X = %s%d' % (nm, m, nm, m & 7))
                else:
                    R4.violation(inst, '%s:rm%d' % (tname, m & 7), '%s register form %02X decodes as %s, expected %s%d' % (nm, m, g, nm, m & 7), loc_pre)
            elif tab[m] is T['db_afs'][m]:
                R4.ok(inst, nontrivial=False)
            else:
                R4.violation(inst, '%s:mem:%02X' % (tname, m & 0xC7), 'memory forms of the %s table differ from the general ModRM table at %02X' % (nm, m), loc_pre)
    mrm = arch.method('x86allmncs', 'modrm')
    rt = [n for n in ast.walk(mrm) if isinstance(n, ast.Return)]
    if rt and u(rt[0].value).replace(' ', '') == '(c>>6&3,c>>3&7,c&7)':
        R4.ok('modrm-split', sample='modrm(c) = (c>>6)&3, (c>>3)&7, c&7')
    else:
        R4.violation('modrm-split', 'modrm-split', 'modrm(c) no longer splits the byte into mod (bits 7-6), reg (5-3), rm (2-0): %s' % (u(rt[0].value) if rt else '?'), where(arch, mrm))

    # ---------------------------------------------------------------- D5 register files of MMX/SSE operands
    R5 = report.rule('C01.D5', 'MMX/SSE operands come from the register file IA-32 specifies for each mandatory prefix', floor=300)
    KIND_G = {X.afs.xmm: 'V', X.afs.mm: 'P', X.afs.u32: 'G'}
    KIND_E = {X.afs.xmm: 'W', X.afs.mm: 'Q', X.afs.u32: 'E'}
    PBYTES = {'np': [], '66': [0x66], 'f2': [0xF2], 'f3': [0xF3]}
    chain = X._dis_mmx_nodes()[0]

    def sig_ok(msig, alts):
        for alt in alts:
            if len(alt) != len(msig):
                continue
            if all(r == m or (r == 'M' and m in ('W', 'Q', 'E')) or (r == 'U' and m == 'W') or (r == 'N' and m == 'Q') for r, m in zip(alt, msig)):
                return True
        return False
    for key in sorted(U, key=lambda k: (k[0], k[1])):
        ent = ref.get(key)
        if ent is None or ent['kind'] != 'sse':
            continue
        kstr = '%s%s' % (' '.join('%02X' % b for b in key[0]), (' ' + key[1]) if key[1] else '')
        done = set()
        for c in U[key]:
            if not c.modifs.get(mmx_key) or c.row.idx in done:
                continue
            done.add(c.row.idx)
            digit = isinstance(c.row.afs, int)
            for pk in PFX:
                if pk not in ent['names']:
                    continue
                r = X.dis_mmx_modes(c.name, PBYTES[pk], bool(c.modifs.get(E['sw'])), digit=digit, row=RowView(c.opc, c.row.afs))
                inst = '%s %s prefix %s' % (kstr, c.name, pk)
                npname = ent['names'][pk][0]
                if pk in ent['ops']:
                    want = ent['ops'][pk]
                else:
                    base = ['P', 'Q'] if (pk == 'np' and npname.startswith('p')) else ['V', 'W']
                    if 'store' in ent['flags']:
                        base = base[::-1]
                    want = [base]
                if r == 'never':
                    R5.ok(inst + ':never-site', nontrivial=False)       # reported by C10.D2
                    continue
                if r == 'rejected':
                    R5.violation(inst, 'ssefile:%s:%s:rejected' % (kstr, pk), 'the decoder rejects %s with prefix %s (%s), an IA-32 instruction' % (kstr, pk, npname), where(arch, c.row.node))
                    continue
                opm, adm, swap = r
                if digit:
                    msig = [KIND_E.get(adm, 'r/m from the %s table' % adm)]
                else:
                    msig = [KIND_G.get(opm, 'reg from the %s file' % opm), KIND_E.get(adm, 'r/m with %s addressing (general registers)' % adm)]
                    if swap:
                        msig.reverse()
                # a segment / lock / address-size prefix must not change the selection
                r_seg = X.dis_mmx_modes(c.name, [0x64] + PBYTES[pk], bool(c.modifs.get(E['sw'])), digit=digit, row=RowView(c.opc, c.row.afs))
                if r_seg != r:
                    R5.violation(inst + ':seg', 'ssefile:prefix-sensitive:%s' % pk, 'with an additional segment prefix (64) the decoder selects %s for %s prefix %s instead of %s: the selection compares the '
                                 'whole prefix list instead of the mandatory prefix' % (r_seg, kstr, pk, r), where(arch, chain), witness='64 f3 0f 7e 00 renders movq DWORD PTR fs:[eax], eax')
                # width of the memory form, as the rendering shows it (an mm-sized operand is printed without size keyword: not compared)
                wref = ent['mem'].get(pk)
                if not digit and wref and wref.isdigit():
                    szs = X.dis_operand_sizes(c.name, c.modifs, c.row.rm, c.opc, c.row.afs, True, opm, adm, PBYTES[pk])
                    if isinstance(szs, tuple):
                        bits = {X.afs.u08: 8, X.afs.u16: 16, X.afs.u32: 32, X.afs.f32: 32, X.afs.f64: 64, X.afs.xmm: 128}.get(szs[1])
                        if bits is None:
                            R5.ok(inst + ':mem-width', nontrivial=False)
                        elif bits == int(wref):
                            R5.ok(inst + ':mem-width', sample='%s %s: m%d' % (kstr, npname, bits), nontrivial=(len(R5.nontrivial) < 600))
                        else:
                            R5.violation(inst + ':mem-width', 'ssemem:%s:%s:%d' % (kstr, pk, bits), 'the memory operand of %s (%s, prefix %s) is rendered with %d bits; IA-32: m%s (ref line %d)'
                                         % (npname, kstr, pk, bits, wref, ent['line']), where(arch, c.row.node), witness="dis(0f c4 00 11) printed 'pinsrw mm0, DWORD PTR [eax], 17'")
                if sig_ok(msig, want):
                    R5.ok(inst, sample='%s %s: %s' % (kstr, npname, ','.join(msig)))
                else:
                    R5.violation(inst, 'ssefile:%s:%s:%s' % (kstr, pk, ','.join(msig)), 'with prefix %s the decoder reads the operands of %s (%s) as %s; IA-32: %s (ref line %d)'
                                 % (pk, kstr, npname, ','.join(msig), ' | '.join(','.join(a) for a in want), ent['line']), where(arch, chain),
                                 witness='66 0f d6 c1 renders movq ecx, xmm0' if kstr == '0F D6' else None)

    # 16-bit addressing: the mm/xmm ModRM tables are 32-bit only, so such instructions must be rejected before operands are read
    for nm_, pfx_ in (('mova#ps#', []), ('#p#addb', [0x66]), ('mov#ups#', [0xF2])):
        inst = 'mmx 16-bit addressing %s %s' % (nm_, pfx_)
        if X.dis_mmx_rejected_early(nm_, pfx_, admode=X.afs.u16) is True:
            R5.ok(inst, sample='%s under 0x67 / 16-bit address size: rejected (no 16-bit mm/xmm tables)' % nm_)
        else:
            R5.violation(inst, 'ssefile:admode16', 'MMX/SSE rows are decoded under the 16-bit address size although the register-file selection overwrites the address mode and get_afs has only '
                         '32-bit tables for mm/xmm: the ModRM/SIB/displacement bytes are read with 32-bit rules (over-read)', where(arch, chain), witness='67 66 0f 6f 04 90 has length 5, decoded with length 6')

    # ---------------------------------------------------------------- D6 ModRM byte pre-processing of special register files
    R6 = report.rule('C01.D6', 'control/debug register moves ignore ModRM.mod; segment register numbers 6 and 7 are rejected', floor=20)
    base_mod = dict((E[k], None) for k in ('w8', 'se', 'sw', 'sd', 'wd', 'mmx', 'sg', 'cr', 'dr'))
    for label, key in (('control', 'cr'), ('debug', 'dr')):
        mods = dict(base_mod)
        mods[E[key]] = True
        for c in (0x00, 0x04, 0x45, 0x80, 0xC1, 0x3F):
            got = X.dis_rmr_pre(mods, c)
            inst = 'mov %s-register ModRM %02X' % (label, c)
            if got == (c | 0xC0):
                R6.ok(inst, sample='%s: r/m is read as a register whatever mod says (%02X -> %02X)' % (inst, c, got))
            else:
                R6.violation(inst, 'modrm-pre:%s:mod' % key, 'for mov to/from %s registers the decoder hands ModRM %02X to the addressing tables as %s: IA-32 ignores mod and always names a general register'
                             % (label, c, ('%02X' % got) if isinstance(got, int) else got), where(arch, dis), witness='0f 20 00 is mov eax, cr0 (3 bytes)')
    mods = dict(base_mod)
    mods[E['sg']] = True
    for reg in range(8):
        c = 0xC0 | (reg << 3)
        got = X.dis_rmr_pre(mods, c)
        inst = 'mov segment register %d' % reg
        want_rej = reg > 5
        if (got == 'rejected') == want_rej and (want_rej or got == c):
            R6.ok(inst, sample='segment register number %d: %s' % (reg, 'rejected' if want_rej else 'decoded'))
        else:
            R6.violation(inst, 'modrm-pre:sg:%d' % reg, 'mov with segment register number %d is %s; IA-32 has six segment registers (0..5)' % (reg, 'rejected' if got == 'rejected' else 'decoded'),
                         where(arch, dis), witness='8c f0 decodes and its rendering raises AttributeError')
    plain = X.dis_rmr_pre(base_mod, 0x45)
    if plain == 0x45:
        R6.ok('plain ModRM', sample='ordinary rows: ModRM byte unchanged')
    else:
        R6.violation('plain ModRM', 'modrm-pre:plain', 'ordinary reg,r/m rows get their ModRM byte changed to %s' % plain, where(arch, dis))

    strm = arch.method('x86_mn', '__str__')
    pops = [n for n in walk_no_nested(strm) if isinstance(n, ast.Call) and u(n.func) == 'prefix.pop' and not n.args]
    idx = [n for n in walk_no_nested(strm) if isinstance(n, ast.Call) and u(n.func) == 'mmx_prefixes.index']
    if not idx:
        raise AnalysisError('__str__: the mandatory-prefix lookup mmx_prefixes.index(..) was not found')
    if pops:
        R5.violation('__str__:mandatory-prefix', 'ssefile:__str__:pop', '__str__ takes the LAST prefix of an MMX/SSE instruction as its mandatory prefix (prefix.pop()): with a segment or lock prefix '
                     'mmx_prefixes.index raises ValueError', where(arch, pops[0]), witness='str(dis(64 0f fc 00)) raises ValueError: 100 is not in list')
    else:
        R5.ok('__str__:mandatory-prefix', sample='__str__ selects the mandatory prefix among the 66/F2/F3 prefixes only')

    # ---------------------------------------------------------------- D8 string instructions: the source segment follows the override prefix
    R8 = report.rule('C01.D8', 'string instructions: [esi] takes the segment-override prefix, [edi] stays in es', floor=30)
    from .. import stringops as SO
    afs = X.afs
    esi, edi = afs.reg_dict[afs.r_esi], afs.reg_dict[afs.r_edi]
    for fam, n_ops in SO.FAMILIES:
        for sfx in ('b', 'd'):
            mn = fam + sfx
            for segname, pbyte in sorted(SO.SEG_PREFIX.items()) + [(None, None)]:
                ops = SO.decoded_operands(X, mn, [pbyte] if pbyte else [])
                inst = '%s %s' % (('%s:' % segname) if segname else 'no override', mn)
                want_src = afs.reg_sg.index(segname) if segname else afs.reg_sg.index('ds')
                problems = []
                if len(ops) != n_ops:
                    problems.append('%d operands instead of %d' % (len(ops), n_ops))
                for o in ops:
                    if esi in o and o.get(afs.segm) != want_src:
                        problems.append('[esi] operand is in segment %s, the instruction reads %s:[esi]' % (afs.reg_sg[o.get(afs.segm)] if o.get(afs.segm) is not None else None, afs.reg_sg[want_src]))
                    if edi in o and o.get(afs.segm) != afs.reg_sg.index('es'):
                        problems.append('[edi] operand is not in es')
                if problems:
                    R8.violation(inst, 'string-segment:%s:%s' % (fam, ';'.join(problems)[:80]), '%s: %s' % (inst, '; '.join(problems)), where(arch, arch.method('x86_mn', 'special_opcodes')),
                                 witness='dis(64 a4): movs BYTE PTR es:[edi], BYTE PTR fs:[esi]')
                else:
                    R8.ok(inst, sample='%s -> segments %s' % (inst, [afs.reg_sg[o[afs.segm]] for o in ops]))

    # ---------------------------------------------------------------- D10 size-suffixed mnemonics follow the operand size
    R10 = report.rule('C01.D10', 'operand-less instructions named by their operand size (movsd/movsw, insd/insw, pushfd/pushfw, ...) take the 16-bit name under a 16-bit operand size', floor=9)
    for key in sorted(U, key=lambda k: (k[0], k[1])):
        ent = ref.get(key)
        if ent is None or ent['kind'] != 'int' or key[1]:
            continue
        pairs = [(n, w) for n in ent['names'] for w in ent['names'] if n != w and ((n[-1] == 'd' and w == n[:-1] + 'w') or w == n + 'w')]
        if not pairs:
            continue
        kstr = ' '.join('%02X' % b for b in key[0])
        names32 = set(c.name for c in U[key])
        for n32, n16 in pairs:
            if n32 not in names32:
                continue
            c = [c_ for c_ in U[key] if c_.name == n32][0]
            got16, pfx16 = SO.decoded_name(X, n32, afs.u16, [0x66], c.modifs)
            got32, _ = SO.decoded_name(X, n32, afs.u32, [], c.modifs)
            inst = '%s %s' % (kstr, n32)
            if got32 != n32:
                R10.violation(inst, 'size-name:%s:32' % n32, '%s (%s) is renamed %r by special_opcodes under the 32-bit operand size' % (kstr, n32, got32), where(arch, c.row.node))
            elif got16 != n16:
                R10.violation(inst, 'size-name:%s:16' % n32, '66 %s is reported as %r; under the 16-bit operand size IA-32 names it %s (ref line %d)' % (kstr, got16, n16, ent['line']),
                              where(arch, arch.method('x86_mn', 'special_opcodes')), witness='dis(66 6d) is insw')
            else:
                R10.ok(inst, sample='%s: %s, with 66: %s' % (kstr, n32, n16))

    # the byte forms of the string instructions ignore the operand-size prefix: 66 a4 is still movsb on byte operands
    w8k = E['w8']
    for stem in ('movs', 'cmps', 'stos', 'lods', 'scas'):
        nb = stem + 'b'
        cb = [c_ for c_ in X.cells.values() if c_.name == nb]
        if not cb:
            continue
        for pfx_ in ([0x66], [0xF3, 0x66], [0x66, 0x26]):
            name16, args16, _ = SO.special(X, nb, afs.u16, pfx_, cb[0].modifs, [])
            inst = '66 %s (%s)' % (nb, ' '.join('%02X' % b_ for b_ in pfx_))
            sizes = set(a_.get(afs.size) for a_ in args16)
            if name16 == nb and sizes == {afs.u08}:
                R10.ok(inst, sample='%s under the operand-size prefix: still %s on byte operands' % (nb, nb))
            else:
                R10.violation(inst, 'size-name:%s:byte-form' % stem, 'prefix %s in front of %s (a byte instruction: the operand-size prefix has no effect) is reported as %s with operand sizes %s'
                              % (' '.join('%02X' % b_ for b_ in pfx_), nb, name16, sorted(map(str, sizes))), where(arch, arch.method('x86_mn', 'special_opcodes')), witness='66 a4 is movsb')

    # ---------------------------------------------------------------- D9 a decode cannot change what the next decode returns
    R9 = report.rule('C01.D9', 'operands handed to a decoded instruction are objects created by that decode (never a shared table entry)', floor=8)
    from .c12 import operand_ownership_rule
    operand_ownership_rule(ctx, R9)

    # ---------------------------------------------------------------- D11 rendering is a read (shared with C09.D11 / C12.D11)
    R11 = report.rule('C01.D11', 'the Intel rendering shows the decoded instruction and leaves it as decoded: __str__ and the flow-metadata methods change nothing reachable from self '
                      '(the mandatory prefix an SSE mnemonic is chosen by is removed from a copy of the prefix list)', floor=4)
    from .c12 import readonly_methods_rule
    readonly_methods_rule(ctx, R11)

    # ---------------------------------------------------------------- D12 the rendering shows the segment override (shared with C09.D13)
    R12 = report.rule('C01.D12', 'the Intel rendering of a memory operand shows its segment override, whichever segment it is (dict_to_ad evaluated on segment x address shape)', floor=40)
    from .c09 import segment_render_rule
    segment_render_rule(ctx, R12)

    # ---------------------------------------------------------------- D13 the rendering shows the immediate
    R13 = report.rule('C01.D13', 'x86_mn.__str__ evaluated as a whole (Intel and AT&T) on every decoder form that carries an immediate, for immediates that differ in a low bit, in bits 3-7 '
                      'and in the top bit: different immediates give different texts, so no bit of the encoded immediate is dropped or folded into the mnemonic', floor=150)
    render_immediate_rule(ctx, R13)

    # ---------------------------------------------------------------- D14 the immediate as the decoder reads it (shared with C17.D8)
    R14 = report.rule('C01.D14', 'the operand loop of _dis evaluated on every immediate kind x (w8, se) of the live cells x operand size x boundary byte patterns: bytes consumed, width and '
                      'value of the immediate operand are the architectural ones (imm8 of 83 /r, 6A, 6B and every relative displacement sign-extended to the operand size; the others '
                      'zero-extended)', floor=18)
    from ..immdecode import imm_decode_rule
    imm_decode_rule(ctx, R14, X, 'C01')


def render_immediate_rule(ctx, R, sigil=False):
    """Shared with C03.D12.  The forms are those of the lifter model (operands as _dis builds them); the immediate is given three values and the method is interpreted from its source."""
    from ..liftforms import LifterModel
    from ..lifter import ModVal
    from ..consteval import Evaluator, Obj, NotConst, PyRaise, class_obj
    from .. import stringops as SO
    L = LifterModel(ctx, opmodes=('u32',), rich=False)
    X = L.X
    arch, afs, E = X.arch, X.afs, X.env
    strm = arch.method('x86_mn', '__str__')
    env = SO._env(X)
    for k, v in arch.funcs.items():
        env.setdefault(k, v)
    base_mod = dict((E[k], None) for k in ('w8', 'se', 'sw', 'ww', 'sg', 'dr', 'cr', 'ft', 'w64', 'sd', 'wd', 'bkf', 'spf', 'dtf', 'mmx') if k in E)
    VALUES = {8: (0x03, 0x0B, 0x83), 16: (0x1103, 0x110B, 0x9103), 32: (0x11223303, 0x1122330B, 0x91223303)}

    def render(inst, ops, fmt):
        me = class_obj(arch, 'x86_mn', 'self')
        m = Obj('m')
        m.name = inst.rowname
        mm = dict(base_mod)
        mm.update(inst.modifs)
        m.modifs = mm
        me.m, me.prefix, me.arg, me.cmt = m, list(inst.prefix or ()), ops, ''
        me.opmode = afs.u32 if inst.opmode == 'u32' else afs.u16
        me.admode = afs.u32
        return Evaluator(env).call_user(strm, [me, fmt])
    n, seen, skipped = 0, set(), 0
    for inst in L.instances:
        ops = inst.operands
        imms = [k for k, od in enumerate(ops) if not od.get(afs.ad) and isinstance(od.get(afs.imm), ModVal)]
        if not imms or any(isinstance(od.get(afs.imm), ModVal) and od.get(afs.ad) for od in ops) and False:
            continue
        shape = (inst.rowname, tuple(inst.prefix or ()), inst.form.split(';')[0], len(ops))
        if shape in seen:
            continue
        seen.add(shape)
        for k in imms:
            width = ops[k][afs.imm].size
            if width not in VALUES:
                continue
            for fmt in ('intel_syntax noprefix', 'att_syntax binutils'):
                texts = []
                try:
                    for val in VALUES[width]:
                        o2 = []
                        for j, od in enumerate(ops):
                            d = dict(od)
                            if isinstance(d.get(afs.imm), ModVal):
                                d[afs.imm] = val if j == k else (d[afs.imm].val if d[afs.imm].val is not None else 0x10)
                            o2.append(d)
                        texts.append(render(inst, o2, fmt))
                except PyRaise as e:
                    # a form the renderer cannot print is a matter for C10 (totality); nothing to compare here
                    skipped += 1
                    continue
                except NotConst as e:
                    raise AnalysisError('x86_mn.__str__ is outside the evaluable subset on %s: %s' % (inst.key(), e))
                n += 1
                iid = 'render-imm:%s:%d:%s' % (inst.key(), k, fmt.split('_')[0])
                if sigil and fmt.startswith('att') and len(ops) == 1 and inst.modifs.get(L.X.env['dtf']) and inst.modifs.get(L.X.env['bkf']) and '$' in texts[0]:
                    # a direct branch names its destination: GNU as writes `jne 2` / `loop 2` / `call 2`, and rejects `loop $2`
                    R.violation(iid + ':sigil', 'render-imm:sigil:%s' % inst.rowname, '%s is rendered %r in AT&T syntax: the destination of a direct branch is written without `$` '
                                '(GNU as rejects the immediate form)' % (inst.key(), texts[0].strip()), where(arch, strm), witness='e2 02 is `loop 2`')
                    continue
                if len(set(texts)) == len(texts):
                    R.ok(iid, nontrivial=(n % 5 == 0), sample='%s: %s / %s' % (inst.key(), texts[0].strip(), texts[2].strip()))
                else:
                    same = [(VALUES[width][a], VALUES[width][b]) for a in range(3) for b in range(a + 1, 3) if texts[a] == texts[b]][0]
                    R.violation(iid, 'render-imm:%s:%s' % (inst.rowname, fmt.split('_')[0]), '%s with the immediates %#x and %#x is rendered as the same text %r (%s): the text no longer '
                                'determines the immediate' % (inst.key(), same[0], same[1], texts[0].strip(), fmt.split(' ')[0]), where(arch, strm), witness='0f c2 c1 0b (cmpps xmm0, xmm1, 11)')
    if skipped:
        R.note('%d form x syntax combinations raise in __str__ and were left to C10' % skipped)
    if not n:
        raise AnalysisError('no decoder form with an immediate operand could be rendered')


MUTANTS = [
    ('ims-not-sign-extended', 'miasmx/arch/ia32_arch.py', 'self.intsize(struct.unpack(fmt, bin.readbs(taille))[0], dib==ims)})', 'self.intsize(struct.unpack(fmt, bin.readbs(taille))[0], False)})', 'C01.D14'),

    ('sse-cmp-pseudo-op-revived', 'miasmx/arch/ia32_arch.py', "'cmpsd', 'cmpss'] and len(args)==2 \\\n", "'cmpsd', 'cmpss'] and len(args)==3 \\\n", 'C01.D13'),
    ('pinsrw-mem-dword', 'miasmx/arch/ia32_arch.py', "    '#p#insrb':   x86_afs.u08, '#p#insrw':   x86_afs.u16,", "    '#p#insrb':   x86_afs.u08,", 'C01.D5'),
    ('movddup-m128', 'miasmx/arch/ia32_arch.py', "                                    or sse_prefix == [0xF2]: # (movddup)", "                                    or False:", 'C01.D5'),
    ('pushaw-not-renamed', 'miasmx/arch/ia32_arch.py', "                'pushad': x86mndb.pushaw_m, 'popad': x86mndb.popaw_m,\n", "                'popad': x86mndb.popaw_m,\n", 'C01.D10'),
    ('ins-unsized', 'miasmx/arch/ia32_arch.py', 'addop("insd",  [0x6D],', 'addop("ins",   [0x6D],', 'C01.D1'),
    ('mem16-digit-dropped', 'miasmx/arch/ia32_arch.py', "                if m.name in mnemo_mem16 and modr[x86_afs.ad]:\n                    mnemo_args[-1][x86_afs.size] = x86_afs.u16\n", "", 'C01.D1'),
    ('mem16-sreg-dropped', 'miasmx/arch/ia32_arch.py', "                            (m.modifs[sg] or m.name in mnemo_mem16):", "                            (m.name in mnemo_mem16):", 'C01.D1'),
    ('undefined-sse-accepted', 'miasmx/arch/ia32_arch.py', "                if mmx_undefined_form(m, sse_prefix):\n                    return None\n", "", 'C01.D1'),
    ('string-src-ds', 'miasmx/arch/ia32_arch.py', "    for p in prefix:\n        if p in prefix_seg_inv:\n            segm = prefix_seg_inv[p]\n    return segm", "    return segm", 'C01.D8'),
    ('memonly-lea-reg', 'miasmx/arch/ia32_arch.py', "                  'lea', 'lds', 'les', 'lss', 'lfs', 'lgs', 'bound',", "                  'lds', 'les', 'lss', 'lfs', 'lgs', 'bound',", 'C01.D7'),
    ('mmx-admode16-accepted', 'miasmx/arch/ia32_arch.py', "                if self.admode == u16:\n                    # 16-bit addressing of MMX/SSE operands is not", "                if False:\n                    # 16-bit addressing of MMX/SSE operands is not", 'C01.D5'),
    ('crdr-mod-honoured', 'miasmx/arch/ia32_arch.py', "                        c |= 0xC0\n", "                        pass\n", 'C01.D6'),
    ('sreg-6-7-decoded', 'miasmx/arch/ia32_arch.py', "                    if m.modifs[sg] and ((c>>3)&7) > 5:", "                    if m.modifs[sg] and ((c>>3)&7) > 7:", 'C01.D6'),
    ('sse-whole-prefix-list', 'miasmx/arch/ia32_arch.py', "            sse_prefix = [_ for _ in read_prefix if _ in mmx_prefixes[1:]]", "            sse_prefix = read_prefix", 'C01.D5'),
    ('str-prefix-pop', 'miasmx/arch/ia32_arch.py', "            sse = [_ for _ in prefix if _ in mmx_prefixes[1:]]\n            if len(sse) == 0: p = 0\n            else:\n                p = sse[-1]\n                prefix.remove(p)", "            if len(prefix) == 0: p = 0\n            else: p = prefix.pop()", 'C01.D5'),
    ('sse-pi2ps-file', 'miasmx/arch/ia32_arch.py', "                        elif '#pi2ps' in m.name:\n                            self.opmode = xmm\n                            if sse_prefix == [] or sse_prefix == [0x66]:\n                                self.admode = mm", "                        elif '#pi2ps' in m.name:\n                            self.opmode = xmm\n                            if sse_prefix == [] or sse_prefix == [0x66]:\n                                self.admode = xmm", 'C01.D5'),
    ('sse-digit-prefix', 'miasmx/arch/ia32_arch.py', "                    if sse_prefix == []:\n                        self.admode = mm\n                    elif sse_prefix == [0x66]:\n                        self.admode = xmm\n                re, modr", "                    if sse_prefix == []:\n                        self.admode = xmm\n                    elif sse_prefix == [0x66]:\n                        self.admode = mm\n                re, modr", 'C01.D5'),
    ('s32-not-narrowed', 'miasmx/arch/ia32_arch.py', "                    if self.opmode !=u32:\n                        if dib == u32: dib = u16\n                        if dib == s32: dib = s16\n                    l = struct.calcsize", "                    if self.opmode !=u32 and dib == u32: dib = u16\n                    l = struct.calcsize", 'C01.D3'),
    ('narrow-by-admode', 'miasmx/arch/ia32_arch.py', "                    if self.opmode !=u32:\n                        if dib == u32: dib = u16\n                        if dib == s32: dib = s16\n                    l = struct.calcsize", "                    if self.admode !=u32:\n                        if dib == u32: dib = u16\n                        if dib == s32: dib = s16\n                    l = struct.calcsize", 'C01.D3'),
    ('sib-scale', 'miasmx/arch/ia32_arch.py', "                    sib_rez[index][i] += 2**ss\n", "                    sib_rez[index][i] += 2*ss\n", 'C01.D4'),
    ('disp8-unsigned', 'miasmx/arch/ia32_arch.py', "                self.db_afs[i] = {x86_afs.ad:True, rm:1,x86_afs.imm:x86_afs.s08}", "                self.db_afs[i] = {x86_afs.ad:True, rm:1,x86_afs.imm:x86_afs.u08}", 'C01.D4'),
    ('rm16-swap', 'miasmx/arch/ia32_arch.py', "                                             [_si, _di][rm%2]:1,\n                                             [_bx, _bp][(rm>>1)%2]:1}\n            elif mod in [1,2]:", "                                             [_si, _di][rm%2]:1,\n                                             [_bp, _bx][(rm>>1)%2]:1}\n            elif mod in [1,2]:", 'C01.D4'),
    ('sib-base5-mod1', 'miasmx/arch/ia32_arch.py', "                if r != 5 or sib_rez != self.sib_rez_u32:\n                    sib_rez[index][r] = 1", "                if r != 5:\n                    sib_rez[index][r] = 1", 'C01.D4'),
    ('reg-order', 'miasmx/arch/ia32_reg.py', "self.r_esp, self.r_ebp, self.r_esi, self.r_edi]", "self.r_ebp, self.r_esp, self.r_esi, self.r_edi]", 'C01.D4'),
    ('bsf-opcode', 'miasmx/arch/ia32_arch.py', 'addop("bsf",   [0x0F, 0xBC]', 'addop("bsf",   [0x0F, 0xBD]', 'C01.D1'),
    ('len-prefix', 'miasmx/arch/ia32_arch.py', "            self.l = t_len\n", "            self.l = t_len + len(read_prefix)\n", 'C01.D2'),
    ('mim-opmode', 'miasmx/arch/ia32_arch.py', "                    l = struct.calcsize(x86_afs.dict_size[self.admode])\n                    d = struct.unpack(x86_afs.dict_size[self.admode], bin.readbs(l))[0]",
     "                    l = struct.calcsize(x86_afs.dict_size[self.opmode])\n                    d = struct.unpack(x86_afs.dict_size[self.opmode], bin.readbs(l))[0]", 'C01.D3'),
    ('disp16-4bytes', 'miasmx/arch/ia32_arch.py', "a[x86_afs.imm] = my_uint(struct.unpack('H', bin.readbs(2))[0])", "a[x86_afs.imm] = my_uint(struct.unpack('H', bin.readbs(4)[:2])[0])", 'C01.D3'),
    ('slice-bytes', 'miasmx/arch/ia32_arch.py', "            bin.offset = init_offset\n            bytes_ret = bin.readbs(t_len)\n", "            bytes_ret = bin[init_offset:t_len]\n", 'C01.D2'),
    ('67-toggles-opmode', 'miasmx/arch/ia32_arch.py', "                self.admode = [u16,u32][self.admode == u16]", "                self.opmode = [u16,u32][self.admode == u16]", 'C01.D3'),
]
