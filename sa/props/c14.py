"""C14 -- fixed-width integers are arithmetic modulo 2^n.

Proof by template conformance: Python integers are exact, so a method of the
shape  cls(self.arg OP y.arg)  with cls's constructor reducing modulo 2^size IS
the mathematically exact result reduced into the type's range.  One obligation
per (method, return path); plus constructor, maxcast, width-class obligations.
"""
import ast

from ..core import AnalysisError, where
from ..shapes import return_paths, u

BINOPS = {
    'add': ast.Add, 'sub': ast.Sub, 'mul': ast.Mult, 'and': ast.BitAnd, 'or': ast.BitOr,
    'xor': ast.BitXor, 'lshift': ast.LShift, 'rshift': ast.RShift, 'mod': ast.Mod,
}
COMMUTATIVE = {'add', 'mul', 'and', 'or', 'xor'}
LEGACY = {'__div__', '__rdiv__', '__long__', '__hex__', '__repr__'}   # python-2 protocol, outside the property
OPNAME = {ast.Add: '+', ast.Sub: '-', ast.Mult: '*', ast.BitAnd: '&', ast.BitOr: '|', ast.BitXor: '^',
          ast.LShift: '<<', ast.RShift: '>>', ast.Mod: '%', ast.Div: '/', ast.FloorDiv: '//', ast.Pow: '**'}

LIMITS = ('self.__class__.limit', 'self.limit', 'type(self).limit')
SELFCLS = ('self.__class__', 'type(self)')


def is_limit(n):
    return u(n) in LIMITS


def is_half_limit(n):
    if isinstance(n, ast.BinOp) and is_limit(n.left):
        if isinstance(n.op, (ast.Div, ast.FloorDiv)) and u(n.right) == '2':
            return True
        if isinstance(n.op, ast.RShift) and u(n.right) == '1':
            return True
    return False


def is_isinstance_moduint(test, var):
    return (isinstance(test, ast.Call) and u(test.func) == 'isinstance' and len(test.args) == 2
            and u(test.args[0]) == var and u(test.args[1]) in ('moduint', 'modint'))


def reduced(n, argnames):
    """int(X) % LIMIT  or  int(X) & (LIMIT - 1)"""
    if isinstance(n, ast.BinOp) and isinstance(n.left, ast.Call) and u(n.left.func) == 'int' \
            and len(n.left.args) == 1 and u(n.left.args[0]) in argnames:
        if isinstance(n.op, ast.Mod) and is_limit(n.right):
            return True
        if isinstance(n.op, ast.BitAnd) and isinstance(n.right, ast.BinOp) and is_limit(n.right.left) \
                and isinstance(n.right.op, ast.Sub) and u(n.right.right) == '1':
            return True
    return False


def vocab_closed(n, allowed_names):
    """True when the expression only uses arithmetic over the constructor's own vocabulary."""
    for x in ast.walk(n):
        if isinstance(x, ast.Name) and x.id not in allowed_names and x.id not in ('int', 'type'):
            return False
        if isinstance(x, ast.Call) and u(x.func) not in ('int', 'type'):
            return False
        if isinstance(x, (ast.Subscript, ast.Lambda, ast.IfExp, ast.Compare, ast.BoolOp)):
            return False
    return True


def final_arg_store(path):
    vals = [v for (t, v) in path.stores if t is not None and u(t) == 'self.arg']
    return vals[-1] if vals else None


def check_ctor(mod, R, cname, signed):
    fn = mod.method(cname, '__init__')
    if len(fn.args.args) != 2:
        raise AnalysisError('%s.__init__ signature changed' % cname)
    a = fn.args.args[1].arg
    argnames = (a, a + '.arg')
    for p in return_paths(fn):
        if p.raised:
            continue
        desc = ' and '.join(('' if pol else 'not ') + u(t) for t, pol in p.conds) or 'always'
        inst = '%s.__init__[%s]' % (cname, desc)
        v = final_arg_store(p)
        key = '%s.__init__' % cname
        if v is None:
            R.violation(inst, key, 'constructor path stores no self.arg', where(mod, fn))
            continue
        unwrapped = any(is_isinstance_moduint(t, a) and pol for t, pol in p.conds)
        good = False
        if not signed:
            good = reduced(v, argnames)
        else:
            # either  M  under  not (M >= LIMIT/2)   or  M - LIMIT  under  M >= LIMIT/2
            tests = [(t, pol) for t, pol in p.conds if not is_isinstance_moduint(t, a)]
            if len(tests) == 1:
                t, pol = tests[0]
                if isinstance(t, ast.Compare) and len(t.ops) == 1 and isinstance(t.ops[0], ast.GtE) \
                        and reduced(t.left, argnames) and is_half_limit(t.comparators[0]):
                    if pol:
                        good = (isinstance(v, ast.BinOp) and isinstance(v.op, ast.Sub)
                                and reduced(v.left, argnames) and is_limit(v.right))
                    else:
                        good = reduced(v, argnames)
        if good:
            R.ok(inst, sample='%s: self.arg = %s' % (inst, u(v)))
        elif vocab_closed(v, {a, 'self'}) and all(vocab_closed(t, {a, 'self'}) or is_isinstance_moduint(t, a)
                                                   or isinstance(t, ast.Compare) for t, _ in p.conds):
            R.violation(inst, key + ':' + u(v),
                        'constructor does not normalise into the type range on path [%s]: self.arg = %s'
                        % (desc, u(v)), where(mod, fn))
        else:
            raise AnalysisError('%s.__init__ has a shape outside the template family: %s' % (cname, u(v)))


def check_maxcast(mod, R):
    fn = mod.method('moduint', 'maxcast')
    params = [x.arg for x in fn.args.args]
    if len(params) != 2:
        raise AnalysisError('maxcast signature changed')
    c1, c2 = params
    # must be wrapped as classmethod
    cm = any(isinstance(d, ast.Name) and d.id == 'classmethod' for d in fn.decorator_list)
    for st in mod.cls('moduint').body:
        if isinstance(st, ast.Assign) and u(st.value) == 'classmethod(maxcast)':
            cm = True
    if not cm:
        R.violation('maxcast', 'moduint.maxcast', 'maxcast is not a classmethod', where(mod, fn))
    paths = return_paths(fn)
    ok = True
    big, small = c1, c2 + '.__class__'
    for p in paths:
        tests = p.conds
        if len(tests) != 1:
            ok = False
            break
        t, pol = tests[0]
        if not (isinstance(t, ast.Compare) and len(t.ops) == 1):
            ok = False
            break
        l, r, op = u(t.left), u(t.comparators[0]), t.ops[0]
        ret = u(p.ret)
        # normalise to: "X.size > Y.size" polarity
        sz = {c1 + '.size': c1, c2 + '.__class__.size': c2 + '.__class__', c2 + '.size': c2 + '.__class__'}
        if l not in sz or r not in sz or sz[l] == sz[r]:
            ok = False
            break
        L, Rr = sz[l], sz[r]
        if isinstance(op, (ast.Gt, ast.GtE)):
            larger_when_true, other = L, Rr
        elif isinstance(op, (ast.Lt, ast.LtE)):
            larger_when_true, other = Rr, L
        else:
            ok = False
            break
        want = larger_when_true if pol else other
        if ret != want:
            ok = False
            break
    if ok and len(paths) == 2:
        R.ok('maxcast', sample='maxcast returns the class with the larger size on both paths')
    else:
        R.violation('maxcast', 'moduint.maxcast', 'maxcast does not return the wider class on every path',
                    where(mod, fn))


def classify_wrapper(call):
    """'max' (self.maxcast(y)), 'self' (self.__class__), None"""
    f = u(call.func)
    if f in SELFCLS:
        return 'self'
    if isinstance(call.func, ast.Call) and u(call.func.func) == 'self.maxcast':
        return 'max:' + ','.join(u(a) for a in call.func.args)
    return None


def check_binop(mod, R, cname, name, fn):
    base = name.strip('_')
    reflected = base.startswith('r') and base[1:] in BINOPS and base not in BINOPS
    opname = base[1:] if reflected else base
    pyop = BINOPS[opname]
    params = [x.arg for x in fn.args.args]
    if len(params) != 2:
        raise AnalysisError('%s.%s signature changed' % (cname, name))
    y = params[1]
    key = '%s.%s' % (cname, name)
    if opname == 'rshift':
        # a right shift by a count of at least the width is 0 for non-negative values only: the signed classes inherit the method
        # (an arithmetic shift of a negative value keeps all-ones), so an early `return cls(0)` guarded by the count is a violation
        for p in return_paths(fn):
            if isinstance(p.ret, ast.Call) and len(p.ret.args) == 1 and isinstance(p.ret.args[0], ast.Constant) and p.ret.args[0].value == 0:
                big = [t for t, pol in p.conds if pol and isinstance(t, ast.Compare) and len(t.ops) == 1 and isinstance(t.ops[0], (ast.GtE, ast.Gt)) and u(t.comparators[0]).endswith('.size')]
                if big:
                    R.violation('%s[%s]' % (key, u(big[0])), key + ':zero-for-large-count', '%s returns 0 when %s: true for non-negative operands only; the signed classes inherit this method '
                                'and the arithmetic right shift of a negative value by a count >= the width is -1' % (name, u(big[0])), where(mod, fn), witness='int8(-1) >> 8 == int8(0)')
                    return
    for p in return_paths(fn):
        desc = ' and '.join(('' if pol else 'not ') + u(t) for t, pol in p.conds) or 'always'
        inst = '%s[%s]' % (key, desc)
        ret = p.ret
        # delegation of a reflected commutative operator to the direct one
        if isinstance(ret, ast.Call) and u(ret.func) == 'self.__%s__' % opname and reflected \
                and [u(a) for a in ret.args] == [y] and not p.conds:
            if opname in COMMUTATIVE:
                R.ok(inst, sample='%s delegates to __%s__ (commutative)' % (key, opname))
            else:
                R.violation(inst, key, 'reflected %s delegates to the direct method although %s is not commutative'
                            % (name, OPNAME[pyop]), where(mod, fn))
            continue
        if not (isinstance(ret, ast.Call) and len(ret.args) == 1 and not ret.keywords):
            R.violation(inst, key + ':' + u(ret), 'result of %s is not wrapped in a fixed-width class: returns %s'
                        % (name, u(ret)), where(mod, fn))
            continue
        wrap = classify_wrapper(ret)
        if wrap is None and isinstance(ret.func, ast.Attribute) and u(ret.func.value) == 'self' and ret.func.attr.startswith('__') and ret.func.attr.endswith('__'):
            # delegation to another operator method with a transformed operand
            arg = ret.args[0]
            other = ret.func.attr
            if u(arg) == y:
                R.violation(inst, key + ':' + u(ret), '%s delegates to %s with the same operand: a different operator' % (name, other), where(mod, fn))
            elif any(isinstance(x, ast.Name) and x.id == y for x in ast.walk(arg)):
                R.violation(inst, key + ':' + u(ret), '%s computes %s first, i.e. reduces the intermediate value modulo 2^n in the class of %s, and only then combines it in the wider class: '
                            'for operands of different widths the result is not (self.arg %s %s.arg) mod 2^n of the wider type'
                            % (name, u(arg), y, OPNAME.get(pyop, opname), y), where(mod, fn), witness='uint16(0) - uint8(1) == uint16(0xff)')
            else:
                raise AnalysisError('%s returns through an unmodelled wrapper: %s' % (key, u(ret)))
            continue
        if wrap is None and isinstance(ret.func, ast.Attribute) and isinstance(ret.func.value, ast.Call) and u(ret.func.value.func) in ('self.__class__', 'type(self)') \
                and [u(a) for a in ret.func.value.args] == [y] and [u(a) for a in ret.args] == ['self'] and ret.func.attr == '__%s__' % opname and reflected:
            # y OP self computed as T(y).__OP__(self): the plain left operand is reduced modulo 2^n first -- exact only when OP commutes with the reduction
            if opname in ('add', 'sub', 'mul', 'and', 'or', 'xor', 'lshift'):
                R.ok(inst, sample='%s reduces the left operand first: exact for %s (a ring / bitwise operation)' % (key, OPNAME.get(pyop, opname)))
            else:
                R.violation(inst, key + ':reduced-left:' + opname, '%s computes %s: the plain left operand is reduced modulo 2^n before %s is applied, and %s does not commute with that '
                            'reduction (the exact result reduced modulo 2^n is something else for an operand outside the range of the type)'
                            % (name, u(ret), OPNAME.get(pyop, opname), OPNAME.get(pyop, opname)), where(mod, fn), witness='300 % uint8(7) gives 2 (44 % 7), the exact remainder is 6')
            continue
        if wrap is None:
            raise AnalysisError('%s returns through an unmodelled wrapper: %s' % (key, u(ret)))
        e = ret.args[0]
        is_mod = [pol for t, pol in p.conds if is_isinstance_moduint(t, y)]
        others = [(t, pol) for t, pol in p.conds if not is_isinstance_moduint(t, y)]
        if len(is_mod) != 1:
            raise AnalysisError('%s has an unmodelled branch structure' % key)
        ymod = is_mod[0]
        want_l, want_r = ('self.arg', y + '.arg' if ymod else y)
        if reflected:
            want_l, want_r = want_r, want_l
        if others:
            # the only extra branch in the template family: a left shift whose count is at least the width of the result class
            # gives 0 (exact: (a << n) mod 2^size == 0 for n >= size) without building the shifted integer
            cls_txt = u(ret.func)
            good_guard = (opname == 'lshift' and len(others) == 1 and isinstance(others[0][0], ast.Compare) and len(others[0][0].ops) == 1
                          and isinstance(others[0][0].ops[0], ast.GtE) and u(others[0][0].left) == want_r
                          and u(others[0][0].comparators[0]) in ('self.__class__.size', 'self.size', 'type(self).size', 'self.maxcast(%s).size' % y, cls_txt + '.size'))
            if not good_guard:
                raise AnalysisError('%s has an unmodelled branch structure: %s' % (key, [u(t) for t, _ in others]))
            gcls = u(others[0][0].comparators[0])[:-len('.size')]
            if gcls in ('self', 'type(self)'):
                gcls = 'self.__class__'
            if gcls != cls_txt and not gcls.startswith('self.maxcast('):
                # bound taken from a class that may be narrower than the result class: counts between the two widths give 0 wrongly
                R.violation(inst, key + ':bound-class:' + gcls, '%s compares the count with %s.size but returns a %s: for a count between the two widths the result is not 0'
                            % (name, gcls, cls_txt), where(mod, fn), witness='uint8(1) << uint16(9)')
                continue
            if others[0][1]:
                if isinstance(e, ast.Constant) and e.value == 0:
                    if (ymod and wrap == 'max:' + y) or (not ymod and wrap == 'self'):
                        R.ok(inst, sample='%s [%s] -> %s (count >= width: every bit shifted out)' % (key, desc, u(ret)))
                    else:
                        R.violation(inst, key + ':wrapper:' + u(ret.func), 'the zero result of %s is not of the result class' % name, where(mod, fn))
                else:
                    R.violation(inst, key + ':' + u(e), '%s returns %s for a count >= the width, expected 0' % (name, u(e)), where(mod, fn))
                continue
        if not isinstance(e, ast.BinOp):
            raise AnalysisError('%s wraps a non-binary expression: %s' % (key, u(e)))
        if type(e.op) is not pyop:
            R.violation(inst, key + ':' + u(e), '%s computes %s instead of %s' %
                        (name, OPNAME.get(type(e.op), type(e.op).__name__), OPNAME[pyop]), where(mod, fn))
            continue
        if (u(e.left), u(e.right)) != (want_l, want_r):
            if opname in COMMUTATIVE and (u(e.right), u(e.left)) == (want_l, want_r):
                pass
            else:
                R.violation(inst, key + ':' + u(e), '%s operands are (%s, %s), expected (%s, %s)' %
                            (name, u(e.left), u(e.right), want_l, want_r), where(mod, fn))
                continue
        if ymod and wrap != 'max:' + y:
            R.violation(inst, key + ':wrapper:' + u(ret.func),
                        'mixed-width result of %s is not cast to the wider class (maxcast(%s))' % (name, y),
                        where(mod, fn))
            continue
        if not ymod and wrap != 'self':
            R.violation(inst, key + ':wrapper:' + u(ret.func),
                        'plain-integer operand in %s must keep the fixed-width type' % name, where(mod, fn))
            continue
        if opname == 'lshift' and not others:
            R.violation(inst + ':bound', key + ':unbounded-count', '%s computes %s for any count: a count of 2^64-1 (in range for a 64-bit operand) asks for an integer of 2^64 bits '
                        '(MemoryError / OverflowError) although the result is 0' % (name, u(e)), where(mod, fn), witness='uint64(1) << uint64(2**64-1) raises MemoryError')
            continue
        R.ok(inst, sample='%s [%s] -> %s' % (key, desc, u(ret)))


def check_unary(mod, R, cname, name, fn, pyop, fname=None):
    key = '%s.%s' % (cname, name)
    for p in return_paths(fn):
        ret = p.ret
        inst = key
        if p.conds:
            raise AnalysisError('%s has branches' % key)
        if not (isinstance(ret, ast.Call) and classify_wrapper(ret) == 'self' and len(ret.args) == 1):
            R.violation(inst, key + ':' + u(ret), '%s returns %s, not reduced into the type (expected self.__class__(...))'
                        % (name, u(ret)), where(mod, fn))
            continue
        e = ret.args[0]
        good = False
        if pyop is not None:
            good = isinstance(e, ast.UnaryOp) and type(e.op) is pyop and u(e.operand) == 'self.arg'
        else:
            good = isinstance(e, ast.Call) and u(e.func) == fname and [u(a) for a in e.args] == ['self.arg']
        if good:
            R.ok(inst, sample='%s -> %s' % (key, u(ret)))
        else:
            R.violation(inst, key + ':' + u(e), '%s computes %s' % (name, u(e)), where(mod, fn))


def bool_table(node, y):
    """Abstract a comparison-method return into a truth table over the three
    orderings of (self, y): '<', '==', '>'.  Atoms: self == y, self < y (through
    the primary methods) or direct comparisons of self.arg with y / y.arg."""
    def ev(n, order):
        if isinstance(n, ast.UnaryOp) and isinstance(n.op, ast.Not):
            return not ev(n.operand, order)
        if isinstance(n, ast.BoolOp):
            vals = [ev(v, order) for v in n.values]
            return all(vals) if isinstance(n.op, ast.And) else any(vals)
        if isinstance(n, ast.Compare) and len(n.ops) == 1:
            l, r = u(n.left), u(n.comparators[0])
            pair_ok = (l in ('self', 'self.arg') and r in (y, y + '.arg'))
            flipped = (r in ('self', 'self.arg') and l in (y, y + '.arg'))
            if not (pair_ok or flipped):
                raise AnalysisError('comparison atom outside the model: %s' % u(n))
            o = order if pair_ok else {'<': '>', '>': '<', '==': '=='}[order]
            op = n.ops[0]
            return {ast.Eq: o == '==', ast.NotEq: o != '==', ast.Lt: o == '<', ast.LtE: o in '<==',
                    ast.Gt: o == '>', ast.GtE: o in ('>', '==')}[type(op)]
        raise AnalysisError('comparison shape outside the model: %s' % u(n))
    return tuple(bool(ev(node, o)) for o in ('<', '==', '>'))


CMP_EXPECT = {'__eq__': (False, True, False), '__ne__': (True, False, True), '__lt__': (True, False, False),
              '__le__': (True, True, False), '__gt__': (False, False, True), '__ge__': (False, True, True)}


def check_cmp(mod, R, cname, name, fn):
    params = [x.arg for x in fn.args.args]
    y = params[1]
    key = '%s.%s' % (cname, name)
    for p in return_paths(fn):
        desc = ' and '.join(('' if pol else 'not ') + u(t) for t, pol in p.conds) or 'always'
        inst = '%s[%s]' % (key, desc)
        for t, pol in p.conds:
            if not is_isinstance_moduint(t, y):
                raise AnalysisError('%s has an unmodelled branch' % key)
        ymod = [pol for t, pol in p.conds]
        # operand discipline: on the moduint path the raw value y.arg must be compared, never the wrapper
        # identity; comparing `self.arg` with `y` on the moduint path would recurse through y's reflected
        # comparison and is still value-based, so only the truth table is an obligation.
        tbl = bool_table(p.ret, y)
        if tbl == CMP_EXPECT[name]:
            R.ok(inst, sample='%s [%s] -> %s  table(<,==,>)=%s' % (key, desc, u(p.ret), tbl))
        else:
            R.violation(inst, key + ':' + u(p.ret), '%s returns %s: truth table over (<,==,>) is %s, expected %s'
                        % (name, u(p.ret), tbl, CMP_EXPECT[name]), where(mod, fn))


def run(ctx, report):
    """Two deciders: (1) every operator of every width class evaluated from the source against the mathematical definition on the boundary domain the class
    declarations span (sa/modinteval.py); (2) template conformance of the method bodies (a proof for all values when every method matches a template).
    A template that does not match is reported only when the evaluation has a witness: a re-arranged but correct method (helper extracted, branches
    merged) is decided by (1) alone, and the evidence level of that run is `other` instead of `proof`."""
    from .. import modinteval
    mod = ctx.mod('modint')
    res = modinteval.evaluate(ctx)
    ER = res['result']
    RE = report.rule('C14.eval', 'constructors, + - * & | ^ << >> % **, unary - ~ abs, the six comparisons, int() and hash of all 11 width classes, evaluated from the source on boundary values x '
                     'class pairs x plain integers x shift counts around and far beyond each width: exact result reduced into the result type, wider type wins, plain integers keep the type, '
                     'reflected forms agree, equal values hash equally, no integer of count-many bits is built', floor=30)
    for group in sorted(ER.count):
        bads = sorted((k, m) for (g, k), m in ER.bad.items() if g == group)
        if not bads:
            RE.ok('eval[%s]' % group, sample='%s: %d evaluations agree with the definition' % (group, ER.count[group]))
        for kind, msg in bads:
            RE.violation('eval[%s]:%s' % (group, kind), 'eval:%s:%s' % (group, kind), msg, where(mod, mod.tree))
    report.analysed['evaluations'] = sum(ER.count.values())
    clean = not ER.bad
    try:
        run_templates(ctx, report)
    except AnalysisError as e:
        # with or without evaluated witnesses the verdict of this run is the evaluation's
        report.level = 'other'
        RE.note('the template analysis stopped (%s): this run is decided by the evaluation alone' % e)
        for r in report.rules:
            if r is not RE:
                r.floor = 0
                r.findings = []
        return
    if clean:
        for r in report.rules:
            if r is not RE and r.findings:
                for f in r.findings:
                    RE.note('template %s %s not matched (%s); no evaluated witness: decided by the evaluation' % (f.rule, f.key, f.what[:120]))
                r.findings = []
                report.level = 'other'


def run_templates(ctx, report):
    mod = ctx.mod('modint')
    report.level = 'proof'
    report.explanation = (
        'Template-conformance proof over miasmx/tools/modint.py: constructors end in int(x) % limit (signed: '
        're-centred when >= limit/2), limit == 1<<size for every width class, maxcast returns the wider class, '
        'every binary operator method returns cls(self.arg OP y.arg) / self.__class__(self.arg OP y) with OP the '
        'operator named by the dunder and operands in direct/reflected order, unary methods are wrapped, '
        'comparison methods realise the right truth table over the orderings and __hash__/__int__ depend on .arg only. '
        'Python integers are exact, so conformance to the template is the property.')
    report.not_decided = 'none inside the stated operator list; __div__/__rdiv__/__long__/__hex__ are python-2 protocol methods outside the property.'
    report.trusted_base = ['CPython int arithmetic is exact', 'CPython ast parser', 'the template family in sa/props/c14.py']

    R1 = report.rule('C14.ctor', 'constructors normalise into the type range', floor=3)
    check_ctor(mod, R1, 'moduint', signed=False)
    check_ctor(mod, R1, 'modint', signed=True)

    R2 = report.rule('C14.width', 'every width class has limit == 1 << size and derives from moduint/modint', floor=11)
    one_ok = False
    for st in mod.toplevel():
        if isinstance(st, ast.Assign) and u(st.targets[0]) == 'one' and u(st.value) == '1':
            one_ok = True
    widths = {}
    for cname, c in mod.classes.items():
        if cname in ('moduint', 'modint'):
            continue
        chain = mod.mro(cname)
        if 'moduint' not in chain:
            continue
        ca = mod.class_assigns(cname)
        inst = cname
        if 'size' not in ca or 'limit' not in ca:
            R2.violation(inst, cname, 'width class lacks size/limit', where(mod, c))
            continue
        size = ca['size']
        lim = u(ca['limit'])
        if not (isinstance(size, ast.Constant) and isinstance(size.value, int) and size.value > 0):
            R2.violation(inst, cname, 'size is not a positive literal', where(mod, c))
            continue
        good_lim = lim in ('1 << size', '2 ** size', '1 << %d' % size.value, '2 ** %d' % size.value, str(1 << size.value)) \
            or (lim == 'one << size' and one_ok)
        for m in mod.methods(cname):
            raise AnalysisError('width class %s overrides method %s (not modelled)' % (cname, m))
        if not good_lim:
            R2.violation(inst, cname + ':limit', 'limit is %s, expected 1 << size' % lim, where(mod, c))
            continue
        signed = 'modint' in chain
        widths[cname] = (size.value, signed)
        R2.ok(inst, sample='%s: size=%d signed=%s limit=%s' % (cname, size.value, signed, lim))
    want = {(1, False), (8, False), (16, False), (32, False), (64, False), (128, False),
            (8, True), (16, True), (32, True), (64, True), (128, True)}
    missing = want - set(widths.values())
    for w in sorted(missing):
        R2.violation('width%s' % (w,), 'missing-width:%d:%s' % w, 'no class for width %d signed=%s' % w)

    R3 = report.rule('C14.maxcast', 'mixed widths select the wider class', floor=1)
    check_maxcast(mod, R3)

    R4 = report.rule('C14.op', 'operator methods conform to the modular template', floor=30)
    seen = set()
    for cname in ('moduint', 'modint'):
        for name, fn in mod.methods(cname).items():
            if name in ('__init__', 'maxcast') or name in LEGACY:
                continue
            base = name.strip('_')
            seen.add(name)
            if base in BINOPS or (base.startswith('r') and base[1:] in BINOPS):
                check_binop(mod, R4, cname, name, fn)
            elif name == '__neg__':
                check_unary(mod, R4, cname, name, fn, ast.USub)
            elif name == '__invert__':
                check_unary(mod, R4, cname, name, fn, ast.Invert)
            elif name == '__abs__':
                check_unary(mod, R4, cname, name, fn, None, 'abs')
            elif name in CMP_EXPECT:
                check_cmp(mod, R4, cname, name, fn)
            elif name in ('__hash__', '__int__'):
                f = name.strip('_')
                ps = return_paths(fn)
                if len(ps) == 1 and not ps[0].conds and u(ps[0].ret) in ('%s(self.arg)' % f, 'self.arg'):
                    R4.ok('%s.%s' % (cname, name), sample='%s -> %s' % (name, u(ps[0].ret)))
                else:
                    R4.violation('%s.%s' % (cname, name), '%s.%s' % (cname, name),
                                 '%s does not depend on .arg only: %s' % (name, [u(p.ret) for p in ps]), where(mod, fn))
            elif name == '__bool__':
                ps = return_paths(fn)
                if len(ps) == 1 and not ps[0].conds and u(ps[0].ret).replace(' ', '') in ('self.arg!=0', 'bool(self.arg)'):
                    R4.ok('%s.%s' % (cname, name), sample='__bool__ -> %s' % u(ps[0].ret))
                else:
                    R4.violation('%s.%s' % (cname, name), '%s.%s' % (cname, name), '__bool__ is not (self.arg != 0): %s' % [u(p.ret) for p in ps], where(mod, fn))
            elif name == '__pow__':
                ps = [p for p in return_paths(fn) if not p.raised]
                v = fn.args.args[1].arg
                key = '%s.%s' % (cname, name)
                for p in ps:
                    ismod = [pol for t, pol in p.conds if is_isinstance_moduint(t, v)]
                    desc = ' and '.join(('' if pol else 'not ') + u(t) for t, pol in p.conds) or 'always'
                    inst = '%s[%s]' % (key, desc)
                    ret = p.ret
                    wrap = classify_wrapper(ret) if isinstance(ret, ast.Call) and len(ret.args) == 1 else None
                    if wrap is None:
                        R4.violation(inst, key + ':' + u(ret), '__pow__ returns %s, not a fixed-width value' % u(ret), where(mod, fn))
                        continue
                    ymod = bool(ismod and ismod[0])
                    expo = (v + '.arg') if ymod else v
                    cls_txt = u(ret.func)
                    e = ret.args[0]
                    exact = u(e) == 'self.arg ** %s' % expo
                    modular = u(e).replace(' ', '') == 'pow(self.arg,%s,%s.limit)' % (expo, cls_txt)
                    if not (exact or modular):
                        R4.violation(inst, key + ':' + u(e), '__pow__ computes %s, neither self.arg ** %s nor pow(self.arg, %s, limit)' % (u(e), expo, expo), where(mod, fn))
                    elif exact:
                        R4.violation(inst, key + ':exact-power', '__pow__ computes the exact power %s before reducing it: an exponent in range for the type (2^64-1) never returns' % u(e),
                                     where(mod, fn), witness='uint64(3) ** uint64(2**64-1)')
                    elif (ymod and wrap != 'max:' + v) or (not ymod and ismod and wrap != 'self'):
                        R4.violation(inst, key + ':wrapper:' + cls_txt, '__pow__ with a fixed-width exponent is not cast to the wider class', where(mod, fn), witness='uint8(2) ** uint16(9) == uint8(0)')
                    elif not ismod:
                        R4.violation(inst, key + ':no-width-dispatch', '__pow__ does not look at the class of its exponent: a wider fixed-width exponent does not widen the result',
                                     where(mod, fn), witness='uint8(2) ** uint16(9) == uint8(0)')
                    else:
                        R4.ok(inst, sample='__pow__ [%s] -> %s' % (desc, u(ret)))
                if not ps:
                    raise AnalysisError('__pow__ has no returning path')
            elif name == '__rpow__':
                ps = return_paths(fn)
                v = fn.args.args[1].arg
                if len(ps) == 1 and u(ps[0].ret) == '%s ** self.arg' % v:
                    R4.ok('%s.%s' % (cname, name), sample='__rpow__ -> %s (plain int base: result is a plain integer power)' % u(ps[0].ret))
                    R4.note('__rpow__ returns the unreduced plain integer v ** self.arg (base is a plain int; not a fixed-width result)')
                else:
                    R4.violation('%s.%s' % (cname, name), '%s.%s' % (cname, name),
                                 '__rpow__ is not v ** self.arg: %s' % [u(p.ret) for p in ps], where(mod, fn))
            else:
                raise AnalysisError('method %s.%s is not covered by a template' % (cname, name))
    needed = set('__%s__' % b for b in BINOPS) | set('__r%s__' % b for b in BINOPS) | set(CMP_EXPECT) | \
        {'__neg__', '__invert__', '__abs__', '__hash__', '__int__', '__pow__'}
    for m in sorted(needed - seen):
        R4.violation(m, 'missing:' + m, 'operator method %s is not defined' % m)
    report.analysed['methods'] = sorted(seen)


MUTANTS = [
    ('rshift-zero-large-count', 'miasmx/tools/modint.py', "    def __rshift__(self, y):\n        if isinstance(y, moduint):\n            cls = self.maxcast(y)\n            return cls(self.arg >> y.arg)", "    def __rshift__(self, y):\n        if isinstance(y, moduint):\n            cls = self.maxcast(y)\n            if y.arg >= cls.size:\n                return cls(0)\n            return cls(self.arg >> y.arg)", 'C14.op'),
    ('lshift-unbounded', 'miasmx/tools/modint.py', "        if y >= cls.size:\n            # every bit is shifted out (do not build the huge intermediate)\n            return cls(0)\n", "", 'C14.op'),
    ('pow-exact', 'miasmx/tools/modint.py', "        return cls(pow(self.arg, v, cls.limit))", "        return cls(self.arg ** v)", 'C14.op'),
    ('sub-via-add-neg', 'miasmx/tools/modint.py', "    def __sub__(self, y):\n", "    def __sub__(self, y):\n        return self.__add__(-y)\n", 'C14.op'),
    ('rsub-order', 'miasmx/tools/modint.py', 'return self.__class__(y - self.arg)', 'return self.__class__(self.arg - y)', 'C14.op'),
    ('ctor-no-mod', 'miasmx/tools/modint.py', 'self.arg = int(arg)%self.__class__.limit', 'self.arg = int(arg)', 'C14.ctor'),
    ('signed-gt', 'miasmx/tools/modint.py', 'if a >= self.__class__.limit/2:', 'if a > self.__class__.limit/2:', 'C14.ctor'),
    ('xor-or', 'miasmx/tools/modint.py', 'return cls(self.arg ^ y.arg)', 'return cls(self.arg | y.arg)', 'C14.op'),
    ('maxcast-flip', 'miasmx/tools/modint.py', 'if c1.size > c2.size:', 'if c1.size < c2.size:', 'C14.maxcast'),
    ('limit-off', 'miasmx/tools/modint.py', 'class uint16(moduint):\n    size = 16\n    limit = one<<size', 'class uint16(moduint):\n    size = 16\n    limit = one<<15', 'C14.width'),
    ('ge-wrong', 'miasmx/tools/modint.py', 'return not (self<y)', 'return not (self==y or self<y)', 'C14.op'),
    ('unwrap-and', 'miasmx/tools/modint.py', 'return self.__class__(self.arg & y)', 'return self.arg & y', 'C14.op'),
    ('lshift-selfcls', 'miasmx/tools/modint.py', '            return cls(0)\n        return cls(self.arg << y)', '            return cls(0)\n        return self.__class__(self.arg << y)', 'C14.op'),
    ('neg-unwrapped', 'miasmx/tools/modint.py', 'return self.__class__(-self.arg)', 'return -self.arg', 'C14.op'),
    ('hash-id', 'miasmx/tools/modint.py', 'return hash(self.arg)', 'return hash((self.__class__.__name__, self.arg))', 'C14.op'),
]
