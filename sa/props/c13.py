"""C13 -- simplifier output is canonical: the ordering key is total and
injective w.r.t. equality; no hash- or address-dependent order reaches output."""
import ast

from ..core import AnalysisError, where, norm
from ..fieldmatrix import Matrix, NODE_CLASSES
from ..srcmodel import parent, walk_no_nested
from ..shapes import u

SET_PRODUCERS = ('get_r', 'get_w', 'get_expr_ids', 'set', 'frozenset', 'union', 'intersection', 'difference',
                 'symmetric_difference')
OUTPUT_MODULES = ('expression', 'expr_helper', 'eval_abs', 'emul_helper', 'ia32_sem')


def class_eq_chain(fn, var):
    """Branches `var.__class__ == C` of a function body."""
    out = []

    def test_cls(t):
        if isinstance(t, ast.Compare) and len(t.ops) == 1 and isinstance(t.ops[0], (ast.Eq, ast.Is)) \
                and u(t.left) in (var + '.__class__', 'type(%s)' % var) and isinstance(t.comparators[0], ast.Name):
            return t.comparators[0].id
        if isinstance(t, ast.Call) and u(t.func) == 'isinstance' and len(t.args) == 2 and u(t.args[0]) == var \
                and isinstance(t.args[1], ast.Name):
            return t.args[1].id
        return None
    for st in fn.body:
        cur = st
        while isinstance(cur, ast.If) and test_cls(cur.test):
            out.append((test_cls(cur.test), cur.body, cur))
            if len(cur.orelse) == 1:
                cur = cur.orelse[0]
            else:
                break
    return out


def set_typed_names(fn):
    names = set()
    for n in walk_no_nested(fn):
        if isinstance(n, ast.Assign) and len(n.targets) == 1 and isinstance(n.targets[0], ast.Name):
            if is_set_expr(n.value, names):
                names.add(n.targets[0].id)
    return names


def is_set_expr(v, names=()):
    if isinstance(v, (ast.Set, ast.SetComp)):
        return True
    if isinstance(v, ast.Call):
        f = v.func
        nm = f.id if isinstance(f, ast.Name) else (f.attr if isinstance(f, ast.Attribute) else None)
        if nm in SET_PRODUCERS:
            return True
    if isinstance(v, ast.Name) and v.id in names:
        return True
    return False


def unordered_iterations(fn):
    """for-loops / comprehensions / list()/tuple()/join() over a set-typed value not wrapped in sorted()."""
    names = set_typed_names(fn)
    out = []
    for n in walk_no_nested(fn):
        its = []
        if isinstance(n, ast.For):
            its.append(n.iter)
        elif isinstance(n, (ast.ListComp, ast.GeneratorExp, ast.DictComp)):
            its += [g.iter for g in n.generators]
        elif isinstance(n, ast.Call) and u(n.func) in ('list', 'tuple') and n.args:
            its.append(n.args[0])
        elif isinstance(n, ast.Call) and isinstance(n.func, ast.Attribute) and n.func.attr == 'join' and n.args:
            its.append(n.args[0])
        for it in its:
            if is_set_expr(it, names):
                # order-insensitive consumers
                p = parent(n)
                if isinstance(p, ast.Call) and u(p.func) in ('sorted', 'set', 'frozenset', 'sum', 'max', 'min', 'any', 'all', 'len'):
                    continue
                out.append((n, it))
    return out


# tiny positive example that must fire on every run (anti-vacuity for a rule whose expected count is zero)
_POSITIVE = '''
def f(e):
    ids = e.get_r()
    return [str(x) for x in ids]
'''


def run(ctx, report):
    mod = ctx.mod('expression')
    hlp = ctx.mod('expr_helper')
    M = Matrix(mod)
    report.explanation = (
        'D1: key_expr has a branch for every IR node class, with distinct integer tags, and every field compared by the class\'s '
        '__eq__ is read in that branch (otherwise unequal operands tie and sorted() keeps input order). D2: in the simplifier the '
        'commutative sort is applied before the constant-folding loop. D3: no __lt__ used for sorting depends on id(), hash() is '
        'never a sort key, and no loop/comprehension/join in the expression, simplifier, evaluator, emulation and lifter modules '
        'iterates over a set-typed value (str-hashed elements => PYTHONHASHSEED-dependent order) unless wrapped in sorted().')
    report.not_decided = 'idempotence and confluence of the rewrite rules (fixpoint behaviour of the simplifier).'

    R1 = report.rule('C13.D1', 'key_expr is total over node classes and injective w.r.t. __eq__', floor=8)
    fn = mod.func('key_expr')
    e = fn.args.args[0].arg
    chain = class_eq_chain(fn, e)
    tags = {}
    seen = {}
    for c, body, node in chain:
        seen[c] = (body, node)
    for c in NODE_CLASSES:
        inst = 'key_expr[%s]' % c
        if c not in seen:
            R1.violation(inst, 'key_expr:%s:missing' % c, 'key_expr has no branch for %s' % c, where(mod, fn))
            continue
        body, node = seen[c]
        rets = [s for s in body if isinstance(s, ast.Return)]
        if not rets:
            if c == 'ExprAff':
                R1.ok(inst, nontrivial=False)
                R1.note('key_expr branch for ExprAff is a belief site (%s): assignments are never operands' % norm(body[0]))
                continue
            R1.violation(inst, 'key_expr:%s:noreturn' % c, 'key_expr branch for %s returns no key: %s' % (c, norm(body[0])), where(mod, node))
            continue
        ret = rets[0].value
        extras = []
        if isinstance(ret, ast.Name):
            # key = [tag, ..] ; key.append(..) ; return key
            kname = ret.id
            init_ = [x.value for st_ in body for x in ast.walk(st_) if isinstance(x, ast.Assign) and len(x.targets) == 1 and u(x.targets[0]) == kname]
            if init_:
                ret = init_[0]
                for st_ in body:
                    for x in ast.walk(st_):
                        if isinstance(x, ast.Call) and isinstance(x.func, ast.Attribute) and u(x.func.value) == kname and x.func.attr in ('append', 'extend'):
                            extras += list(x.args)
                        if isinstance(x, ast.AugAssign) and u(x.target) == kname:
                            extras.append(x.value)
        bad = False
        first = ret
        while isinstance(first, ast.BinOp):
            first = first.left
        if isinstance(first, ast.List) and first.elts and isinstance(first.elts[0], ast.Constant):
            tag = first.elts[0].value
            if tag in tags:
                R1.violation(inst, 'key_expr:%s:tag' % c, 'key tag %r of %s is also the tag of %s' % (tag, c, tags[tag]), where(mod, node))
                bad = True
            tags[tag] = c
        else:
            raise AnalysisError('key_expr branch for %s does not start with a literal tag: %s' % (c, u(ret)))
        whole = [ret] + extras
        readf = set(n.attr for w_ in whole for n in ast.walk(w_) if isinstance(n, ast.Attribute) and isinstance(n.value, ast.Name) and n.value.id == e)
        for f in M.eq_fields(c) or []:
            if f not in readf:
                R1.violation(inst, 'key_expr:%s:%s' % (c, f), 'field %s compared by %s.__eq__ is missing from the ordering key '
                             '(unequal operands tie; sorted() keeps input order)' % (f, c), where(mod, node),
                             witness='expr_simp(ds:@32[a] + es:@32[a]) keeps input order' if f == 'segm' else None)
                bad = True
        # a sub-expression field enters the key through key_expr (its whole content orders the operand, not its presence or its length)
        for f in M.expr_fields(c):
            occ = [n for w_ in whole for n in ast.walk(w_) if isinstance(n, ast.Attribute) and isinstance(n.value, ast.Name) and n.value.id == e and n.attr == f]
            deep = False
            for n in occ:
                q = parent(n)
                while q is not None and not isinstance(q, ast.stmt):
                    if isinstance(q, ast.Call) and u(q.func) in ('key_expr', 'key_expr_compose'):
                        deep = True
                    if isinstance(q, (ast.ListComp, ast.GeneratorExp)) and any(g.iter is n for g in q.generators) and isinstance(q.elt, ast.Call) \
                            and u(q.elt.func) in ('key_expr', 'key_expr_compose'):
                        deep = True
                    q = parent(q)
            if occ and not deep:
                R1.violation(inst, 'key_expr:%s:%s:shallow' % (c, f), 'the sub-expression field %s of %s enters the ordering key without key_expr(..): operands that differ inside %s tie' % (f, c, f),
                             where(mod, node))
                bad = True
        if not bad:
            R1.ok(inst, sample='%s -> %s' % (c, u(ret)))

    # the per-piece key of a concatenation: ExprCompose.__eq__ compares the pieces (expression, start, stop) in full
    kc = mod.func('key_expr_compose')
    pc = kc.args.args[0].arg
    rets_c = [r.value for r in ast.walk(kc) if isinstance(r, ast.Return) and r.value is not None]
    inst = 'key_expr_compose'
    if len(rets_c) != 1:
        raise AnalysisError('key_expr_compose: %d return statements' % len(rets_c))
    comps = set()
    for n_ in ast.walk(rets_c[0]):
        if isinstance(n_, ast.Subscript) and isinstance(n_.value, ast.Name) and n_.value.id == pc and isinstance(n_.slice, ast.Constant):
            par = parent(n_)
            if n_.slice.value == 0:
                if isinstance(par, ast.Call) and u(par.func) == 'key_expr':
                    comps.add(0)
            else:
                comps.add(n_.slice.value)
    missing_c = [i_ for i_ in (0, 1, 2) if i_ not in comps]
    uses_it = any(isinstance(n_, ast.Call) and u(n_.func) == 'key_expr_compose' for n_ in ast.walk(fn))
    if not uses_it:
        raise AnalysisError('key_expr no longer builds the key of an ExprCompose from key_expr_compose')
    if missing_c:
        what = {0: 'the key of the piece\'s expression (key_expr(%s[0]))' % pc, 1: 'the start position', 2: 'the stop position'}
        R1.violation(inst, 'key_expr_compose:%s' % ','.join(map(str, missing_c)), 'the key of one piece of a concatenation lacks %s: key_expr builds the key of an ExprCompose operand from it, so two '
                     'different concatenations with the same layout tie and sorted() keeps the input order' % ' and '.join(what[i_] for i_ in missing_c), where(mod, kc),
                     witness='expr_simp((x,0,16, y,16,32) + (z,0,16, w,16,32)) and the same sum with the operands exchanged differ')
    else:
        R1.ok(inst, sample='key_expr_compose -> %s' % u(rets_c[0]))

    R2 = report.rule('C13.D2', 'commutative sort precedes constant folding in the simplifier', floor=1)
    simp = None
    for name, f in hlp.funcs.items():
        if any(isinstance(n, ast.Call) and u(n.func) == 'canonize_expr_list' for n in ast.walk(f)):
            simp = f
    if simp is None:
        raise AnalysisError('no simplifier function calls canonize_expr_list')
    sort_st = fold_st = None
    for n in ast.walk(simp):
        if isinstance(n, ast.Call) and u(n.func) == 'canonize_expr_list':
            sort_st = n
        if isinstance(n, ast.While) and 'isinstance(args[-1], ExprInt)' in u(n.test) and fold_st is None:
            fold_st = n
    if fold_st is None:
        raise AnalysisError('constant-folding loop of the simplifier not found')
    if sort_st.lineno < fold_st.lineno:
        R2.ok('%s: sort before fold' % simp.name, sample='canonize_expr_list(...) precedes `while ... isinstance(args[-1], ExprInt)`')
    else:
        R2.violation(simp.name, '%s:sort-after-fold' % simp.name, 'constants are folded before operands are sorted', where(hlp, sort_st))

    R3 = report.rule('C13.D3', 'no hash- or address-dependent order reaches output', floor=5)
    # positive control
    ptree = ast.parse(_POSITIVE)
    for node in ast.walk(ptree):
        for ch in ast.iter_child_nodes(node):
            ch._parent = node
    if len(unordered_iterations(ptree.body[0])) != 1:
        raise AnalysisError('C13.D3 positive control did not fire')
    R3.ok('positive-control', nontrivial=False)
    nfun = 0
    for mname in OUTPUT_MODULES:
        m = ctx.mod(mname)
        for node in ast.walk(m.tree):
            if not isinstance(node, ast.FunctionDef):
                continue
            nfun += 1
            q = '%s::%s' % (m.name, node.name)
            hits = unordered_iterations(node)
            for n, it in hits:
                R3.violation(q, '%s:%s' % (q, norm(it)), 'iteration over a set-typed value (hash order) in %s: %s' % (q, norm(n)[:120]), where(m, n))
            bad = bool(hits)
            for n in walk_no_nested(node):
                if isinstance(n, ast.Call) and (u(n.func) == 'sorted' or (isinstance(n.func, ast.Attribute) and n.func.attr == 'sort')):
                    for k in n.keywords:
                        if k.arg == 'key' and u(k.value) in ('hash', 'id'):
                            R3.violation(q, '%s:%s' % (q, norm(n)), 'sort key is %s()' % u(k.value), where(m, n))
                            bad = True
            if node.name in ('__lt__', '__gt__', '__le__', '__ge__', '__cmp__'):
                cls = parent(node)
                cname = cls.name if isinstance(cls, ast.ClassDef) else '?'
                uses_id = [n for n in ast.walk(node) if isinstance(n, ast.Call) and u(n.func) in ('id', 'hash')]
                if uses_id:
                    R3.violation('%s.%s' % (cname, node.name), '%s.%s:%s' % (cname, node.name, u(uses_id[0].func)),
                                 '%s.%s orders by %s(): sort()/sorted() over such nodes (dump_mem) depends on object addresses and differs between processes'
                                 % (cname, node.name, u(uses_id[0].func)), where(m, node),
                                 witness='PYTHONHASHSEED=0 vs 2: machine.dump_mem() order differs after 10 memory writes')
                    bad = True
                else:
                    R3.ok('%s.%s' % (cname, node.name), sample='%s.%s -> %s' % (cname, node.name, u(node.body[-1])))
            if not bad and hits == []:
                R3.ok(q, nontrivial=False)
    report.analysed['functions_scanned'] = nfun

    # ---------------------------------------------------------------- D4 the simplifier does not modify its input
    R4 = report.rule('C13.D4', 'the simplifier never modifies the expression it is given', floor=3)
    n_st = input_untouched_rule(ctx, R4)
    report.analysed['simplifier_field_stores'] = n_st

    # ---------------------------------------------------------------- D5 the fixpoint test of the simplifier uses an exact equality
    R5 = report.rule('C13.D5', 'the simplifier stops when e_new == e: == must be exact (no node equals a proper prefix of itself)', floor=8)
    from .c15 import eq_rule
    eq_rule(ctx, R5)

    # ---------------------------------------------------------------- D6 the traversal the simplifier rides on visits and rebuilds every field
    R6 = report.rule('C13.D6', 'visit() of every node class visits each sub-expression field, compares each with the original before returning self, and rebuilds the node from the visited fields', floor=8)
    from .c15 import copy_visit_rule
    copy_visit_rule(ctx, R6, only='visit')

    R8 = report.rule('C13.D8', 'copy() of every node class is a deep copy (the simplifier edits copies: D4 rests on it)', floor=8)
    from .c15 import copy_visit_rule as _cvr
    _cvr(ctx, R8, only='copy')

    # ---------------------------------------------------------------- D7 one representation per constant
    from .. import simpeval
    R9 = report.rule('C13.D9', 'the simplifier evaluated on the rewrite family: simplifying a copy of a simplified expression returns it unchanged (idempotence)', floor=20)
    simpeval.emit(R9, ctx, lambda l: True, ('idempotence',))
    R10 = report.rule('C13.D10', 'expressions that differ only in the order or nesting of the operands of + * ^ & | simplify to the identical expression (evaluated on 2-4 operand groups '
                      'with identifiers, constants, memory reads, slices, conditionals)', floor=30)
    simpeval.emit_groups(R10, ctx, 'order', 'order-sensitive result')

    from .. import exprobj
    R11 = report.rule('C13.D11', 'visit() evaluated from the source reaches every sub-expression of every node kind (a sub-expression the traversal skips is never canonised) -- shared with C15.D7', floor=40)
    exprobj.emit_law(R11, ctx, 'visit-id')
    exprobj.emit_law(R11, ctx, 'visit-rename')

    R12 = report.rule('C13.D12', 'order-insensitivity on the node classes as written: expression.py and expression_helper.py interpreted together (their own __eq__, __hash__, ordering key and '
                      'module-level state), each spelling simplified in a fresh interpretation and again after other calls in one interpretation -- operands whose hashes coincide '
                      '(a-b / b-a, c?(a,b) / c?(b,a)) included: all results of a group are the identical expression', floor=30)
    exprobj.emit_order_on_source(R12, ctx)

    R7 = report.rule('C13.D7', 'a constant has one representation: the simplifier rebuilds a constant leaf of another integer type in the table\'s (unsigned) type, and every constant it builds '
                     'takes its type from that table or from a constant operand', floor=3)
    hlp7 = ctx.mod('expr_helper')
    es = hlp7.func('_expr_simp')
    param = es.args.args[0].arg
    leaf = None
    for n in ast.walk(es):
        if isinstance(n, ast.If) and u(n.test).replace(' ', '') == 'isinstance(%s,ExprInt)' % param:
            leaf = n
            break
    TABLE = 'tab_size_int'

    def table_typed(call, fn):
        """ExprInt(<T>(..)) where T is tab_size_int[..], or a local bound to tab_size_int.get(..) / tab_size_int[..]"""
        if not (isinstance(call, ast.Call) and call.args and isinstance(call.args[0], ast.Call)):
            return False
        t = call.args[0].func
        if isinstance(t, ast.Subscript) and u(t.value) == TABLE:
            return True
        if isinstance(t, ast.Name):
            for a in ast.walk(fn):
                if isinstance(a, ast.Assign) and len(a.targets) == 1 and u(a.targets[0]) == t.id and (u(a.value).startswith(TABLE + '.get(') or u(a.value).startswith(TABLE + '[')):
                    return True
        return False
    if leaf is None:
        R7.violation('_expr_simp: constant leaf', 'const-leaf:missing', '_expr_simp has no case for a constant leaf: ExprInt(int32(-1)) and ExprInt(uint32(0xFFFFFFFF)) stay two '
                     'different simplified forms of one constant, and which one a fold produces depends on the nesting of the operands', where(hlp7, es),
                     witness="expr_simp(a ^ -1 ^ c ^ c) is (a^0xFFFFFFFF), expr_simp(-1 ^ ((a ^ c) ^ c)) is (a^-0x1) for the constant ExprInt(int32(-1))")
    else:
        rets = [r for r in ast.walk(leaf) if isinstance(r, ast.Return) and any(r is x or any(r is y for y in ast.walk(x)) for x in leaf.body)]
        rebuilt = [r for r in rets if isinstance(r.value, ast.Call) and u(r.value.func) == 'ExprInt' and table_typed(r.value, es) and ('%s.arg' % param) in u(r.value)]
        if rebuilt:
            R7.ok('_expr_simp: constant leaf', sample='a constant leaf is rebuilt as %s' % norm(rebuilt[0]))
        else:
            R7.violation('_expr_simp: constant leaf', 'const-leaf:not-rebuilt', 'the constant-leaf case of _expr_simp does not rebuild the constant in the type of %s' % TABLE, where(hlp7, leaf))
    for fname, fn in sorted(hlp7.funcs.items()):
        called_ = set(c.func.id for c in ast.walk(es) if isinstance(c, ast.Call) and isinstance(c.func, ast.Name))
        if fname not in ('_expr_simp', 'expr_simp', '_expr_simp_w') and not fname.startswith('merge') and fname not in called_:
            continue
        for n in walk_no_nested(fn):
            if not (isinstance(n, ast.Call) and u(n.func) == 'ExprInt' and n.args):
                continue
            inst = '%s: %s' % (fname, norm(n))
            a0 = n.args[0]
            from_const = any(isinstance(x, ast.Attribute) and x.attr == 'arg' for x in ast.walk(a0)) and not any(isinstance(x, ast.Call) and isinstance(x.func, ast.Name)
                                                                                                                 and x.func.id.startswith(('int', 'uint')) for x in ast.walk(a0))
            if table_typed(n, fn):
                R7.ok(inst, sample='%s: type from %s' % (inst, TABLE), nontrivial=(len(R7.nontrivial) < 30))
            elif from_const:
                R7.ok(inst, sample='%s: type of a constant operand (normalised by the leaf case)' % inst)
            else:
                R7.violation(inst, 'const-type:%s:%s' % (fname, norm(n)), '%s builds a constant whose type comes neither from %s nor from a constant operand' % (fname, TABLE), where(hlp7, n))


def input_untouched_rule(ctx, R4):
    """Every store to a field of an IR node in the simplifier module hits a node built in the same function (E5 freshness).  Shared with C05, C06 and C07:
    the evaluator simplifies the caller's expression, so a simplifier that edits its input changes what the next evaluation of the same object returns."""
    from ..effects import Freshness, stores, base_name
    from .c12 import IR_FIELDS, all_functions
    hlp = ctx.mod('expr_helper')
    n_st = 0
    for cname, fn in all_functions(hlp):
        fr = None
        q = 'expr_helper::%s' % fn.name
        for node, tgt, kind, attr in stores(fn):
            if kind not in ('attr', 'delattr') or attr not in IR_FIELDS:
                continue
            nm, hops = base_name(tgt)
            if nm in ('self', 'cls') and hops == 0:
                continue
            n_st += 1
            fr = fr or Freshness(fn)
            inst = '%s:%s' % (q, norm(node))
            if fr.is_fresh_at(tgt, node):
                R4.ok(inst, sample='%s: field %s of a node built in this function' % (inst, attr))
            else:
                R4.violation(inst, inst, '%s modifies field %s of a node that belongs to its input (%s): simplifying an expression changes the expression itself, so a second '
                             'simplification, or another expression sharing the operand, gives a different result' % (fn.name, attr, norm(node)), where(hlp, node),
                             witness='expr_simp(X ^ C) then expr_simp(C ^ X) with X = Compose(A[0:8], A[8:16], B)')
    return n_st


MUTANTS = [
    ('pairwise-scan-short-lists-only', 'miasmx/expression/expression_helper.py', '        while i<len(args)-1:', '        while i<len(args)-1 and len(args) <= 16:', 'C13.D10'),

    ('merge-slice-nocopy', 'miasmx/expression/expression_helper.py', '            out = v[0].copy(), v[1], v[2]\n', '            out = v[0], v[1], v[2]\n', 'C13.D4'),
    ('key-slice-stop', 'miasmx/expression/expression.py',
     'return [ 5, key_expr(e.arg), e.start, e.stop ]', 'return [ 5, key_expr(e.arg), e.start ]', 'C13.D1'),
    ('key-dup-tag', 'miasmx/expression/expression.py',
     'return [ 8, e.arg ]', 'return [ 1, e.arg ]', 'C13.D1'),
    ('key-no-op', 'miasmx/expression/expression.py',
     'return [ 4, e.op ] + [ key_expr(e) for e in e.args ]', 'return [ 4 ] + [ key_expr(e) for e in e.args ]', 'C13.D1'),
    ('key-cond-missing', 'miasmx/expression/expression.py',
     '    elif e.__class__ == ExprCond:\n        return [ 2, key_expr(e.cond), key_expr(e.src1), key_expr(e.src2) ]\n', '', 'C13.D1'),
    ('id-lt-id', 'miasmx/expression/expression.py',
     '        return self.name < a.name\n', '        return id(self) < id(a)\n', 'C13.D3'),
    ('dump-id-set', 'miasmx/expression/expression_eval_abstract.py',
     '        ids = list(self.pool.pool_id.keys())\n        ids.sort()\n', '        ids = list(set(self.pool.pool_id.keys()))\n', 'C13.D3'),
    ('sort-by-hash', 'miasmx/expression/expression.py',
     'return sorted(l, key=key_expr)', 'return sorted(l, key=hash)', 'C13.D3'),
    ('getr-iter', 'miasmx/tools/emul_helper.py',
     '                if zf in x.get_w():\n                    zf_w = True\n',
     '                for w in x.get_w():\n                    if w == zf:\n                        zf_w = True\n', 'C13.D3'),
    ('const-leaf-kept-signed', 'miasmx/expression/expression_helper.py', "        if t is not None and not isinstance(e.arg, t):\n            return ExprInt(t(e.arg))\n", "", 'C13.D7'),
    ('fold-keeps-operand-type', 'miasmx/expression/expression_helper.py', "                o = ExprInt(tab_size_int[i1.get_size()](o))", "                o = ExprInt(int32(o))", 'C13.D7'),
    ('slice-copy-removed', 'miasmx/expression/expression.py', "    def copy(self):\n        return ExprSlice(self.arg.copy(), self.start, self.stop)\n", "", 'C13.D8'),
    ('key-compose-position-only', 'miasmx/expression/expression.py', "    return (e[1], key_expr(e[0]), e[2])", "    return (e[1], e[2])", 'C13.D1'),
    ('key-op-arity-only', 'miasmx/expression/expression.py', "        return [ 4, e.op ] + [ key_expr(e) for e in e.args ]", "        return [ 4, e.op, len(e.args) ]", 'C13.D1'),
]
