"""C03 -- assemble/disassemble round trip: the printer's output language lies inside the parser's input language
(register and size-keyword lexicons), the SSE suffix scheme is unambiguous and invertible, and the special cases
mirrored between decoder/printer and assembler are inverse tables."""
import ast

from ..core import AnalysisError, where, norm
from ..consteval import Evaluator, NotConst, module_env, Obj, Native
from ..shapes import u
from ..srcmodel import walk_no_nested
from ..x86table import model as x86model

# size tokens the assembler itself treats as equivalent when matching a row (asm_candidates size map for sd rows)
SIZE_EQUIV = {('f32', 'u32'), ('u32', 'f32')}


def lexicon(ctx, modname, afs):
    m = ctx.mod(modname)
    env, skipped = module_env(m, {'x86_afs': afs})
    if 'registers' not in env or 'segments' not in env:
        raise AnalysisError('%s.registers/segments not statically evaluable' % modname)
    return m, env['registers'], env['segments']


def ptrformula_rule(ctx, R3, X, semantic=False):
    """`SIZE PTR seg:[formula]` (the form the renderer prints): the grammar action is evaluated on every segment x address shape, including base + scaled index with ebp / esp as the
    base written as one coefficient ([ebp+ebp*2] is {ebp: 3}).  Shared with C09.D12: the Intel rendering of a ds: override on an ss-relative address must assemble back with its prefix.
    semantic=True (C02.D16): an override is demanded only where dropping it changes the segment of some encoding of the address - the default segment of an encoding is ss when its base
    register is esp / ebp and ds otherwise; any register with coefficient 1 (or 3 / 5 / 9: base = index) may be the base, a register scaled by 2 / 4 / 8 is an index."""
    from ..consteval import Evaluator, NotConst, callables_of, module_env
    pa = ctx.mod('parse_ad')
    afs, E = X.afs, X.env
    ptr2 = pa.funcs.get('p_ptrformula_2')
    if ptr2 is None:
        raise AnalysisError('parse_ad.p_ptrformula_2 not found')
    # the module-level constants and helper functions of parse_ad that the action may use (the lexer / parser objects are left unbound)
    base_ = dict(callables_of(pa, [X.arch]))
    base_.update(E)
    base_['x86_afs'] = afs
    pa_env, _skipped = module_env(pa, base_)
    for seg in range(6):
        for regs, label in (({0: 1}, '[eax]'), ({5: 1}, '[ebp]'), ({4: 1}, '[esp]'), ({0: 1, 5: 1}, '[eax+ebp]'), ({}, '[disp]'), ({5: 3}, '[ebp+ebp*2]'), ({5: 5}, '[ebp+ebp*4]'),
                            ({5: 9}, '[ebp+ebp*8]'), ({5: 1, 0: 4}, '[ebp+eax*4]'), ({4: 1, 0: 2}, '[esp+eax*2]'), ({4: 1, 5: 8}, '[esp+ebp*8]'), ({0: 1, 1: 2}, '[eax+ecx*2]'),
                            # the same address with its two unscaled registers written in the other order (the formula keeps the order of the text)
                            ({5: 1, 0: 1}, '[ebp+eax]'), ({0: 1, 4: 1}, '[eax+esp]'), ({4: 1, 0: 1}, '[esp+eax]'), ({1: 1, 5: 1}, '[ecx+ebp]'), ({0: 4, 5: 1}, '[eax*4+ebp]'),
                            ({afs.imm: 8, 1: 1, 4: 1}, '8[ecx+esp]'), ({1: 1, 4: 1, afs.imm: 8}, '[ecx+esp+8]'),
                            # ebp as the (scaled) index: the default segment is that of the base
                            ({0: 1, 5: 2}, '[eax+ebp*2]'), ({5: 2}, '[ebp*2]'), ({5: 4, afs.imm: 8}, '[ebp*4+8]'), ({1: 1, 5: 8, afs.imm: 8}, '[ecx+ebp*8+8]')):
            formula = dict(regs)
            formula.update({afs.ad: True, afs.size: True})
            if not regs:
                formula[afs.imm] = 16
            t = [None, {afs.ad: afs.u32}, {afs.segm: seg}, formula]
            scope_ = dict(pa_env)
            ev_ = Evaluator(scope_)
            try:
                ev_.call_user(ptr2, [t])
            except NotConst as e:
                raise AnalysisError('parse_ad.p_ptrformula_2 not evaluable: %s' % e)
            res = t[0]
            inst = 'ptrformula DWORD PTR %s:%s' % (list(afs.reg_sg)[seg], label)
            problems = []
            if res.get(afs.ad) != afs.u32:
                problems.append('the PTR size is lost (ad = %r)' % res.get(afs.ad))
            need_seg = seg != 3 or 4 in regs or 5 in regs      # (an explicit ds: in front of any esp / ebp term is kept: with two unscaled registers either may be the base)
            if semantic:
                bases = [r_ for r_, k_ in regs.items() if isinstance(r_, int) and not isinstance(r_, bool) and r_ < 8 and k_ in (1, 3, 5, 9)]
                defaults = set((2 if b_ in (4, 5) else 3) for b_ in bases) or {3}
                need_seg = any(d_ != seg for d_ in defaults)
            if need_seg and res.get(afs.segm) != seg:
                if semantic:
                    problems.append('the %s: override is dropped although %s has an encoding whose default segment is %s' % (list(afs.reg_sg)[seg], label,
                                                                                                                     ' / '.join(list(afs.reg_sg)[d_] for d_ in sorted(defaults) if d_ != seg)))
                else:
                    problems.append('the %s: override is dropped although the default segment of %s is %s' % (list(afs.reg_sg)[seg], label, 'ss' if (4 in regs or 5 in regs) else 'ds'))
            if problems:
                R3.violation(inst, 'ptrformula:%s:%s' % ('ds' if seg == 3 else 'seg', ';'.join(problems)[:50]), 'parsing "%s": %s' % (inst[11:], '; '.join(problems)), where(pa, ptr2),
                             witness="asm('push DWORD PTR fs:[eax]') == []" if 'size' in problems[0] else "3e 8b 45 00 re-assembles to 8b 45 00")
            else:
                R3.ok(inst, sample='%s keeps size%s' % (inst, ' and segment' if need_seg else ''), nontrivial=(seg in (3, 4)))



def string_trip_rule(ctx, R5, X=None):
    """A segment override of movs/cmps/lods survives rendering and re-assembly (shared with C09: both syntaxes go through normalize_args)."""
    X = X or x86model(ctx)
    arch = X.arch
    from .. import stringops as SO
    strm = arch.method('x86_mn', '__str__')
    for fam, n_ops in SO.FAMILIES:
        if fam in ('stos', 'scas'):
            continue            # only [edi]: no override possible
        for sfx in ('b', 'd'):
            mn = fam + sfx
            for segname in ('es', 'cs', 'ss', 'fs', 'gs', None):      # every override (es is segment number 0: a truthiness test loses it)
                pre = [SO.SEG_PREFIX[segname]] if segname else []
                ops = SO.decoded_operands(X, mn, pre)
                kept = SO.rendered_operand_count(X, mn, ops)
                # the assembler receives the operands in the order __str__ prints them (cmps is written source first); both parsers deliver that order
                printed = SO.rendered_operands(X, mn, ops)
                back_args, back_prefix = SO.normalized(X, mn, printed if printed else ops)
                inst = '%s %s' % (('%s:' % segname) if segname else 'plain', mn)
                if segname is None:
                    if back_prefix:
                        R5.violation(inst, 'string-trip:%s:spurious-prefix' % fam, '%s is assembled back with the prefix %s' % (mn, back_prefix), where(arch, strm))
                    else:
                        R5.ok(inst, sample='%s: %d operands printed, no prefix on the way back' % (mn, kept))
                    continue
                problems = []
                if kept == 0:
                    problems.append('__str__ prints it as the plain %s (operands elided, prefix not shown)' % mn)
                if back_prefix != pre:
                    problems.append('normalize_args drops the explicit operands and the assembler emits prefix %s instead of %s' % (back_prefix, pre))
                if back_args:
                    problems.append('normalize_args keeps %d operands' % len(back_args))
                if problems:
                    R5.violation(inst, 'string-trip:%s:%s' % (fam, ';'.join(problems)[:90]), '%s: %s' % (inst, '; '.join(problems)), where(arch, strm),
                                 witness="str(dis(64 a4)) == 'movsb'; asm('movsb BYTE PTR es:[edi], BYTE PTR fs:[esi]') == [a4]")
                else:
                    R5.ok(inst, sample='%s: operands printed (%d), re-assembled with prefix %s' % (inst, kept, back_prefix))


def run(ctx, report):
    X = x86model(ctx)
    arch, E, afs = X.arch, X.env, X.afs
    report.explanation = (
        'D1: every register name the Intel printer can emit (the x86_afs register lists selected by dict_to_ad: 8/16/32-bit, segment, debug, control, '
        'mm, xmm, st(i)) is classified REGISTER/SEGMENT by parse_ad\'s lexicon with the size its table implies, and likewise the AT&T printer vs ia32_att; '
        'every size keyword of dict_to_ad.ad_size is a p_PTRSIZE alternative mapping back to the same size token (modulo the equivalences the assembler '
        'applies). D2: exactly one key of mmx_suffixes occurs in every "#" row name; the map (row name, mandatory prefix) -> printed mnemonic is injective '
        'except for collisions the assembler special-cases by name; every printed name is a key of mnemo_mmx_hash mapping to its row. D3: the special cases '
        'mirrored in both directions are inverse tables (x_0f_ae fences, movlps/movhps register forms, implicit-operand name lists). D4: a linear-use typestate over the paths of dict_to_ad: the displacement/immediate, the symbol part and the segment override of an operand each reach the output exactly once (an emission is followed by a reset before any later emission; no path returns with a live component).')
    report.not_decided = 'equality of bytes after a concrete trip; the txt operand-order memo; candidate set membership (ModRM/SIB synthesis at run time).'

    pa, pregs, psegs = lexicon(ctx, 'parse_ad', afs)
    att, aregs, asegs = lexicon(ctx, 'ia32_att', afs)

    R1 = report.rule('C03.D1', 'printer lexicon is inside the parser lexicon', floor=70)
    d2a = arch.func('dict_to_ad')
    ev = Evaluator(dict((k, v) for k, v in E.items()))
    ev.env['x86_afs'] = afs
    tab32 = ad_size = None
    for n in walk_no_nested(d2a):
        if isinstance(n, ast.Assign) and u(n.targets[0]) == 'tab32':
            tab32 = ev.ev(n.value)
        if isinstance(n, ast.Assign) and u(n.targets[0]) == 'ad_size':
            ad_size = ev.ev(n.value)
    if tab32 is None or ad_size is None:
        raise AnalysisError('dict_to_ad tables not found')
    printed = []     # (name as printed without sigil, size token the parser must give, table)
    for size, lst in tab32.items():
        for nm in lst:
            if size in (afs.f32, afs.f64):
                printed.append(('st(%s)' % nm[2:], afs.f32, 'reg_flt'))
            else:
                printed.append((nm, size, 'tab32[%s]' % size))
    for nm in afs.reg_sg:
        if nm is not None:
            printed.append((nm, 'SEGMENT', 'reg_sg'))
    for nm in afs.reg_dr:
        printed.append((nm, afs.u32, 'reg_dr'))
    for nm in afs.reg_cr:
        printed.append((nm, afs.u32, 'reg_cr'))
    seen = set()
    for nm, size, tab in printed:
        if (nm, tab) in seen:
            continue
        seen.add((nm, tab))
        for gname, regs, segs, gm in (('intel', pregs, psegs, pa), ('att', aregs, asegs, att)):
            inst = '%s:%s' % (gname, nm)
            if nm.startswith('st('):
                # parsed by the st(i) productions from the REGISTER/ST token "st" + number
                base_ok = ('st' in regs) if gname == 'intel' else True
                idx = nm[3:-1]
                if base_ok and ('st' + idx) in afs.reg_dict:
                    R1.ok(inst, sample='%s: %s parsed through the st(i) production' % (gname, nm), nontrivial=False)
                else:
                    R1.violation(inst, 'lexicon:%s:%s' % (gname, nm), '%s printer emits %s but the %s parser cannot read it' % (gname, nm, gname), where(gm, gm.func('t_NAME')))
                continue
            if size == 'SEGMENT':
                if nm in segs:
                    R1.ok(inst, sample='%s: segment %s known' % (gname, nm))
                else:
                    R1.violation(inst, 'lexicon:%s:%s' % (gname, nm), 'segment register %s is printed but not in %s.segments' % (nm, gm.name), where(gm, gm.func('t_NAME')))
                continue
            if nm in regs:
                got = regs[nm]
                if got == size or (gname == 'att' and nm in segs):
                    R1.ok(inst, sample='%s: %s -> %s' % (gname, nm, got))
                else:
                    R1.violation(inst, 'lexicon:%s:%s:size' % (gname, nm), '%s parser gives register %s size %s, the printer\'s table implies %s' % (gname, nm, got, size),
                                 where(gm, gm.func('t_NAME')))
            else:
                R1.violation(inst, 'lexicon:%s:%s' % (gname, nm),
                             'the %s printer emits register %s (%s) but %s.registers does not contain it: the name is parsed as a symbol' % (gname, nm, tab, gm.name),
                             where(gm, gm.func('t_NAME')), witness="asm('mov eax, cr0') encodes 'mov eax, 0'" if nm == 'cr0' and gname == 'intel' else None)
    # size keywords
    pp = pa.func('p_PTRSIZE')
    kw = None
    for n in ast.walk(pp):
        if isinstance(n, ast.Dict) and len(n.keys) >= 5:
            kw = Evaluator({'x86_afs': afs}).ev(n)
    if kw is None:
        raise AnalysisError('p_PTRSIZE size dictionary not found')
    doc = ast.get_docstring(pp) or ''
    for size, text in ad_size.items():
        if not text:
            continue
        word = text.split()[0].lower()
        inst = 'size-keyword:%s' % text.strip()
        if word.upper() + ' PTR' not in doc:
            R1.violation(inst, 'keyword:%s:grammar' % word, 'size keyword %r printed for %s is not an alternative of p_PTRSIZE' % (text.strip(), size), where(pa, pp))
        elif word not in kw:
            R1.violation(inst, 'keyword:%s:dict' % word, 'size keyword %r has no entry in p_PTRSIZE\'s size dictionary' % word, where(pa, pp))
        elif kw[word] == size or (size, kw[word]) in SIZE_EQUIV:
            R1.ok(inst, sample='%s -> %r -> %s' % (size, text.strip(), kw[word]))
        else:
            R1.violation(inst, 'keyword:%s:%s' % (word, size), 'size %s is printed as %r which parses back as %s' % (size, text.strip(), kw[word]), where(pa, pp))

    R2 = report.rule('C03.D2', 'SSE mandatory-prefix naming is unambiguous and invertible', floor=150)
    suffixes = E['mmx_suffixes']
    rownames = sorted(set(r.name for r in X.rows if '#' in r.name))
    printed_map = {}
    for nm in rownames:
        keys = [k for k in suffixes if k in nm]
        inst = 'row %s' % nm
        if len(keys) != 1:
            # a longer key containing a shorter one is still order dependent
            R2.violation(inst, 'suffix-keys:%s:%s' % (nm, keys), 'row name %r contains %d suffix keys %s: the printed name depends on dictionary order' % (nm, len(keys), keys),
                         where(arch, arch.assigns['mmx_suffixes'][-1]))
            continue
        R2.ok(inst, nontrivial=False)
        for p in range(4):
            pn = X.mmx_set_suffix(nm, p)
            if 'INVALID' in pn:
                continue
            printed_map.setdefault(pn, []).append((nm, p))
    # literal names the assembler special-cases
    ac = arch.method('x86_mn', 'asm_candidates')
    special = set()
    # asm_candidates and the helpers it calls (a method of x86_mn through self, a module-level function by name)
    ac_closure = [ac]
    x86mn_methods = arch.methods('x86_mn')
    for c_ in ast.walk(ac):
        if isinstance(c_, ast.Call):
            if isinstance(c_.func, ast.Attribute) and u(c_.func.value) == 'self' and c_.func.attr in x86mn_methods and x86mn_methods[c_.func.attr] not in ac_closure:
                ac_closure.append(x86mn_methods[c_.func.attr])
            elif isinstance(c_.func, ast.Name) and c_.func.id in arch.funcs and arch.funcs[c_.func.id] not in ac_closure:
                ac_closure.append(arch.funcs[c_.func.id])
    for f_ in ac_closure:
        for n in walk_no_nested(f_):
            if isinstance(n, ast.Compare) and u(n.left) == 'name' and isinstance(n.comparators[0], ast.Constant) and isinstance(n.comparators[0].value, str):
                special.add(n.comparators[0].value)
    h = E['mnemo_mmx_hash']
    string_ops = set(E['rep_mov_cmp']) | set(E['rep_sto_lod_sca'])
    for pn, srcs in sorted(printed_map.items()):
        inst = 'printed %s' % pn
        rows = sorted(set(nm for nm, p in srcs))
        if len(rows) > 1 and pn not in special:
            R2.violation(inst, 'printed-collision:%s:%s' % (pn, rows), 'rows %s print the same mnemonic %r and the assembler has no special case for it: '
                         'mnemo_mmx_hash keeps only one of them' % (rows, pn), where(arch, ac))
        elif h.get(pn) not in rows:
            R2.violation(inst, 'hash:%s' % pn, 'mnemo_mmx_hash[%r] = %r, not a row that prints it (%s)' % (pn, h.get(pn), rows), where(arch, ac))
        elif pn in string_ops and pn not in special:
            R2.violation(inst, 'printed-vs-string:%s' % pn, 'SSE mnemonic %r is also a string instruction and is not special-cased' % pn, where(arch, ac))
        else:
            R2.ok(inst, sample='%s <- %s' % (pn, srcs[:2]))

    R3 = report.rule('C03.D3', 'special cases mirrored between decoder/printer and assembler are inverse', floor=8)
    so = arch.method('x86_mn', 'special_opcodes')
    dis_map = asm_map = None
    # (the two tables may sit in the functions or at module level; the decoder's maps names to row copies, the assembler's to names)
    for n in ast.walk(arch.tree):
        if isinstance(n, ast.Assign) and len(n.targets) == 1 and isinstance(n.targets[0], ast.Name) and isinstance(n.value, ast.Dict) and n.value.keys \
                and all(isinstance(k, ast.Constant) and isinstance(k.value, str) for k in n.value.keys):
            nm_ = n.targets[0].id
            used_dis = any(isinstance(x, ast.Name) and x.id == nm_ for x in ast.walk(so))
            used_asm = any(isinstance(x, ast.Name) and x.id == nm_ for f_ in ac_closure for x in ast.walk(f_))
            if all(isinstance(v, ast.Attribute) and u(v).startswith('x86mndb.') for v in n.value.values) and used_dis \
                    and all('fence' in u(v) for v in n.value.values):
                dis_map = dict((k.value, u(v)) for k, v in zip(n.value.keys, n.value.values))
            elif all(isinstance(v, ast.Constant) and isinstance(v.value, str) for v in n.value.values) and used_asm and asm_map is None \
                    and any('fence' in k.value for k in n.value.keys):
                asm_map = dict((k.value, v.value) for k, v in zip(n.value.keys, n.value.values))
    if dis_map is None or asm_map is None:
        raise AnalysisError('x_0f_ae tables not found')
    # x86mndb.<fence>_m objects are renamed copies: resolve their names from __init__
    init = arch.method('x86allmncs', '__init__')
    renames = {}
    itxt = [s for s in init.body]
    for i, st in enumerate(itxt):
        if isinstance(st, ast.Assign) and isinstance(st.targets[0], ast.Attribute) and u(st.targets[0]).endswith('_m.name') and isinstance(st.value, ast.Constant):
            renames[u(st.targets[0])[:-5].replace('self.', 'x86mndb.')] = st.value.value
    for src, obj in sorted(dis_map.items()):
        fence = renames.get(obj)
        inst = 'x_0f_ae:%s' % src
        if fence is None:
            R3.violation(inst, 'x_0f_ae:%s:unresolved' % src, 'decoder alias %s is not a renamed mnemonic copy' % obj, where(arch, so))
        elif asm_map.get(fence) == src:
            R3.ok(inst, sample='%s (register form) <-> %s' % (src, fence))
        else:
            R3.violation(inst, 'x_0f_ae:%s:%s' % (src, fence), 'decoder renames %s to %s but the assembler maps %s to %r' % (src, fence, fence, asm_map.get(fence)), where(arch, ac))
    for fence, src in asm_map.items():
        if src not in dis_map:
            R3.violation('x_0f_ae:%s' % fence, 'x_0f_ae:asm-only:%s' % fence, 'assembler maps %s to %s which the decoder never renames' % (fence, src), where(arch, ac))
    # every name the decoder can put on an instruction through a renamed row copy is a name the assembler finds
    from .. import stringops as SO
    row_names = set(r.name for r in X.rows) if hasattr(X, 'rows') else set(c.name for c in X.cells.values())
    for attr, nm in sorted(SO.renamed_copies(X).items()):
        inst = 'renamed-copy:%s' % nm
        if nm in row_names or nm in asm_map:
            R3.ok(inst, sample='%s: decoder name %s is %s' % (attr, nm, 'a table row' if nm in row_names else 'mapped back by asm_candidates'))
        else:
            R3.violation(inst, 'renamed-copy:%s' % nm, 'the decoder renames an instruction to %r (x86mndb.%s), a name no table row carries and asm_candidates does not map back: '
                         'its rendering does not assemble' % (nm, attr), where(arch, so), witness="dis(66 9c) is 'pushfw'; asm('pushfw') == []")
    # movlps/movhps register forms: the renderer renames them movhlps/movlhps, the assembler maps the names back.  Both renamings are evaluated from the
    # statements that assign the name (whatever table or if-chain they use).
    from ..consteval import Evaluator as _Ev3, Obj as _Obj3, NotConst as _NC3, PyRaise as _PR3
    strm = arch.method('x86_mn', '__str__')
    scope3 = dict((k_, v_) for k_, v_ in E.items() if isinstance(v_, (str, int, bool, list, tuple, dict)) or v_ is None)
    scope3['x86_afs'] = afs
    for st_ in arch.tree.body:
        # module-level tables built from other tables (dict([...]) of a comprehension)
        if isinstance(st_, ast.Assign) and len(st_.targets) == 1 and isinstance(st_.targets[0], ast.Name) and st_.targets[0].id not in scope3:
            try:
                scope3[st_.targets[0].id] = _Ev3(scope3).ev(st_.value)
            except (_NC3, _PR3):
                pass

    two_regs = [{afs.ad: False, afs.reg_xmm_base: 1, afs.size: afs.xmm}, {afs.ad: False, afs.reg_xmm_base + 1: 1, afs.size: afs.xmm}]
    reg_mem = [{afs.ad: False, afs.reg_xmm_base: 1, afs.size: afs.xmm}, {afs.ad: afs.f64, 0: 1, afs.size: afs.f64}]
    for a, b in (('movlps', 'movhlps'), ('movhps', 'movlhps')):
        inst = 'rename:%s' % b
        # renderer: the statements of the MMX block of __str__ that assign mnemo[0]
        blk = [n for n in strm.body if isinstance(n, ast.If) and u(n.test) == 'self.m.modifs[mmx]']
        if not blk:
            raise AnalysisError('x86_mn.__str__: the MMX block was not found')
        got = {}
        for label, ops in (('reg', two_regs), ('mem', reg_mem)):
            me3 = _Obj3('self')
            me3.arg = [dict(x) for x in ops]
            loc = {'self': me3, 'mnemo': [a]}
            me3.prefix = []
            # the whole block in order (a statement that reads what this model object lacks is skipped): locals a later statement uses are bound
            for st_ in blk[0].body:
                try:
                    _Ev3(scope3).exec_stmts([st_], loc)
                except (_NC3, _PR3):
                    pass
                if not (isinstance(loc.get('mnemo'), list) and loc['mnemo'] and isinstance(loc['mnemo'][0], str)):
                    loc['mnemo'] = [a]
            got[label] = loc['mnemo'][0]
        # assembler: the statements of asm_candidates that assign name
        from ..consteval import class_obj as _co3, Native as _Nat3
        loc = {'name': b, 'args_eval': [dict(x) for x in two_regs], 'args': [dict(x) for x in two_regs], 'self': _co3(arch, 'x86_mn', 'self'), 'prefix': []}
        scope3b = dict(scope3)
        for fname_, fnode_ in arch.funcs.items():
            scope3b.setdefault(fname_, fnode_)
        lg_ = _Obj3('log')
        for k_ in ('debug', 'error', 'info', 'warning', 'warn'):
            setattr(lg_, k_, _Nat3(lambda *a_: None))
        scope3b['log'] = lg_
        sk = 0

        def _assigns_name(x):
            if not isinstance(x, ast.Assign):
                return False
            t_ = x.targets[0]
            return u(t_) == 'name' or (isinstance(t_, ast.Tuple) and any(u(e_) == 'name' for e_ in t_.elts))
        for st_ in ac.body:
            if any(_assigns_name(x) for x in ast.walk(st_)):
                try:
                    _Ev3(scope3b).exec_stmts([st_], loc)
                except (_NC3, _PR3):
                    sk += 1
        back = loc['name']
        if back == h.get(a):
            back = a            # the statements went on to the row name of the mnemonic (mov#lps#): the alias was mapped back first
        if got == {'reg': b, 'mem': a} and back == a:
            R3.ok(inst, sample='%s reg,reg printed as %s (the memory form keeps %s) and assembled back through %s' % (a, b, a, a))
        elif back != a and sk:
            raise AnalysisError('asm_candidates: %d statements that assign `name` are outside the evaluable subset; the %s/%s clause cannot be decided' % (sk, a, b))
        else:
            R3.violation(inst, 'rename:%s' % b, 'the %s/%s renaming is no longer mirrored in __str__ and asm_candidates: %s with two registers is rendered %s (memory form: %s) and '
                         'the assembler maps %s to %s' % (a, b, a, got.get('reg'), got.get('mem'), b, back), where(arch, ac))
    # implicit-operand lists: both directions test membership in the same module-level list
    na = arch.method('x86_mn', 'normalize_args')
    for lst in ('float_st_mnemo', 'float_arith_p', 'float_arith', 'float_st_st1', 'rep_sto_lod_sca', 'rep_mov_cmp'):
        inst = 'implicit:%s' % lst
        in_str = any(isinstance(n, ast.Name) and n.id == lst for n in ast.walk(strm))
        in_na = any(isinstance(n, ast.Name) and n.id == lst for n in ast.walk(na))
        if in_str and in_na:
            R3.ok(inst, sample='%s used by both __str__ and normalize_args' % lst)
        else:
            R3.violation(inst, 'implicit:%s' % lst, 'implicit operands of %s are %s by the printer but %s by the assembler'
                         % (lst, 'dropped' if in_str else 'not dropped', 're-added' if in_na else 'not re-added'), where(arch, na))

    # operand-discarding special cases must not capture the SSE forms of a homonymous mnemonic (movsd, cmpsd)
    hash_ = E['mnemo_mmx_hash']
    n_homonym = 0
    for st in na.body:
        if not (isinstance(st, ast.If) and any(isinstance(x, ast.Assign) and isinstance(x.targets[0], ast.Subscript) and u(x.targets[0].value) == 'args'
                                               and isinstance(x.value, ast.List) and not x.value.elts for x in st.body)):
            continue
        lists = [n.comparators[0] for n in ast.walk(st.test) if isinstance(n, ast.Compare) and u(n.left) == 'name' and isinstance(n.ops[0], ast.In)]
        if not lists:
            continue
        try:
            names = list(Evaluator(dict(E, x86_afs=afs)).ev(lists[0]))
        except NotConst as e:
            raise AnalysisError('normalize_args: name list %s not evaluable: %s' % (u(lists[0]), e))
        for nm in names:
            if nm not in hash_:
                continue
            rown = hash_[nm]
            for opc, mods, row in X.lookup.get(rown, []):
                nops = 2 + sum(1 for d in row.rm if d in (afs.u08, E['imm']))
                for esz in (afs.xmm, afs.f64, afs.f32):
                    ops = [{afs.size: afs.xmm, afs.ad: False}, {afs.size: esz, afs.ad: esz != afs.xmm}]
                    if mods.get(E['sw']):
                        ops.reverse()
                    ops += [{afs.imm: 0, afs.size: afs.u08, afs.ad: False}] * (nops - 2)
                    n_homonym += 1
                    inst = 'homonym %s %s (%s)' % (nm, row.key(), ','.join(str(o[afs.size]) for o in ops))
                    try:
                        taken = Evaluator(dict(E, x86_afs=afs)).ev(st.test, {'name': nm, 'args': ops})
                    except NotConst as e:
                        raise AnalysisError('normalize_args: guard %s not evaluable: %s' % (norm(st.test)[:60], e))
                    if taken:
                        R3.violation(inst, 'homonym:%s:%s' % (nm, ','.join(str(o[afs.size]) for o in ops)), 'normalize_args discards the operands of the SSE instruction %s (%s) because it shares its name with a '
                                     'string instruction: guard `%s`' % (nm, ','.join(str(o[afs.size]) for o in ops), norm(st.test)[:90]), where(arch, st),
                                     witness="asm('movsd QWORD PTR [eax], xmm1') == ['a5']")
                    else:
                        R3.ok(inst, sample='%s with operands (%s) keeps its operands' % (nm, ','.join(str(o[afs.size]) for o in ops)))
    if n_homonym < 4:
        raise AnalysisError('expected the movsd/cmpsd homonym forms, examined %d' % n_homonym)

    # parse_mnemo: the rewrite that reads 'push WORD PTR 4' as an immediate must leave memory operands alone
    pm = arch.method('x86_mn', 'parse_mnemo')
    push_ifs = [st for st in pm.body if isinstance(st, ast.If) and "name == 'push'" in u(st.test)]
    if not push_ifs:
        R3.ok('push-word-imm:absent', sample='parse_mnemo has no push special case', nontrivial=False)
    from ..consteval import Native
    imm_fn = Native(lambda d: not d.get(afs.ad) and (afs.imm in d or afs.symb in d))
    for st in push_ifs:
        for label, opnd, want_mem in (('memory [eax]', {0: 1, afs.size: afs.u16, afs.ad: afs.u16}, True),
                                      ('memory [ebx+4]', {3: 1, afs.imm: 4, afs.size: afs.u16, afs.ad: afs.u16}, True),
                                      ('sized immediate 4', {afs.imm: 4, afs.size: afs.u16, afs.ad: afs.u16}, False),
                                      ('register ax', {0: 1, afs.size: afs.u16, afs.ad: False}, False)):
            scope = {'name': 'push', 'args': [dict(opnd)], 'x86_afs': afs, 'is_imm': imm_fn}
            ev_ = Evaluator(dict(E, x86_afs=afs))
            ev_.env.update(scope)
            try:
                ev_.exec_stmts([st], ev_.env)
            except NotConst as e:
                raise AnalysisError('parse_mnemo: push special case not evaluable: %s' % e)
            is_mem = bool(ev_.env['args'][0].get(afs.ad))
            inst = 'push-word:%s' % label
            if is_mem == want_mem:
                R3.ok(inst, sample='push WORD PTR with %s stays %s' % (label, 'a memory operand' if want_mem else 'a non-memory operand'))
            else:
                R3.violation(inst, 'push-word:%s' % label, 'parse_mnemo turns the 16-bit push operand "%s" into %s' % (label, 'a memory operand' if is_mem else 'a non-memory operand (its base register is then pushed)'),
                             where(arch, st), witness="asm('push WORD PTR [eax]') == [66 50]")

    # segment overrides: printed by the decoder for every prefixed memory operand, so the assembler side must keep them
    from .c02 import size_vote_rule as _svr3
    _svr3(ctx, R3, X, what='segm')
    ptrformula_rule(ctx, R3, X)

    R4 = report.rule('C03.D4', 'the operand renderer emits displacement, symbol and segment exactly once on every path', floor=6)
    from ..linear import Linear
    branches = {}
    node = None
    for st in d2a.body:
        if isinstance(st, ast.If) and u(st.test) == 'is_reg(d)':
            node = st
    while node is not None:
        branches[u(node.test)] = node.body
        node = node.orelse[0] if len(node.orelse) == 1 and isinstance(node.orelse[0], ast.If) else None
    if 'is_imm(d)' not in branches or 'is_address(d)' not in branches:
        raise AnalysisError('dict_to_ad: is_imm / is_address branches not found')
    for bname, var in (('is_imm(d)', 'immediate'), ('is_address(d)', 'immediate'), ('is_address(d)', 'symbol'), ('is_address(d)', 'segment')):
        probs = []
        lin = Linear(var, lambda n: probs.append(('twice', n)), lambda n: probs.append(('dropped', n)))
        lin.block(branches[bname], {'Z'})
        inst = 'dict_to_ad[%s].%s' % (bname, var)
        if lin.emissions == 0 or lin.returns == 0:
            raise AnalysisError('%s: no emission site / return found' % inst)
        if probs:
            for kind, n in probs:
                R4.violation(inst, 'linear:%s:%s:%s' % (bname, var, kind), 'dict_to_ad (%s operands): on some path the %s is %s -- at `%s`' % (
                    'memory' if 'address' in bname else 'immediate', {'immediate': 'displacement/immediate', 'symbol': 'symbol part', 'segment': 'segment override'}[var],
                    'written to the output twice' if kind == 'twice' else 'never written to the output', norm(n)[:70]), where(arch, n),
                    witness="dis(8b 04 85 00 10 00 00) renders [4096+eax*4+4096]" if var == 'immediate' and kind == 'twice' else None)
        else:
            R4.ok(inst, sample='%s: %d emission sites, %d returns, each path emits it once' % (inst, lin.emissions, lin.returns))
        for k in range(lin.emissions):
            R4.ok('%s:site%d' % (inst, k), nontrivial=False)

    # ---------------------------------------------------------------- D5 a segment override of a string instruction survives the trip
    R5 = report.rule('C03.D5', 'string instructions: a segment override is printed and assembled back', floor=12)
    string_trip_rule(ctx, R5, X)

    # ---------------------------------------------------------------- D6 every value a short field can hold is offered back by the assembler
    R6 = report.rule('C03.D6', 'the ranges the assembler accepts for disp8/imm8/rel8/imm16/imm32 are the full ranges of those fields (check_imm_size)', floor=10)
    from .c02 import range_rule
    range_rule(ctx, R6)

    # ---------------------------------------------------------------- D9 the short immediate form of a 16-bit operand is offered back
    R9 = report.rule('C03.D9', 'both entry points type the immediates before candidates are selected (the sign-extended imm8 form of a 16-bit operand is offered only to a typed immediate)', floor=2)
    from .c19 import imm_typing_rule
    imm_typing_rule(ctx, R9)

    # ---------------------------------------------------------------- D11 the trip holds whatever was assembled before (shared with C12.D7)
    R11 = report.rule('C03.D11', 'assembling and disassembling do not edit the mnemonic / register tables they look up (rows found for one line are the table\'s own lists: filtering '
                      'builds a new list): the rendering of a byte string assembles back after any earlier call', floor=100)
    from .c12 import shared_table_rule
    shared_table_rule(R11, [ctx.mod('ia32_arch'), ctx.mod('parse_ad'), ctx.mod('ia32_att')])

    # ---------------------------------------------------------------- D15 the operand-size prefix of the renderings (shared with C02.D14)
    R15 = report.rule('C03.D15', 'the 16/32-bit decision of asm_candidates on the renderings of canonical bytes (asm_candidates interpreted until the mode is set, on 25 lines: mov with a segment '
                      'register in either direction, sldt / str / smsw / lar / lsl, movzx, in / out, plain): 0x66 exactly when the general register operand is 16 bits wide, so `8c 18`, '
                      'rendered `mov WORD PTR [eax], ds`, is offered back without a prefix', floor=20)
    from .c02 import size_vote_rule as _svr15
    _svr15(ctx, R15, X)

    # ---------------------------------------------------------------- D14 the size the decoder prints is a size the row accepts
    R14 = report.rule('C03.D14', 'for every /digit row with a memory form the operand size _dis gives the memory operand (its size statements evaluated) is accepted by check_size_modif '
                      '(evaluated) for the modifiers of the same row: the rendering names a size under which the assembler offers the row again', floor=150)
    digit_size_agreement_rule(ctx, R14)

    # ---------------------------------------------------------------- D12 the rendering determines the immediate (shared with C01.D13)
    R13 = report.rule('C03.D13', 'the segment override of a memory operand comes in front of the mandatory prefix of an MMX/SSE opcode in the prefixes asm_candidates collects '
                      '(asm_candidates interpreted up to the operand-size decision on 36 lines): the canonical bytes are among the candidates of their rendering', floor=10)
    from .c02 import size_vote_rule as _svr, x86model as _xm13
    _svr(ctx, R13, _xm13(ctx), what='order')
    R12 = report.rule('C03.D12', 'x86_mn.__str__ evaluated as a whole on every decoder form with an immediate: immediates that differ in a low bit, in bits 3-7 or in the top bit give '
                      'different texts (a text that folds the immediate cannot assemble back to the bytes)', floor=150)
    from .c01 import render_immediate_rule
    render_immediate_rule(ctx, R12)

    # ---------------------------------------------------------------- D10 brackets around a sized operand keep the size
    R10 = report.rule('C03.D10', 'a bracket production keeps the PTR size of the operand inside it (the renderer writes `call [WORD PTR 4660]`): grammar actions evaluated', floor=2)
    from ..consteval import Evaluator as _Ev10, NotConst as _NC10, PyRaise as _PR10
    pad = ctx.mod('parse_ad')
    from .c19 import productions as _prods
    n10 = 0
    for fname, fn in sorted(pad.funcs.items()):
        if not fname.startswith('p_brackets'):
            continue
        pr = _prods(fn)
        if pr is None:
            continue
        head, alts = pr
        for alt in alts:
            if 'ptrformula' not in alt:
                continue
            n10 += 1
            idx = alt.index('ptrformula') + 1
            for label, inner, want in (('WORD PTR 4660', {afs.imm: 4660, afs.ad: afs.u16, afs.size: afs.u16}, afs.u16),
                                       ('BYTE PTR es:4', {afs.imm: 4, afs.ad: afs.u08, afs.size: afs.u08, afs.segm: 0}, afs.u08)):
                t = [None] + ['[' if sym == 'LBRA' else ']' if sym == 'RBRA' else None for sym in alt]
                t[idx] = dict(inner)
                inst = '%s: [%s]' % (fname, label)
                try:
                    env10 = {'x86_afs': afs}
                    for hn_, hf_ in pad.funcs.items():
                        env10.setdefault(hn_, hf_)
                    _Ev10(env10).call_user(fn, [t])
                except _PR10 as e:
                    R10.violation(inst, 'brackets-size:%s:raises:%s' % (fname, e.exc_name), 'the action of `%s` raises %s on [%s]' % (' '.join(alt), e.exc_name, label), where(pad, fn))
                    continue
                except _NC10 as e:
                    raise AnalysisError('%s is outside the evaluable subset: %s' % (fname, e))
                out = t[0]
                if isinstance(out, dict) and out.get(afs.ad) == want and out.get(afs.size) == want:
                    R10.ok(inst, sample='%s keeps the size %s' % (inst, want))
                else:
                    R10.violation(inst, 'brackets-size:%s' % fname, 'the action of `%s` turns [%s] into an operand with ad = %r, size = %r: the PTR size inside the brackets (%s) is lost, '
                                  'and with it the 0x66 prefix of the instruction' % (' '.join(alt), label, out.get(afs.ad) if isinstance(out, dict) else out,
                                                                                      out.get(afs.size) if isinstance(out, dict) else None, want), where(pad, fn),
                                  witness="66 ff 15 34 12 00 00 renders as 'call [WORD PTR 4660]' and assembles back to ff 15 ..")
    if n10 == 0:
        raise AnalysisError('no bracket production takes a ptrformula: the renderer\'s `call [WORD PTR n]` cannot be read back')

    # ---------------------------------------------------------------- D8 x87 register rows accept the size the parser gives st(i)
    R8 = report.rule('C03.D8', 'x87 st(i) rows: the operand size the parser gives st(i) passes the size check of the row (check_size_modif); implicit-operand lists agree with the rows\' operand counts', floor=40)
    csm = arch.method('x86allmncs', 'check_size_modif')
    st_size = pregs.get('st0') or pregs.get('st')
    if st_size is None:
        raise AnalysisError('parse_ad.registers has no st0/st entry')
    lg_ = Obj('log')
    lg_.debug = Native(lambda *a: None)
    done = set()
    for path, c in sorted(X.cells.items()):
        if c.row.afs != E['reg'] or not (0xD8 <= c.opc[0] <= 0xDF) or c.row.idx in done:
            continue
        done.add(c.row.idx)
        ev8 = Evaluator(dict((k, v) for k, v in E.items() if isinstance(v, (str, int, bool, list, tuple, dict)) or v is None))
        ev8.env.update({'x86_afs': afs, 'log': lg_})
        md = dict((E[k], None) for k in ('w8', 'se', 'sw', 'ww', 'sg', 'dr', 'cr', 'ft', 'w64', 'sd', 'wd', 'bkf', 'spf', 'dtf', 'mmx') if k in E)
        md.update(c.modifs)
        try:
            ok_ = ev8.call_user(csm, [Obj('x86mndb'), st_size, md])
        except NotConst as e:
            raise AnalysisError('check_size_modif is outside the evaluable subset: %s' % e)
        inst = 'x87-reg-row:%s' % c.row.key()
        if ok_:
            R8.ok(inst, sample='%s: st(i) (%s) passes check_size_modif' % (c.row.key(), st_size))
        else:
            R8.violation(inst, 'x87-reg-size:%s:%s' % (c.name, ' '.join('%02X' % b for b in c.row.opc)), 'row %s decodes `%s st(i)`, but the size the operand parser gives st(i) (%s) fails '
                         'check_size_modif for the row (sd = %r): the rendering has no candidate' % (c.row.key(), c.name, st_size, c.modifs.get(E['sd'])), where(arch, c.row.node),
                         witness="asm('fcom st(1)') == [] although dis(d8 d1) renders 'fcom st(1)'")

    # operand counts: after normalize_args the implicit-operand lists leave 2 (float_arith), 1 (float_arith_p, float_st_st1, float_st_mnemo) operands;
    # the st(i) row of every listed name must take exactly that many
    want_n = {'float_arith': 2, 'float_arith_p': 1, 'float_st_st1': 1, 'float_st_mnemo': 1}
    done = set()
    for path, c in sorted(X.cells.items()):
        if c.row.afs != E['reg'] or not (0xD8 <= c.opc[0] <= 0xDF) or c.row.idx in done:
            continue
        done.add(c.row.idx)
        n_ops = 1 + len([d for d in c.row.rm if d != E['rmr']])
        for lst, n_want in sorted(want_n.items()):
            if c.name in E.get(lst, ()):
                inst = 'x87-reg-count:%s:%s' % (lst, c.row.key())
                if n_ops == n_want:
                    R8.ok(inst, sample='%s in %s: %d operand(s)' % (c.row.key(), lst, n_ops))
                else:
                    R8.violation(inst, 'x87-reg-count:%s:%s' % (lst, c.name), '%s is in %s, so normalize_args hands the assembler %d operand(s) for `%s st(i)`, but the row %s takes %d: '
                                 'no candidate' % (c.name, lst, n_want, c.name, c.row.key(), n_ops), where(arch, c.row.node), witness="asm('fcom st(1)') == []")

    # ---------------------------------------------------------------- D7 mnemonic lists the decoder rejects / sizes operands by are enforced by the assembler
    R7 = report.rule('C03.D7', 'every module-level mnemonic list by which _dis rejects an operand form or fixes an operand size is consulted by the assembler', floor=2)
    dis_ = arch.method('x86_mn', '_dis')
    mod_lists = set()
    for st in arch.tree.body:
        if isinstance(st, ast.Assign) and len(st.targets) == 1 and isinstance(st.targets[0], ast.Name) and isinstance(st.value, ast.List) \
                and st.value.elts and all(isinstance(e_, ast.Constant) and isinstance(e_.value, str) for e_ in st.value.elts):
            mod_lists.add(st.targets[0].id)
    size_nodes = set(id(x) for blk_ in X._size_nodes() for st in blk_ for x in ast.walk(st))
    used = {}
    for n in walk_no_nested(dis_):
        if not isinstance(n, ast.If):
            continue
        rejects = any(isinstance(x, ast.Return) and (x.value is None or u(x.value) == 'None') for x in n.body)
        sizes = id(n) in size_nodes and any(isinstance(x, ast.Assign) and 'x86_afs.size' in u(x.targets[0]) for x in n.body)
        if not (rejects or sizes):
            continue
        for cmp_ in ast.walk(n.test):
            if isinstance(cmp_, ast.Compare) and u(cmp_.left) == 'm.name' and isinstance(cmp_.ops[0], ast.In) and isinstance(cmp_.comparators[0], ast.Name) \
                    and cmp_.comparators[0].id in mod_lists:
                used.setdefault(cmp_.comparators[0].id, []).append(('rejects' if rejects else 'sizes', n))
    if not used:
        raise AnalysisError('_dis no longer rejects or sizes operands by a module-level mnemonic list (mnemo_mem_only expected)')
    asm_side = [ac, arch.method('x86_mn', 'normalize_args'), arch.method('x86_mn', 'parse_mnemo')]
    asm_names = set(n.id for f_ in asm_side if f_ is not None for n in ast.walk(f_) if isinstance(n, ast.Name))
    # the /digit and the reg,r/m branches of both sides: a rejection in one branch of the decoder is mirrored in the same branch of the assembler
    def digit_if(fn):
        n = X.digit_branch(fn)
        if n is None:
            raise AnalysisError('%s: the /digit branch was not found' % fn.name)
        return n
    d_dis, d_asm = digit_if(dis_), digit_if(ac)
    dis_digit_ids = set(id(x) for st in d_dis.body for x in ast.walk(st))
    asm_digit_names = set(n.id for st in d_asm.body for n in ast.walk(st) if isinstance(n, ast.Name))
    asm_rest_names = set(n.id for st in d_asm.orelse for n in ast.walk(st) if isinstance(n, ast.Name))
    for lst, sites in sorted(used.items()):
        kinds = sorted(set(k for k, _ in sites))
        inst = 'list %s (%s)' % (lst, '/'.join(kinds))
        missing_branch = None
        for k, n in sites:
            if k == 'rejects':
                in_digit = id(n) in dis_digit_ids
                if lst not in (asm_digit_names if in_digit else asm_rest_names):
                    missing_branch = ('/digit' if in_digit else 'reg,r/m', n)
        if lst in asm_names and missing_branch is None:
            R7.ok(inst, sample='%s: decoder %s, assembler consults it' % (lst, ' and '.join(kinds)))
        elif lst in asm_names:
            R7.violation(inst, 'asm-ignores:%s:%s' % (lst, missing_branch[0]), 'the %s branch of _dis rejects operand forms by membership in %s; the %s branch of asm_candidates does not '
                         'consult it and offers the encodings the decoder rejects' % (missing_branch[0], lst, missing_branch[0]), where(arch, missing_branch[1]))
        else:
            R7.violation(inst, 'asm-ignores:%s' % lst, 'the decoder %s by membership in %s, which the assembler never consults: it returns candidates the decoder rejects or '
                         'renders differently' % (' and '.join('rejects operand forms' if k == 'rejects' else 'fixes an operand size' for k in kinds), lst),
                         where(arch, sites[0][1]), witness="asm('lgdt eax') == ['0f01d0'], which dis() rejects" if lst == 'mnemo_mem_only' else None)



def digit_size_agreement_rule(ctx, R):
    from ..consteval import PyRaise, class_obj
    X = x86model(ctx)
    E, afs, arch = X.env, X.afs, X.arch
    csm = arch.method('x86allmncs', 'check_size_modif')
    lg = Obj('log')
    lg.debug = Native(lambda *a: None)
    scope = dict((k_, v_) for k_, v_ in E.items() if isinstance(v_, (str, int, bool, list, tuple, dict)) or v_ is None)
    scope.update({'x86_afs': afs, 'log': lg})
    for fname_, fnode_ in arch.funcs.items():
        scope.setdefault(fname_, fnode_)
    done = set()
    for path, c in sorted(X.cells.items()):
        if not isinstance(c.row.afs, int) or c.modifs.get(E['mmx']) or path[-1] >= 0xC0 or path[0] == 0x66:
            continue
        k = (c.row.idx, c.name, tuple(sorted((str(a), str(b)) for a, b in c.modifs.items())))
        if k in done:
            continue
        done.add(k)
        dibs = list(c.row.rm)
        ms = X.dis_operand_sizes(c.name, c.modifs, dibs, c.opc, c.row.afs, True, afs.u32)
        if isinstance(ms, str):
            continue                # the memory form is rejected / a NEVER site (C10)
        inst = 'digit-size:%s %s' % (c.name, ' '.join('%02X' % b for b in c.opc))
        rs = X.dis_operand_sizes(c.name, c.modifs, dibs, c.opc, c.row.afs, False, afs.u32)
        if not isinstance(rs, str) and rs[1] != ms[1]:
            R.ok(inst, nontrivial=False, sample='%s: the memory and the register form are sized differently (%s / %s); the mnemonic lists of C03.D7 decide' % (inst, ms[1], rs[1]))
            continue
        mod = dict((E[k_], None) for k_ in ('w8', 'se', 'sw', 'sd', 'wd', 'mmx', 'sg', 'dr', 'cr') if k_ in E)
        mod.update(c.modifs)
        try:
            r = Evaluator(scope).call_user(csm, [class_obj(arch, 'x86allmncs', 'self'), ms[1], mod])
        except PyRaise as e:
            r = 'raises %s' % e.exc_name
        except NotConst as e:
            raise AnalysisError('check_size_modif is outside the evaluable subset: %s' % e)
        if r is True:
            R.ok(inst, sample='%s [mem] is printed with size %s, which check_size_modif accepts for the row' % (inst, ms[1]))
        else:
            R.violation(inst, 'digit-size:%s:%s' % (c.name, ms[1]), '%s: _dis gives the memory operand of %s the size %s, check_size_modif answers %s for the modifiers of that row: the rendering '
                        '(%s PTR [..]) does not assemble back to this opcode' % (inst, c.row.key(), ms[1], r, ms[1]), where(arch, c.row.node), witness='df 6c 24 08 (fild QWORD PTR [esp+8])')


MUTANTS = [
    ('check-size-f64-refused', 'miasmx/arch/ia32_arch.py', '            if   modifs[sd] == False  and size in [x86_afs.u64,x86_afs.f64]:', '            if   modifs[sd] == False  and size in [x86_afs.u64]:', 'C03.D14'),

    ('mandatory-prefix-in-front', 'miasmx/arch/ia32_arch.py', "            if len(p) == 1 and p[0] > 0:\n                prefix.append(mmx_prefixes[p[0]])", "            if len(p) == 1 and p[0] > 0:\n                prefix.insert(0, mmx_prefixes[p[0]])", 'C03.D13'),
    ('sse-cmp-pseudo-op-revived', 'miasmx/arch/ia32_arch.py', "'cmpsd', 'cmpss'] and len(args)==2 \\\n", "'cmpsd', 'cmpss'] and len(args)==3 \\\n", 'C03.D12'),
    ('fcom-in-float-arith', 'miasmx/arch/ia32_arch.py', "float_arith =    ['fadd','fsub','fmul','fdiv','fsubr','fdivr']", "float_arith =    ['fadd','fsub','fmul','fdiv','fsubr','fdivr','fcom']", 'C03.D8'),
    ('fcom-reg-sd-false', 'miasmx/arch/ia32_arch.py', 'addop("fcom",  [0xD8, 0xD0],       reg,   no_rm         , {}                 ,{sd:True} ', 'addop("fcom",  [0xD8, 0xD0],       reg,   no_rm         , {}                 ,{sd:False}', 'C03.D8'),
    ('pushfw-no-row', 'miasmx/arch/ia32_arch.py', '        addop("pushfw",[0x66, 0x9C],       noafs, no_rm         , {}                 ,{}                , {},                         )\n', '', 'C03.D3'),
    ('asm-memonly-digit', 'miasmx/arch/ia32_arch.py', "                if c.name in mnemo_mem_only and a[x86_afs.ad] == False:\n                    # memory operand only (the decoder rejects mod == 3)\n                    continue\n", "", 'C03.D7'),
    ('asm-memonly-rmr', 'miasmx/arch/ia32_arch.py', "                if c.name in mnemo_mem_only and \\\n                        [a2, a1][not swap_args][x86_afs.ad] == False:\n                    # memory operand only (the decoder rejects mod == 3)\n                    continue\n", "", 'C03.D7'),
    ('asm-mem16-ignored', 'miasmx/arch/ia32_arch.py', "            if name in mnemo_mem16 or [a for a in args_eval", "            if [a for a in args_eval", 'C03.D7'),
    ('string-elide-always', 'miasmx/arch/ia32_arch.py', "        if len(args) == 2 and self.m.name in rep_mov_cmp and x86_afs.segm in args[0] \\\n                and args[1].get(x86_afs.segm) == default_ds:\n            args[0:2] = []", "        if len(args) == 2 and self.m.name in rep_mov_cmp and x86_afs.segm in args[0]:\n            args[0:2] = []", 'C03.D5'),
    ('string-override-dropped', 'miasmx/arch/ia32_arch.py', "            string_keep_override(args, prefix)\n            args[0:2] = []\n        # \"lea\"", "            args[0:2] = []\n        # \"lea\"", 'C03.D5'),
    ('segm-single-skip', 'miasmx/arch/ia32_arch.py', "            if x86_afs.segm in a:\n                #print a\n", "            if x86_afs.segm in a:\n                if len(args_eval) == 1 and not name in ['push', 'pop']:\n                    continue\n", 'C03.D3'),
    ('ptrformula-size-first', 'miasmx/core/parse_ad.py', "    t[0].update(t[1])\n\ndef p_symbolregister", "    t[1].update(t[0])\n    t[0] = t[1]\n\ndef p_symbolregister", 'C03.D3'),
    ('ptrformula-ds-always-dropped', 'miasmx/core/parse_ad.py', "    if t[2][x86_afs.segm] != 3 or 4 in t[3] or 5 in t[3]:", "    if t[2][x86_afs.segm] != 3:", 'C03.D3'),
    ('push-word-any', 'miasmx/arch/ia32_arch.py', "                and args[0][x86_afs.size] == x86_afs.u16 \\\n                and not [k for k in args[0] if type(k) == int]:", "                and args[0][x86_afs.size] == x86_afs.u16:", 'C03.D3'),
    ('movsd-store-string', 'miasmx/arch/ia32_arch.py', "                and args[0][x86_afs.size] != x86_afs.xmm \\\n                and args[1][x86_afs.size] != x86_afs.xmm:", "                and args[0][x86_afs.size] != x86_afs.xmm:", 'C03.D3'),
    ('disp-twice', 'miasmx/arch/ia32_arch.py', "                        address[0] = add_imm_to_string(\"\", immediate, imm_size)\n                        immediate = 0\n", "                        address[0] = add_imm_to_string(\"\", immediate, imm_size)\n", 'C03.D4'),
    ('symbol-twice', 'miasmx/arch/ia32_arch.py', "                address += ' + ' + symbol\n                symbol = ''\n", "                address += ' + ' + symbol\n", 'C03.D4'),
    ('no-mm-lexicon', 'miasmx/core/parse_ad.py', "for name in x86_afs.reg_mm:\n    registers[name] = x86_afs.mm\n", "", 'C03.D1'),
    ('qword-f32', 'miasmx/core/parse_ad.py', "        'qword': x86_afs.f64,", "        'qword': x86_afs.f32,", 'C03.D1'),
    ('suffix-swap', 'miasmx/arch/ia32_arch.py', "    '#hps#':  ('hps', 'hpd', 'INVALID', 'shdup'),", "    '#hps#':  ('lps', 'hpd', 'INVALID', 'shdup'),", 'C03.D2'),
    ('fence-swap', 'miasmx/arch/ia32_arch.py', "            'lfence': 'xrstor',\n            'mfence': 'xsaveopt',", "            'lfence': 'xsaveopt',\n            'mfence': 'xrstor',", 'C03.D3'),
    ('att-no-xmm', 'miasmx/arch/ia32_att.py', "for name in x86_afs.reg_xmm:\n    registers[name] = x86_afs.xmm\n", "", 'C03.D1'),
    ('reg16-size', 'miasmx/core/parse_ad.py', "for name in x86_afs.reg_list16:\n    registers[name] = x86_afs.u16", "for name in x86_afs.reg_list16:\n    registers[name] = x86_afs.u32", 'C03.D1'),
    ('normalize-list', 'miasmx/arch/ia32_arch.py', "        if len(args) == 2 and name in float_arith_p:\n            args[1:2] = []", "        if len(args) == 2 and name in float_arith:\n            args[1:2] = []", 'C03.D3'),
    ('ad-size-kw', 'miasmx/arch/ia32_arch.py', 'x86_afs.f80:"TBYTE PTR "', 'x86_afs.f80:"TWORD PTR "', 'C03.D1'),
    ('intel-untyped-imm', 'miasmx/arch/ia32_arch.py', "        x86_mn.arg_set_numpy_imm(args)\n        self.normalize_args(name, args, prefix)", "        self.normalize_args(name, args, prefix)", 'C03.D9'),
    ('brackets-overwrite-size', 'miasmx/core/parse_ad.py', "    if not x86_afs.ad in t[2]:\n        t[2][x86_afs.ad] = True\n    t[0] = t[2]\n", "    t[2][x86_afs.ad] = True\n    t[0] = t[2]\n", 'C03.D10'),
]
