"""C15 -- IR structural laws (eq/hash coherence, copy/visit completeness,
substitution through visit, reordering only under commutativity)."""
import ast

from ..core import AnalysisError, where, norm
from ..fieldmatrix import Matrix, MethodInfo, NODE_CLASSES
from ..srcmodel import parent, calls_in
from ..shapes import u

# constructor fields that are evaluation-control metadata, not identity
METADATA = {('ExprId', 'is_term'): 'evaluation-control flag, preserved by copy, not part of identity'}
# classes without sub-expressions
LEAVES = ('ExprInt', 'ExprId')
COMMUTATIVE_REF = {'+', '*', '^', '&', '|'}


def commutative_guard(call, mod):
    """True if `call` is control-dependent on `<x> in <name>` where name is a
    module-level list literal of commutative operators (on the true branch)."""
    p, child = parent(call), call
    while p is not None and not isinstance(p, (ast.FunctionDef, ast.Module)):
        if isinstance(p, ast.If) and any(child is s or _contains(s, child) for s in p.body):
            for t in _conjuncts(p.test):
                if isinstance(t, ast.Compare) and len(t.ops) == 1 and isinstance(t.ops[0], ast.In):
                    cmp = t.comparators[0]
                    vals = _op_list(cmp, mod)
                    if vals is not None and vals and set(vals) <= COMMUTATIVE_REF:
                        return True
        child = p
        p = parent(p)
    return False


def _contains(stmt, node):
    for n in ast.walk(stmt):
        if n is node:
            return True
    return False


def _conjuncts(t):
    if isinstance(t, ast.BoolOp) and isinstance(t.op, ast.And):
        out = []
        for v in t.values:
            out += _conjuncts(v)
        return out
    return [t]


def _op_list(node, mod):
    if isinstance(node, ast.Name) and node.id in mod.assigns:
        node = mod.assign_value(node.id)
    if isinstance(node, (ast.List, ast.Tuple, ast.Set)):
        vals = []
        for e in node.elts:
            if not (isinstance(e, ast.Constant) and isinstance(e.value, str)):
                return None
            vals.append(e.value)
        return vals
    return None


def sort_sites(mod):
    """Calls that reorder an ExprOp's operands: canonize_expr_list(...) and sorted(..., key=key_expr)."""
    out = []
    for n in ast.walk(mod.tree):
        if isinstance(n, ast.Call):
            f = u(n.func)
            if f == 'canonize_expr_list':
                out.append(n)
            elif f == 'sorted' and any(k.arg == 'key' and u(k.value) == 'key_expr' for k in n.keywords):
                fn = _enclosing_fn(n)
                if fn is not None and fn.name == 'canonize_expr_list':
                    continue  # the helper itself
                out.append(n)
    return out


def _enclosing_fn(n):
    p = parent(n)
    while p is not None and not isinstance(p, ast.FunctionDef):
        p = parent(p)
    return p


def eq_rule(ctx, R1, mod=None, M=None):
    """__eq__/__hash__ coherence of the IR node classes (shared with C05/C13: the simplifier's cancellation rules and its fixpoint test rely on ==)."""
    mod = mod or ctx.mod('expression')
    M = M or Matrix(mod)
    for c in NODE_CLASSES:
        meths = M.methods[c]
        cdef = mod.cls(c)
        if '__eq__' not in meths or '__hash__' not in meths:
            R1.violation(c, c + ':eq/hash', '%s lacks its own __eq__ or __hash__' % c, where(mod, cdef))
            continue
        eqf = M.eq_fields(c)
        fn = meths['__eq__'].fn
        other = fn.args.args[1].arg
        bad = False
        for f in M.fields[c]:
            if (c, f) in METADATA:
                continue
            if f not in eqf:
                R1.violation(c, '%s.__eq__:%s' % (c, f), '%s.__eq__ does not compare field %s' % (c, f), where(mod, fn))
                bad = True
        # pairwise comparisons must pair a field with the same field
        for n in ast.walk(fn):
            if isinstance(n, ast.Compare) and len(n.ops) == 1:
                l, r = n.left, n.comparators[0]
                lf = _field_of(l, 'self', M.fields[c])
                rf = _field_of(r, other, M.fields[c])
                if lf and rf and lf != rf:
                    R1.violation(c, '%s.__eq__:%s' % (c, norm(n)), '%s.__eq__ compares self.%s with other.%s' % (c, lf, rf), where(mod, n))
                    bad = True
                lf2 = _field_of(l, 'self', M.fields[c])
                rf2 = _field_of(r, 'self', M.fields[c])
                if lf2 and rf2:
                    R1.violation(c, '%s.__eq__:%s' % (c, norm(n)), '%s.__eq__ compares self with self' % c, where(mod, n))
                    bad = True
        # a list-valued field compared element by element needs a length comparison as well (zip/enumerate stop at the shorter list)
        for f in M.fields[c]:
            whole = any(isinstance(n, ast.Compare) and len(n.ops) == 1 and u(n.left) == 'self.%s' % f and u(n.comparators[0]) == '%s.%s' % (other, f) for n in ast.walk(fn))
            elementwise = [n for n in ast.walk(fn) if isinstance(n, ast.For) and ('self.%s' % f) in u(n.iter)]
            if elementwise and not whole:
                has_len = any(isinstance(n, ast.Compare) and len(n.ops) == 1 and {u(n.left), u(n.comparators[0])} == {'len(self.%s)' % f, 'len(%s.%s)' % (other, f)}
                              for n in ast.walk(fn))
                if not has_len:
                    R1.violation(c, '%s.__eq__:%s:length' % (c, f), '%s.__eq__ compares %s element by element without comparing the lengths: a node equals every node whose %s is a '
                                 'proper prefix (or extension) of its own' % (c, f, f), where(mod, elementwise[0]), witness='ExprOp("&", a, b) == ExprOp("&", a, b, c)')
                    bad = True
        # class test
        cls_test = False
        for n in ast.walk(fn):
            if isinstance(n, ast.Call) and u(n.func) == 'isinstance' and len(n.args) == 2 and u(n.args[0]) == other \
                    and u(n.args[1]) == c:
                cls_test = True
            if isinstance(n, ast.Compare) and u(n.left) in (other + '.__class__', 'type(%s)' % other):
                cls_test = True
        if not cls_test:
            R1.violation(c, '%s.__eq__:class' % c, '%s.__eq__ does not test the class of its operand' % c, where(mod, fn))
            bad = True
        hf = meths['__hash__']
        extra = [f for f in hf.read if f not in eqf]
        for f in extra:
            R1.violation(c, '%s.__hash__:%s' % (c, f), '%s.__hash__ uses field %s which __eq__ ignores (equal nodes may hash differently)'
                         % (c, f), where(mod, hf.fn))
            bad = True
        for n in calls_in(hf.fn):
            if u(n.func) == 'id':
                R1.violation(c, '%s.__hash__:id' % c, '%s.__hash__ depends on object identity' % c, where(mod, n))
                bad = True
        if '__ne__' in meths:
            raise AnalysisError('%s overrides __ne__ (not modelled)' % c)
        if not bad:
            R1.ok(c, sample='%s: fields=%s eq=%s hash=%s' % (c, M.fields[c], eqf, sorted(hf.read)))
    # equal nodes have equal widths: what get_size() reads must take part in __eq__
    for c in NODE_CLASSES:
        meths = M.methods[c]
        if 'get_size' not in meths or '__eq__' not in meths:
            continue
        gs = meths['get_size'].fn
        rets = [n for n in ast.walk(gs) if isinstance(n, ast.Return) and n.value is not None]
        for r in rets:
            v = r.value
            # self.<field>.<attr> : a width carried by a non-node payload (the modular integer of a constant)
            if isinstance(v, ast.Attribute) and isinstance(v.value, ast.Attribute) and u(v.value.value) == 'self' and v.value.attr in M.fields[c]:
                fld, attr = v.value.attr, v.attr
                eqfn = meths['__eq__'].fn
                other = eqfn.args.args[1].arg
                direct = any(isinstance(n, ast.Compare) and len(n.ops) == 1 and {u(n.left), u(n.comparators[0])} == {'self.%s.%s' % (fld, attr), '%s.%s.%s' % (other, fld, attr)}
                             for n in ast.walk(eqfn))
                # or the payload's own __eq__ compares it
                payload_eq = False
                try:
                    pe = ctx.mod('modint').method('moduint', '__eq__')
                    payload_eq = any(isinstance(n, ast.Compare) and ('.%s' % attr) in u(n) or '__class__' in u(n) for n in ast.walk(pe) if isinstance(n, ast.Compare))
                except AnalysisError:
                    pass
                inst = '%s:width-in-eq' % c
                if direct or payload_eq:
                    R1.ok(inst, sample='%s: get_size() reads self.%s.%s, compared by __eq__' % (c, fld, attr))
                else:
                    R1.violation(inst, '%s.__eq__:width' % c, '%s.get_size() is self.%s.%s, but __eq__ compares self.%s with a payload equality that ignores %s: constants of different '
                                 'widths are equal (and hash alike), so dictionaries and caches keyed by expressions confuse them' % (c, fld, attr, fld, attr), where(mod, eqfn),
                                 witness='ExprInt8(1) == ExprInt32(1); eval_expr(Compose(rol8(0x81,1), 0:8, rol16(0x81,1))) returns the 8-bit result for the 16-bit rotation (evaluation cache)')
    ne = mod.method('Expr', '__ne__')
    a = ne.args.args[1].arg
    rets = [n for n in ast.walk(ne) if isinstance(n, ast.Return)]
    if len(rets) == 1 and u(rets[0].value) in ('not self.__eq__(%s)' % a, 'not self == %s' % a):
        R1.ok('Expr.__ne__', sample='Expr.__ne__ -> ' + u(rets[0].value))
    else:
        R1.violation('Expr.__ne__', 'Expr.__ne__', '__ne__ is not the negation of __eq__', where(mod, ne))



class _Filter(object):
    """Forwards to a rule only the instances whose name contains `part` (used to run one half of a shared rule)."""

    def __init__(self, rule, part):
        self.rule, self.part = rule, part

    def ok(self, inst, **kw):
        if self.part in inst:
            self.rule.ok(inst, **kw)

    def violation(self, inst, key, *a, **kw):
        if self.part in inst or self.part in key:
            self.rule.violation(inst, key, *a, **kw)

    def note(self, *a, **kw):
        self.rule.note(*a, **kw)


def copy_visit_rule(ctx, R2, mod=None, M=None, only=None):
    """copy() / visit() completeness per node class (shared with C13: the simplifier is a visit with a callback, so a visit that drops or keeps a
    stale sub-expression changes what expr_simp returns).  only = 'visit' records the visit part alone."""
    mod = mod or ctx.mod('expression')
    M = M or Matrix(mod)
    if only == 'visit':
        R_all, R2 = R2, _Filter(R2, '.visit')
    elif only == 'copy':
        R_all, R2 = R2, _Filter(R2, '.copy')
    # flags stored on freshly constructed nodes outside expression.py (the evaluator marks unknown memory cells as terminal)
    dynamic_flags = {}
    for mname in ('eval_abs', 'expr_helper', 'emul_helper'):
        m2 = ctx.mod(mname)
        for f2 in [n for n in ast.walk(m2.tree) if isinstance(n, ast.FunctionDef)]:
            assigns = sorted([n for n in ast.walk(f2) if isinstance(n, ast.Assign) and len(n.targets) == 1 and isinstance(n.targets[0], ast.Name)], key=lambda n: n.lineno)
            for n in ast.walk(f2):
                if isinstance(n, ast.Assign) and len(n.targets) == 1 and isinstance(n.targets[0], ast.Attribute) and isinstance(n.targets[0].value, ast.Name) \
                        and n.targets[0].attr == 'is_term':
                    # class of the nearest preceding binding of that name
                    prev = [a for a in assigns if a.targets[0].id == n.targets[0].value.id and a.lineno < n.lineno]
                    if prev and isinstance(prev[-1].value, ast.Call) and u(prev[-1].value.func) in NODE_CLASSES:
                        dynamic_flags.setdefault(u(prev[-1].value.func), {})[n.targets[0].attr] = '%s.%s' % (mname, f2.name)
    for c in NODE_CLASSES:
        meths = M.methods[c]
        cdef = mod.cls(c)
        ef = M.expr_fields(c)
        # copy
        if 'copy' not in meths:
            R2.violation(c + '.copy', c + '.copy:missing', '%s inherits Expr.copy (identity visit shares every node)' % c, where(mod, cdef))
        else:
            mi = meths['copy']
            bad = False
            rets = [n for n in ast.walk(mi.fn) if isinstance(n, ast.Return)]
            for r in rets:
                val = r.value
                if isinstance(val, ast.Name):
                    # a returned local: every assignment to it must be the constructor call (attribute stores on it are flag copies)
                    asg = [n.value for n in ast.walk(mi.fn) if isinstance(n, ast.Assign) and len(n.targets) == 1 and isinstance(n.targets[0], ast.Name) and n.targets[0].id == val.id]
                    if asg and all(isinstance(v, ast.Call) and u(v.func) == c for v in asg):
                        for v in asg:
                            _check_ctor_call(R2, mod, c, 'copy', v, M)
                        continue
                if not (isinstance(val, ast.Call) and u(val.func) == c):
                    R2.violation(c + '.copy', '%s.copy:%s' % (c, norm(r)), '%s.copy does not construct a new %s: %s' % (c, c, norm(r)), where(mod, r))
                    bad = True
                else:
                    _check_ctor_call(R2, mod, c, 'copy', val, M)
            # evaluation-control flags that the evaluator sets on instances of this class must survive the copy
            for flag, setter in sorted(dynamic_flags.get(c, {}).items()):
                inst = '%s.copy:flag:%s' % (c, flag)
                if any(isinstance(n, ast.Attribute) and n.attr == flag for n in ast.walk(mi.fn)):
                    R2.ok(inst, sample='%s.copy carries the flag %s (set by %s)' % (c, flag, setter))
                else:
                    R2.violation(inst, '%s.copy:flag:%s' % (c, flag), '%s sets %s on %s nodes, but %s.copy builds the copy without it: the copy evaluates differently from its original'
                                 % (setter, flag, c, c), where(mod, mi.fn), witness='m = eval_expr(@32[eax]) (unknown cell, is_term); m.copy() is evaluated again to the current content')
            for f in M.fields[c]:
                if f not in mi.read:
                    R2.violation(c + '.copy', '%s.copy:%s' % (c, f), '%s.copy drops field %s' % (c, f), where(mod, mi.fn))
                    bad = True
            for f in ef:
                if 'copy' not in mi.recursed.get(f, set()):
                    R2.violation(c + '.copy', '%s.copy:%s:shallow' % (c, f), '%s.copy does not deep-copy sub-expression field %s' % (c, f), where(mod, mi.fn))
                    bad = True
            if not bad:
                R2.ok(c + '.copy', sample='%s.copy reads %s, recurses into %s' % (c, sorted(mi.read), sorted(mi.recursed)))
        # visit
        if 'visit' not in meths:
            R2.violation(c + '.visit', c + '.visit:missing', '%s has no visit' % c, where(mod, cdef))
            continue
        mi = meths['visit']
        bad = False
        wrapped = any(isinstance(st, ast.Assign) and u(st.targets[0]) == 'visit' and u(st.value) == 'visit_chk(visit)' for st in cdef.body) \
            or any(u(d) == 'visit_chk' for d in mi.fn.decorator_list)
        if not wrapped:
            R2.violation(c + '.visit', '%s.visit:unwrapped' % c, '%s.visit is not wrapped by visit_chk: the callback is never applied to %s nodes' % (c, c), where(mod, mi.fn))
            bad = True
        for f in ef:
            if 'visit' not in mi.recursed.get(f, set()):
                # the recursion is not traced by the field matrix (a loop over several fields, a helper): the evaluated law decides - visiting every family member of this
                # class with a renaming callback must rename every occurrence (exprobj, C15.D7)
                from .. import exprobj as _xo
                rows_ = [r_ for r_ in _xo.laws(ctx)['visit-rename'] if r_[0].split(':')[1:2] == [c[4:]]]
                if len(rows_) >= 3 and all(r_[1] for r_ in rows_):
                    R2.note('%s.visit: the visit of field %s is not traced structurally; %d renaming visits of %s nodes, evaluated from the source, rename every occurrence' % (c, f, len(rows_), c))
                    continue
                R2.violation(c + '.visit', '%s.visit:%s' % (c, f), '%s.visit does not visit sub-expression field %s' % (c, f), where(mod, mi.fn))
                bad = True
        if c not in LEAVES:
            rebuilt = [n for n in calls_in(mi.fn) if u(n.func) == c]
            if not rebuilt:
                R2.violation(c + '.visit', '%s.visit:rebuild' % c, '%s.visit never rebuilds the node' % c, where(mod, mi.fn))
                bad = True
            for call in rebuilt:
                _check_ctor_call(R2, mod, c, 'visit', call, M)
            for f in M.fields[c]:
                if f not in mi.read:
                    R2.violation(c + '.visit', '%s.visit:%s' % (c, f), '%s.visit drops field %s when rebuilding' % (c, f), where(mod, mi.fn))
                    bad = True
        # identity shortcut: `return self` only after every sub-expression field has been visited and compared
        if c not in LEAVES:
            for r in [n for n in ast.walk(mi.fn) if isinstance(n, ast.Return) and u(n.value) == 'self']:
                rpos = (r.lineno, r.col_offset)
                for f in ef:
                    visited_before = [call for (ff, meth, call) in mi.calls
                                      if ff == f and meth == 'visit' and (call.lineno, call.col_offset) < rpos]
                    compared_before = [n for n in ast.walk(mi.fn) if isinstance(n, ast.Compare)
                                       and (n.lineno, n.col_offset) < rpos and _mentions_field(n, f, mi)]
                    untraced_ = not any(ff == f and meth == 'visit' for (ff, meth, call) in mi.calls)
                    if (not visited_before or not compared_before) and untraced_:
                        # the field matrix does not see how this field is visited (a loop over several fields): the renaming visits evaluated from the source decide
                        from .. import exprobj as _xo
                        rows_ = [r_ for r_ in _xo.laws(ctx)['visit-rename'] + _xo.laws(ctx)['visit-id'] if r_[0].split(':')[1:2] == [c[4:]]]
                        if len(rows_) >= 6 and all(r_[1] for r_ in rows_):
                            continue
                    if not visited_before:
                        R2.violation(c + '.visit', '%s.visit:return-self-before-visit:%s' % (c, f),
                                     '%s.visit can return self before visiting sub-expression field %s (callback/substitution skipped there)' % (c, f),
                                     where(mod, r))
                        bad = True
                    elif not compared_before:
                        R2.violation(c + '.visit', '%s.visit:return-self-uncompared:%s' % (c, f),
                                     '%s.visit returns self without comparing the visited %s with the original' % (c, f), where(mod, r))
                        bad = True
        if not bad:
            R2.ok(c + '.visit', sample='%s.visit reads %s, recurses into %s, wrapped by visit_chk' % (c, sorted(mi.read), sorted(mi.recursed)))
    # visit_chk applies the callback to the rebuilt node
    vc = mod.func('visit_chk')
    ok = False
    for inner in ast.walk(vc):
        if isinstance(inner, ast.FunctionDef) and inner is not vc:
            ps = [x.arg for x in inner.args.args]
            if len(ps) == 2:
                e, cb = ps
                src = [u(s) for s in inner.body]
                flat = ' ; '.join(src)
                if ('visitor(%s, %s)' % (e, cb)) in flat and ('%s(' % cb) in flat:
                    ok = True
    if ok:
        R2.ok('visit_chk', sample='visit_chk: cb applied to visitor(e, cb)')
    else:
        R2.violation('visit_chk', 'visit_chk', 'visit_chk no longer applies the callback to the visited node', where(mod, vc))



def run(ctx, report):
    mod = ctx.mod('expression')
    hlp = ctx.mod('expr_helper')
    M = Matrix(mod)
    report.explanation = (
        'Field/method matrix over the 8 IR node classes of expression.py: D1 __hash__ fields are a subset of __eq__ fields, '
        '__eq__ compares every constructor field (metadata table excepted) pairwise with the same field of the other operand and '
        'tests the class, __ne__ is its negation; D2 copy() and visit() rebuild from all fields, recurse into every '
        'sub-expression field, copy() never returns self, every visit is wrapped by visit_chk; D3 replace_expr/copy go through visit; '
        'D4 every operand-reordering call site is control-dependent on membership in a list of commutative operators.')
    report.not_decided = 'value preservation for concrete valuations (behaviour of the callbacks), sharing inside non-node containers.'
    report.analysed['matrix'] = dict((c, {'fields': M.fields[c], 'expr_fields': M.expr_fields(c), 'eq_fields': M.eq_fields(c)})
                                     for c in NODE_CLASSES)

    R1 = report.rule('C15.D1', 'eq/hash coherence per node class', floor=8)
    eq_rule(ctx, R1, mod, M)

    R2 = report.rule('C15.D2', 'copy/visit completeness per node class', floor=16)
    copy_visit_rule(ctx, R2, mod, M)

    R3 = report.rule('C15.D3', 'substitution and copy of the base class go through visit', floor=2)
    for name in ('replace_expr', 'canonize'):
        for c in NODE_CLASSES:
            if name in M.methods[c]:
                raise AnalysisError('%s overrides %s (not modelled)' % (c, name))
    fn = mod.method('Expr', 'replace_expr')
    replace_rule(R3, mod, fn)
    fn = mod.method('Expr', 'canonize')
    rets = [n for n in ast.walk(fn) if isinstance(n, ast.Return) and enclosing(n) is fn]
    if len(rets) == 1 and isinstance(rets[0].value, ast.Call) and u(rets[0].value.func) == 'self.visit':
        R3.ok('Expr.canonize', sample='canonize -> self.visit(my_canon)')
    else:
        R3.violation('Expr.canonize', 'Expr.canonize', 'canonize has its own traversal', where(mod, fn))

    from .. import exprobj
    R5 = report.rule('C15.D5', 'equality evaluated from the source on pairs of the expression family: reflexive on identically built expressions, symmetric, != its negation, '
                     'and equal expressions have equal hashes, widths and values', floor=60)
    exprobj.emit_law(R5, ctx, 'eq')
    R6 = report.rule('C15.D6', 'copy() evaluated on the family: the copy is equal, carries the evaluation flags, and shares no node object with the original', floor=20)
    exprobj.emit_law(R6, ctx, 'copy')
    R7 = report.rule('C15.D7', 'visit() evaluated on the family: the identity callback returns an equal expression; a callback renaming one identifier renames every occurrence '
                     '(operands, conditions, slots, addresses, segment selectors of every node kind)', floor=40)
    exprobj.emit_law(R7, ctx, 'visit-id')
    exprobj.emit_law(R7, ctx, 'visit-rename')
    R8 = report.rule('C15.D8', 'replace_expr evaluated: maps on identifiers (incl. swaps and chains) denote simultaneous substitution on every valuation; compound keys with equal hashes, '
                     'overlapping keys and rotations give the simultaneous result; canonize keeps width and value', floor=30)
    exprobj.emit_law(R8, ctx, 'replace')
    exprobj.emit_law(R8, ctx, 'canonize')

    R4 = report.rule('C15.D4', 'operand reordering only under commutativity', floor=2)
    for m in (mod, hlp):
        for call in sort_sites(m):
            fn = _enclosing_fn(call)
            q = '%s::%s' % (m.name, fn.name if fn else '<module>')
            inst = '%s:%s' % (q, norm(call))
            if commutative_guard(call, m):
                R4.ok(inst, sample='%s guarded by membership in a commutative-operator list' % inst)
            else:
                R4.violation(inst, inst, 'operands of an ExprOp are sorted without a commutativity guard: %s in %s' % (norm(call), q),
                             where(m, call), witness='(b >> a).canonize() -> (a >> b)')
    # the commutative list itself
    for m in (mod, hlp):
        vals = _op_list(ast.Name('op_assoc', ast.Load()), m)
        if vals is None:
            raise AnalysisError('%s.op_assoc not a literal list' % m.name)
        extra = set(vals) - COMMUTATIVE_REF
        if extra:
            R4.violation(m.name + '.op_assoc', m.name + '.op_assoc:' + ','.join(sorted(extra)),
                         'op_assoc lists non commutative-associative operators %s' % sorted(extra), where(m, m.assigns['op_assoc'][-1]))
        else:
            R4.ok(m.name + '.op_assoc', sample='%s.op_assoc = %s' % (m.name, vals))


def replace_rule(R3, mod, fn):
    """replace_expr denotes a simultaneous substitution.  The traversal is visit(): bottom-up, the callback sees each node after its children were
    rebuilt (visit_chk, C15.D2).  A callback that looks sub-expressions up in the caller's map and puts the caller's values in place during that same
    traversal rewrites in chain: with {a: b, (b+x): c}, (a+x) becomes (b+x) and then c.  Accepted: every traversal of replace_expr looks up in a map whose
    keys or whose values are fresh identifiers made in replace_expr (marks), and the result is a visit of self (or of a visit of self)."""
    params = [a.arg for a in fn.args.args]
    user_map = params[1] if len(params) > 1 else None
    inner = dict((n.name, n) for n in ast.walk(fn) if isinstance(n, ast.FunctionDef) and n is not fn)
    fresh = set()
    # loop counters: `for i, k in enumerate(..)` gives every key its own number
    counters = set()
    for n in ast.walk(fn):
        if isinstance(n, ast.For) and isinstance(n.iter, ast.Call) and u(n.iter.func) == 'enumerate' and isinstance(n.target, ast.Tuple) and isinstance(n.target.elts[0], ast.Name):
            counters.add(n.target.elts[0].id)
    colliding = []
    for n in ast.walk(fn):
        if isinstance(n, ast.Assign) and len(n.targets) == 1 and isinstance(n.targets[0], ast.Name) and isinstance(n.value, ast.Call) and u(n.value.func) == 'ExprId':
            name_arg = n.value.args[0] if n.value.args else None
            names_in = set(x.id for x in ast.walk(name_arg) if isinstance(x, ast.Name)) if name_arg is not None else set()
            if names_in & counters and not any(isinstance(x, ast.Call) and u(x.func) in ('hash', 'str', 'repr', 'id') for x in ast.walk(name_arg)):
                fresh.add(n.targets[0].id)
            else:
                colliding.append(n)
    key_fresh, val_fresh, tainted = {}, {}, set()
    for n in ast.walk(fn):
        if not isinstance(n, ast.Assign):
            continue
        tg, vals = n.targets[0], n.value
        pairs = list(zip(tg.elts, vals.elts)) if isinstance(tg, ast.Tuple) and isinstance(vals, ast.Tuple) and len(tg.elts) == len(vals.elts) else [(tg, vals)]
        for t_, v_ in pairs:
            if isinstance(t_, ast.Subscript) and isinstance(t_.value, ast.Name):
                d = t_.value.id
                kf = isinstance(t_.slice, ast.Name) and t_.slice.id in fresh
                vf = isinstance(v_, ast.Name) and v_.id in fresh
                key_fresh[d] = key_fresh.get(d, True) and kf
                val_fresh[d] = val_fresh.get(d, True) and vf
    visits = [n for n in ast.walk(fn) if isinstance(n, ast.Call) and isinstance(n.func, ast.Attribute) and n.func.attr == 'visit']
    rets = [n for n in ast.walk(fn) if isinstance(n, ast.Return) and enclosing(n) is fn]
    problems = []
    if not visits:
        raise AnalysisError('Expr.replace_expr has its own traversal (no visit call): the substitution clause has to be re-read')
    # the result is a visit rooted at self
    bound = {}
    for n in ast.walk(fn):
        if isinstance(n, ast.Assign) and len(n.targets) == 1 and isinstance(n.targets[0], ast.Name) and enclosing(n) is fn:
            bound[n.targets[0].id] = n.value

    def rooted(e, depth=0):
        if depth > 4:
            return False
        if isinstance(e, ast.Name):
            return e.id == 'self' or (e.id in bound and rooted(bound[e.id], depth + 1))
        if isinstance(e, ast.Call) and isinstance(e.func, ast.Attribute) and e.func.attr == 'visit':
            return rooted(e.func.value, depth + 1)
        return False
    if len(rets) != 1 or not (isinstance(rets[0].value, ast.Call) and rooted(rets[0].value) and not isinstance(rets[0].value, ast.Name)):
        problems.append(('Expr.replace_expr', 'replace_expr does not return a visit of self'))
    for v in visits:
        cb = v.args[0] if v.args else None
        body = None
        if isinstance(cb, ast.Lambda) and isinstance(cb.body, ast.Call) and isinstance(cb.body.func, ast.Name) and cb.body.func.id in inner and len(cb.body.args) == 2:
            g = inner[cb.body.func.id]
            e_, d_ = [x.arg for x in g.args.args]
            body = ' ; '.join(u(s_) for s_ in g.body)
            if not (('if %s in %s' % (e_, d_)) in body and ('return %s[%s]' % (d_, e_)) in body and body.rstrip().endswith('return %s' % e_)):
                problems.append(('Expr.replace_expr:callback', 'the callback %s is not the map lookup (dct[e] if e in dct else e)' % g.name))
                continue
            looked = cb.body.args[1]
            dn = looked.id if isinstance(looked, ast.Name) else None
            if dn == user_map or dn is None or not (key_fresh.get(dn) or val_fresh.get(dn)):
                problems.append(('Expr.replace_expr:chained', 'the traversal `%s` looks sub-expressions up in %s and puts its values in place while visit() is still rebuilding the parents: '
                                 'a value put in place can form another key (chained rewriting instead of a simultaneous substitution)' % (norm(v), dn or u(looked))))
        else:
            problems.append(('Expr.replace_expr:callback', 'unmodelled callback %s' % (u(cb) if cb is not None else '<none>')))
    for n in colliding:
        problems.append(('Expr.replace_expr:mark-name', 'the mark %s is not named after a per-key counter: two different keys can get the same mark (hashes of nodes are XORs of their children: '
                         'a-b and b-a collide), and both are then replaced by one value' % norm(n)))
    unmodelled = [pm for pm in problems if pm[0] == 'Expr.replace_expr:callback']
    problems = [pm for pm in problems if pm[0] != 'Expr.replace_expr:callback']
    for key, msg in unmodelled:
        # the shape of the traversal is not one this clause knows: what replace_expr computes is decided by evaluation (C15.D8)
        R3.note('replace_expr: %s -- not judged here; C15.D8 evaluates replace_expr on identifier maps, swaps, chains and compound keys' % msg)
    if unmodelled and not problems:
        R3.ok('Expr.replace_expr', nontrivial=False)
    if problems:
        for key, msg in problems:
            R3.violation('Expr.replace_expr', key, msg, where(mod, fn), witness="((a+x)*(b+x)).replace_expr({a: b, (b+x): c}) is (c*c), not ((b+x)*c)" if key.endswith('chained') else None)
    else:
        R3.ok('Expr.replace_expr', sample='replace_expr: %d traversals, each over a map with fresh marks as keys or as values' % len(visits))


def _mentions_field(cmp, f, mi):
    """Compare node mentions self.<f> directly, or a loop variable bound from iterating self.<f>."""
    for n in ast.walk(cmp):
        if isinstance(n, ast.Attribute) and isinstance(n.value, ast.Name) and n.value.id == 'self' and n.attr == f:
            return True
        if isinstance(n, ast.Name) and mi.binds.get(n.id) == f:
            return True
    return False


def enclosing(n):
    return _enclosing_fn(n)


def _field_of(expr, base, fields):
    e = expr
    if isinstance(e, ast.Call) and u(e.func) == 'len' and e.args:
        e = e.args[0]
    if isinstance(e, ast.Attribute) and isinstance(e.value, ast.Name) and e.value.id == base and e.attr in fields:
        return e.attr
    return None


def _check_ctor_call(R, mod, c, meth, call, M):
    """Keyword arguments of a rebuilding constructor call must carry the same-named field
    (e.g. segm = None in ExprMem.copy would silently drop the segment)."""
    # positional arguments: the parameter of __init__ at that position names the field
    init = mod.method(c, '__init__', required=False)
    if init is not None:
        params = [a.arg for a in init.args.args][1:]
        for i, a in enumerate(call.args):
            if i < len(params) and params[i] in M.fields[c] and not isinstance(a, ast.Starred):
                names = set(n.id for n in ast.walk(a) if isinstance(n, ast.Name)) | set(n.attr for n in ast.walk(a) if isinstance(n, ast.Attribute))
                other = [f for f in M.fields[c] if f != params[i] and f in names]
                if params[i] not in names and other:
                    R.violation('%s.%s' % (c, meth), '%s.%s:pos%d:%s=%s' % (c, meth, i, params[i], norm(a)),
                                '%s.%s passes %s as argument %d, which is the parameter %s of %s.__init__: the fields %s and %s are exchanged in the rebuilt node'
                                % (c, meth, norm(a), i + 1, params[i], c, params[i], other[0]), where(mod, call), witness='eax.copy() != eax (is_reg and is_term swapped)')
    for k in call.keywords:
        if k.arg in M.fields[c]:
            names = set(n.id for n in ast.walk(k.value) if isinstance(n, ast.Name)) | \
                set(n.attr for n in ast.walk(k.value) if isinstance(n, ast.Attribute))
            if k.arg not in names:
                R.violation('%s.%s' % (c, meth), '%s.%s:%s=%s' % (c, meth, k.arg, norm(k.value)),
                            '%s.%s passes %s=%s: field %s is not carried over' % (c, meth, k.arg, norm(k.value), k.arg),
                            where(mod, call))


MUTANTS = [
    ('id-copy-positional-swap', 'miasmx/expression/expression.py', "        return ExprId(self.name, size=self.size, is_term=self.is_term, is_reg=self.is_reg)", "        return ExprId(self.name, self.size, self.is_reg, self.is_term)", 'C15.D2'),
    ('mem-copy-drops-term', 'miasmx/expression/expression.py', "        m.is_term = self.is_term\n", "", 'C15.D2'),
    ('int-eq-no-width', 'miasmx/expression/expression.py', "        return self.arg == a.arg and self.arg.size == a.arg.size", "        return self.arg == a.arg", 'C15.D1'),
    ('op-eq-zip', 'miasmx/expression/expression.py', "        if len(self.args) != len(a.args):\n            return False\n        for i, x in enumerate(self.args):\n            if not x == a.args[i]:\n                return False\n        return True\n    def __hash__(self):\n        h = hash(self.op)",
     "        for x, y in zip(self.args, a.args):\n            if not x == y:\n                return False\n        return True\n    def __hash__(self):\n        h = hash(self.op)", 'C15.D1'),
    ('slice-eq-stop', 'miasmx/expression/expression.py',
     'return self.arg == a.arg and self.start == a.start and self.stop == a.stop',
     'return self.arg == a.arg and self.start == a.start', 'C15.D1'),
    ('mem-copy-segm', 'miasmx/expression/expression.py',
     'm = ExprMem(arg, size = self.size, segm = segm)', 'm = ExprMem(arg, size = self.size, segm = None)', 'C15.D2'),
    ('cond-visit-skip', 'miasmx/expression/expression.py',
     '        src2 = self.src2.visit(cb)\n', '        src2 = self.src2\n', 'C15.D2'),
    ('id-hash-size', 'miasmx/expression/expression.py',
     '        return hash(self.name)\n', '        return hash(self.name)^hash(self.is_term)\n', 'C15.D1'),
    ('slice-unwrapped-visit', 'miasmx/expression/expression.py',
     '        return ExprSlice(arg, self.start, self.stop)\n    visit = visit_chk(visit)\n',
     '        return ExprSlice(arg, self.start, self.stop)\n', 'C15.D2'),
    ('int-copy-self', 'miasmx/expression/expression.py',
     '        return ExprInt(self.arg)\n', '        return self\n', 'C15.D2'),
    ('simp-sort-unguarded', 'miasmx/expression/expression_helper.py',
     '        if op in op_assoc:\n            args = canonize_expr_list(args)\n',
     '        args = canonize_expr_list(args)\n', 'C15.D4'),
    ('assoc-sub', 'miasmx/expression/expression.py',
     "op_assoc = ['+', '*', '^', '&', '|']", "op_assoc = ['+', '*', '^', '&', '|', '-']", 'C15.D4'),
    ('op-eq-noop', 'miasmx/expression/expression.py',
     '        if self.op !=a.op:\n            return False\n', '', 'C15.D1'),
    ('mem-eq-cross', 'miasmx/expression/expression.py',
     'return self.arg == a.arg and self.size == a.size and self.segm == a.segm',
     'return self.arg == a.arg and self.size == a.size and self.segm == self.segm', 'C15.D1'),
    ('replace-noop', 'miasmx/expression/expression.py',
     '            if e in dct:\n                return dct[e]\n            return e\n',
     '            return e\n', 'C15.D8'),
    ('mem-visit-early-self', 'miasmx/expression/expression.py',
     '        segm = self.segm\n        if isinstance(segm, Expr):\n            segm = self.segm.visit(cb)\n        else:\n            segm = None\n        arg = self.arg.visit(cb)\n        if segm == self.segm and arg == self.arg:\n            return self\n',
     '        arg = self.arg.visit(cb)\n        if arg == self.arg:\n            return self\n        segm = self.segm\n        if isinstance(segm, Expr):\n            segm = segm.visit(cb)\n        else:\n            segm = None\n', 'C15.D2'),
    ('cond-visit-nocompare-src2', 'miasmx/expression/expression.py',
     '        if cond == self.cond and \\\n                src1 == self.src1 and \\\n                src2 == self.src2:\n', '        if cond == self.cond and \\\n                src1 == self.src1:\n', 'C15.D2'),
    ('compose-copy-shallow', 'miasmx/expression/expression.py',
     '        args = [(a[0].copy(), a[1], a[2]) for a in self.args]\n', '        args = [(a[0], a[1], a[2]) for a in self.args]\n', 'C15.D2'),
    ('replace-chained', 'miasmx/expression/expression.py', "        e = self.visit(lambda e:my_replace(e, marks))\n        return e.visit(lambda e:my_replace(e, values))", "        return self.visit(lambda e:my_replace(e, dct))", 'C15.D3'),
    ('replace-marks-are-values', 'miasmx/expression/expression.py', "            marks[k], values[m] = m, dct[k]", "            marks[k], values[m] = dct[k], dct[k]", 'C15.D3'),
]
