"""C09 -- Intel and AT&T renderings agree: the AT&T mnemonic tables accept every mnemonic/operand-size form the
decoder can produce, and the AT&T mnemonic maps back to the same instruction."""
import ast
import copy

from ..core import AnalysisError, where, norm
from ..archinterp import arch_interp
from ..liftforms import LifterModel
from ..lifter import LiftError, LiftUnknown


def printed_name(X, inst):
    E, afs = X.env, X.afs
    name = inst.name
    if inst.modifs.get(E['mmx']):
        p = E['mmx_prefixes'].index(inst.prefix[0]) if inst.prefix else 0
        name = X.mmx_set_suffix(name, p)
        ops = inst.operands
        if name in ('movlps', 'movhps') and len(ops) >= 2 and ops[0].get(afs.ad) is False and ops[1].get(afs.ad) is False:
            name = {'movlps': 'movhlps', 'movhps': 'movlhps'}[name]
    return name


def size_sig(X, ops):
    afs = X.afs
    out = []
    for a in ops:
        out.append('%s%s' % ('m' if a.get(afs.ad) else ('i' if afs.imm in a else 'r'), a.get(afs.size)))
    return ','.join(out)


def run(ctx, report):
    thorough = ctx.tier == 'thorough'
    X, I = arch_interp(ctx)
    arch = X.arch
    E = X.env
    L = LifterModel(ctx, opmodes=('u32', 'u16'), rich=True)
    to_att = I.g.get('mnemo_to_att')
    from_att = I.g.get('mnemo_from_att')
    if to_att is None or from_att is None:
        raise AnalysisError('mnemo_to_att / mnemo_from_att not found')
    report.explanation = (
        'mnemo_to_att and mnemo_from_att are table-driven functions of (mnemonic, operand sizes); they are partially evaluated from their source on '
        'every printed mnemonic x operand-dictionary form the decoder can produce (forms from the statically expanded opcode table, mandatory-prefix '
        'suffix scheme and special renames applied). D1/D1b: mnemo_to_att reaches a return for every form (no final "Mnemonic unknown", no unbound size). '
        'D2: mnemo_from_att applied to the AT&T mnemonic returns the original mnemonic (unique decodability of name+suffix under the dispatch order). '
        'D6: every MMX/SSE form keeps its Intel mnemonic in AT&T syntax (GNU as convention), so a homonymous string instruction (movsd/cmpsd) cannot capture it. D3: every suffix->size table is injective. D5: the AT&T operand grammar, which reads back what the AT&T printer wrote, keeps both coefficients when base and index are the same register.')
    report.not_decided = ('operand order reversal and memory-operand layout for concrete operands, the fsub/fdiv reversal on parsed operands, acceptance by GNU as '
                          '(no assembler in the sandbox; an external tool\'s grammar is not a property of this source).')
    R1 = report.rule('C09.D1', 'every decodable mnemonic/operand-size form has an AT&T mnemonic', floor=700)
    R2 = report.rule('C09.D2', 'the AT&T mnemonic maps back to the same instruction', floor=500)
    R6 = report.rule('C09.D6', 'MMX/SSE instructions keep their mnemonic in AT&T syntax', floor=500)
    import os as _os
    from ..core import VERIF as _V
    irregular = {}
    with open(_os.path.join(_V, 'ref', 'att_names.ref')) as f_:
        for line in f_:
            line = line.split('#')[0].split()
            if len(line) == 2:
                irregular.setdefault(line[1], set()).add(line[0])
    R4i = report.rule('C09.D4', 'irregular AT&T spellings agree with GNU as', floor=10)
    seen = set()
    n_invalid = 0
    sse_names = set(printed_name(X, i_) for i_ in L.instances if i_.modifs.get(E['mmx']))
    for inst in L.instances:
        name = printed_name(X, inst)
        if 'INVALID' in name or 'REPZ' in name or 'REPNZ' in name:
            n_invalid += 1
            continue
        sig = size_sig(X, inst.operands)
        k = (name, sig)
        if k in seen:
            continue
        seen.add(k)
        iid = '%s(%s)' % (name, sig)
        args = [dict(a) for a in inst.operands]
        try:
            r = I.run(to_att, [name, args, 'att_syntax'])
        except LiftUnknown as e:
            raise AnalysisError('mnemo_to_att outside the modelled subset on %s: %s' % (iid, e))
        dec, res = r[0]
        if isinstance(res, LiftError):
            unknown = 'unknown' in res.msg
            t_ = E['att_mnemo_table']
            partly = any(name in t_[k] for k in ('suffix_one_ptr', 'suffix_one_iflt', 'suffix_one_flt')) or name in ('movsx', 'movzx')
            key = 'att:%s:%s' % (name, ('unknown' + (':' + sig if partly else '')) if unknown else '%s:%s' % (res.exc, sig))
            R1.violation(iid, key, ('AT&T rendering of %s has no mnemonic (falls through every table of mnemo_to_att: "Mnemonic unknown")' % name) if unknown
                         else 'AT&T rendering of %s with operands (%s) raises %s: %s' % (name, sig, res.exc, res.msg[:80]),
                         where(arch, to_att.node), witness='row %s' % inst.row.key())
            continue
        if res is None or not isinstance(res, str):
            R1.violation(iid, 'att:%s:none:%s' % (name, sig), 'mnemo_to_att returns %r for %s (%s): the operand size matches no suffix and no later alternative'
                         % (res, name, sig), where(arch, to_att.node), witness='row %s' % inst.row.key())
            continue
        R1.ok(iid, sample='%s (%s) -> %s' % (name, sig, res))
        if name in irregular:
            # an instruction GNU as spells differently (ref/att_names.ref) must be rendered under one of those spellings
            if res in irregular[name] or (name in ('movsd', 'cmpsd') and inst.modifs.get(E['mmx'])):
                R4i.ok(iid + ':spelling', sample='%s is %s in AT&T syntax' % (name, res))
            else:
                R4i.violation(iid + ':spelling', 'att-spelling:%s:%s' % (name, res), 'the instruction %s (%s) is rendered as %r in AT&T syntax; GNU as spells it %s' %
                              (name, sig, res, ' / '.join(sorted(irregular[name]))), where(arch, to_att.node), witness="dis(ea 02 00 00 00 01 00) in AT&T syntax prints 'jmpf 1, $2'")
        if inst.modifs.get(E['mmx']):
            # GNU as uses the Intel mnemonics for MMX/SSE instructions (only the integer<->float conversions take an optional l/q suffix)
            if res == name or (name.startswith('cvt') and res[:-1] == name and res[-1] in 'lq'):
                R6.ok(iid, sample='%s stays %s in AT&T syntax' % (name, res), nontrivial=(len(R6.nontrivial) < 700))
            else:
                R6.violation(iid, 'att-sse:%s:%s' % (name, res), 'the MMX/SSE instruction %s with operands (%s) is rendered as %r in AT&T syntax; GNU as names it %s (a suffixed name is another instruction)'
                             % (name, sig, res, name), where(arch, to_att.node), witness='f2 0f 10 00 renders movsl (%eax), %xmm0' if name == 'movsd' else None)
        elif name in sse_names:
            # an integer instruction whose Intel name is also an SSE mnemonic (string movsd/cmpsd): in AT&T syntax the bare name denotes the SSE one
            if res == name:
                R6.violation(iid, 'att-homonym:%s' % name, 'the string instruction %s (%s) is rendered as %r in AT&T syntax, which GNU as reads as the SSE instruction of that name '
                             '(the string form is %sl)' % (name, sig, res, name[:4]), where(arch, to_att.node), witness="dis(a7) in AT&T syntax prints cmpsd")
            else:
                R6.ok(iid, sample='string %s is %s in AT&T syntax' % (name, res))
        args2 = [dict(a) for a in inst.operands]
        try:
            r2 = I.run(from_att, [[], res, args2, 'att_syntax'])
        except LiftUnknown as e:
            raise AnalysisError('mnemo_from_att outside the modelled subset on %s: %s' % (res, e))
        dec2, back = r2[0]
        if isinstance(back, LiftError):
            R2.violation(iid, 'att-back:%s:%s' % (res, back.exc), 'mnemo_from_att rejects %r, the AT&T mnemonic of %s (%s): %s' % (res, name, sig, back.msg[:70]),
                         where(arch, from_att.node))
            continue
        n2 = back[1] if isinstance(back, tuple) and len(back) == 2 else back
        afs = X.afs
        size_bad = None
        for a_new, a_old in zip(args2, inst.operands):
            if a_old.get(afs.ad) and a_old.get(afs.size) is not True and a_new.get(afs.size) != a_old.get(afs.size):
                size_bad = (a_old.get(afs.size), a_new.get(afs.size))
        # the size letters of movs??/movz?? are the only source of the memory operand's size (elsewhere the assembler
        # re-derives it from the register operand, so a difference there is not observable)
        if n2 == name and size_bad and name in ('movsx', 'movzx'):
            R2.violation(iid, 'att-back-size:%s:%s' % (name, res), 'the AT&T mnemonic %r of %s (%s) gives its memory operand size %s when read back (was %s)'
                         % (res, name, sig, size_bad[1], size_bad[0]), where(arch, from_att.node))
        elif n2 == name:
            R2.ok(iid, sample='%s -> %s -> %s' % (name, res, n2))
        else:
            R2.violation(iid, 'att-back:%s:%s->%s' % (name, res, n2), 'the AT&T mnemonic %r of %s (%s) is read back as %r' % (res, name, sig, n2), where(arch, from_att.node))
    report.analysed['forms'] = len(seen)
    report.analysed['forms_with_INVALID_prefix_name_skipped (reported by C10.D2)'] = n_invalid

    R3 = report.rule('C09.D3', 'suffix -> size tables are injective', floor=3)
    t = E['att_mnemo_table']
    for tname in ('suffix_one_ptr', 'suffix_one_iflt', 'suffix_one_flt'):
        d = t[tname][0]
        vals = list(d.values())
        if len(set(vals)) == len(vals) and len(set(d.keys())) == len(d):
            R3.ok(tname, sample='%s: %s' % (tname, d))
        else:
            R3.violation(tname, 'suffix-table:%s' % tname, 'two suffix letters of %s denote the same size: %s' % (tname, d), where(arch, arch.assigns['att_mnemo_table'][-1]))


    R4 = R4i
    import os
    from ..core import VERIF
    refnames = {}
    with open(os.path.join(VERIF, 'ref', 'att_names.ref')) as f:
        for line in f:
            line = line.split('#')[0].split()
            if len(line) == 2:
                refnames[line[0]] = line[1]
    for a, i in sorted(t['correspondance'].items()):
        inst = 'correspondance[%s]' % a
        if a not in refnames:
            R4.ok(inst + ':unknown-to-ref', nontrivial=False)
            R4.note('%s -> %s is not in ref/att_names.ref (not judged)' % (a, i))
        elif refnames[a] == i:
            R4.ok(inst, sample='%s = %s' % (a, i))
        else:
            R4.violation(inst, 'att-name:%s:%s' % (a, i), 'AT&T mnemonic %r is mapped to %r; GNU as defines it as %r' % (a, i, refnames[a]),
                         where(arch, arch.assigns['att_mnemo_table'][-1]))

    R5 = report.rule('C09.D5', 'the AT&T operand grammar accumulates register coefficients (base == index)', floor=1)
    from .c02 import accumulate_rule
    accumulate_rule(R5, ctx.mod('ia32_att'), ctx.mod('parse_ad'))

    R7 = report.rule('C09.D7', 'string instructions: a segment override is printed and assembled back, whatever the order the operands are written in', floor=12)
    from .c03 import string_trip_rule
    string_trip_rule(ctx, R7, X)

    # ---------------------------------------------------------------- D8 operand order
    R8 = report.rule('C09.D8', 'AT&T syntax reverses the operands, except for the instructions GNU as writes in Intel order (bound, enter); printer and parser agree', floor=40)
    from ..consteval import Evaluator, NotConst, Obj, Native
    from ..srcmodel import walk_no_nested
    from ..shapes import u
    SAME_ORDER = ('bound', 'enter')           # GNU as (binutils 2.40): `bound %eax,(%ebx)`, `enter $8,$0`
    strm = arch.method('x86_mn', '__str__')
    att_if = [n for n in strm.body if isinstance(n, ast.If) and u(n.test).startswith("asm_format.startswith('att_syntax')")
              and any(isinstance(x, ast.Call) and u(x.func) == 'args.reverse' for x in ast.walk(n))]
    if len(att_if) != 1:
        raise AnalysisError('__str__: the AT&T branch that reverses the operands was not found (%d candidates)' % len(att_if))
    afs = X.afs
    two_op = sorted(set(i_.name for i_ in L.instances if len(i_.operands) == 2 and not i_.modifs.get(E['mmx']) and i_.name not in ('call', 'jmpf', 'callf')
                        and not i_.name.startswith('j')))
    if len(two_op) < 40 or not all(n_ in two_op for n_ in SAME_ORDER):
        raise AnalysisError('two-operand mnemonics of the decoder: %d found, %s expected among them' % (len(two_op), SAME_ORDER))
    for name in two_op:
        me, m_ = Obj('self'), Obj('m')
        m_.name = name
        me.m = m_
        me.arg = [{afs.ad: False, afs.size: afs.u32, 1: 1}, {afs.ad: False, afs.size: afs.u32, 2: 1}]
        scope = dict((k, v) for k, v in E.items() if isinstance(v, (str, int, bool, list, tuple, dict)) or v is None)
        for fname_, fnode_ in arch.funcs.items():
            scope.setdefault(fname_, fnode_)           # module-level helpers the branch may call
        scope.update({'self': me, 'args': ['A', 'B'], 'mnemo': [name], 'asm_format': 'att_syntax', 'x86_afs': afs,
                      'mnemo_to_att': Native(lambda n_, a_, f_: n_)})
        ev = Evaluator({})
        ev.env = scope
        from ..consteval import bind_simple_locals
        bind_simple_locals(ev, strm.body, scope, stop=att_if[0], skip=('args', 'mnemo'))
        try:
            ev.exec_stmts(att_if[0].body, scope)
        except NotConst as e:
            raise AnalysisError('__str__: the AT&T branch is outside the evaluable subset for %s: %s' % (name, e))
        got = [a_.lstrip('*') for a_ in scope['args']]
        want = ['A', 'B'] if name in SAME_ORDER else ['B', 'A']
        inst = 'print-order:%s' % name
        if got == want:
            R8.ok(inst, sample='%s a, b is printed %s %s' % (name, name, ', '.join(got).lower()), nontrivial=(name in SAME_ORDER or len(R8.nontrivial) < 60))
        else:
            R8.violation(inst, 'att-order:print:%s' % name, 'the AT&T rendering of `%s a, b` writes the operands in the order %s; GNU as reads %s %s'
                         % (name, ', '.join(got).lower(), name, ', '.join(want).lower()), where(arch, att_if[0]),
                         witness="dis(62 03) in AT&T syntax printed 'bound (%ebx), %eax'; GNU as: bound %eax,(%ebx)" if name == 'bound' else None)
        # parser side: parse_args hands the operands over reversed (Intel order); mnemo_from_att must undo that for the same instructions only
        a1, a2 = {afs.ad: False, afs.size: afs.u32, 1: 1}, {afs.ad: False, afs.size: afs.u32, 2: 1}
        lst = [a1, a2]
        try:
            r_ = I.run(from_att, [[], name, lst, 'att_syntax'])
        except LiftUnknown as e:
            raise AnalysisError('mnemo_from_att outside the modelled subset on %s: %s' % (name, e))
        if any(isinstance(res_, LiftError) for _, res_ in r_):
            continue                # no AT&T spelling under the bare Intel name (suffix needed): D1/D2 judge it
        swapped = (1 in lst[0]) is False
        inst = 'parse-order:%s' % name
        if name in ('test', 'xchg'):
            continue                # symmetric instructions: the parser may exchange the operands
        if swapped == (name in SAME_ORDER):
            R8.ok(inst, sample='%s: the parser %s the operand list' % (name, 'reverses' if swapped else 'keeps'), nontrivial=(name in SAME_ORDER or len(R8.nontrivial) < 60))
        else:
            R8.violation(inst, 'att-order:parse:%s' % name, 'mnemo_from_att %s the operands of %s, which GNU as writes in %s order'
                         % ('reverses' if swapped else 'does not reverse', name, 'Intel' if name in SAME_ORDER else 'reversed'), where(arch, from_att.node))


    far_order_rule(ctx, R8)

    # ---------------------------------------------------------------- D9 a memory operand rendered under a suffix-less AT&T mnemonic assembles back
    R16 = report.rule('C09.D16', 'branch operands in AT&T syntax: the marks the grammar leaves on `address` and `* address` (actions evaluated) and what mnemo_from_att makes of them '
                      '(evaluated on call / jmp / calll / jmpl / jcc): a plain address is the destination, a starred address stays a 32-bit memory operand', floor=16)
    branch_target_rule(ctx, R16)
    R9 = report.rule('C09.D9', 'memory forms whose AT&T mnemonic carries no size suffix: the size mnemo_from_att leaves on the operand passes the size check of the /digit row', floor=30)
    att_shapes = att_memory_operand_shapes(ctx)
    ac = arch.method('x86_mn', 'asm_candidates')
    d_asm = X.digit_branch(ac)
    if d_asm is None:
        raise AnalysisError('asm_candidates: the /digit branch was not found')
    # statements of the /digit branch that compute `size` from the operand `a`, up to the check_size_modif test
    size_stmts, chk = [], None
    for st in d_asm.body:
        if isinstance(st, ast.If) and 'check_size_modif' in u(st.test):
            chk = st
            break
        if isinstance(st, ast.If) and u(st.test) in ('a[x86_afs.ad]',):
            size_stmts.append(st)
    if chk is None or not size_stmts:
        raise AnalysisError('asm_candidates: size computation of the /digit branch was not found')
    csm = arch.method('x86allmncs', 'check_size_modif')
    mem16 = set(E.get('mnemo_mem16', ()))
    pre9 = []
    for st in ac.body:
        if isinstance(st, ast.Assign) and u(st.targets[0]) == 'can_be_16_32':
            break
        if isinstance(st, ast.If) and 'args_eval' in u(st.test) and 'candidate' in u(st) and any(isinstance(x, ast.Assign) and isinstance(x.targets[0], ast.Subscript) for x in ast.walk(st)):
            pre9.append(st)
    rows_by_name = {}
    seen_rv = set()
    for path_, c_ in sorted(X.cells.items()):
        kk_ = (c_.row.idx, tuple(sorted((str(a_), str(b_)) for a_, b_ in c_.modifs.items() if b_ is not None)))
        if kk_ in seen_rv:
            continue
        seen_rv.add(kk_)
        rows_by_name.setdefault(c_.row.name, []).append(c_)
    lg9 = Obj('log')
    lg9.debug = Native(lambda *a: None)
    lg9.info = Native(lambda *a: None)
    done9 = set()
    for inst in L.instances:
        if not isinstance(inst.row.afs, int) or inst.modifs.get(E['mmx']) or len(inst.operands) != 1 or not inst.operands[0].get(afs.ad) or inst.opmode != 'u32':
            continue
        name = printed_name(X, inst)
        if name in ('call', 'callf', 'jmp', 'jmpf'):
            continue            # rendered with a star: `*(%eax)` is parsed with the operand size
        k9 = (name, inst.row.idx, inst.opmode)
        if k9 in done9:
            continue
        done9.add(k9)
        args = [dict(a) for a in inst.operands]
        try:
            r = I.run(to_att, [name, args, 'att_syntax'])
        except LiftUnknown as e:
            raise AnalysisError('mnemo_to_att outside the modelled subset on %s: %s' % (name, e))
        res = r[0][1]
        if not isinstance(res, str):
            continue            # D1 reports it
        # what the AT&T operand parser hands over for `(%eax)`: an address without size; for `%fs:(%eax)`: the override, and the placeholder size u32
        for shape9, op in (('', dict(att_shapes['plain'])), ('-seg', dict(att_shapes['seg']))):
            lst = [op]
            try:
                r2 = I.run(from_att, [[], res, lst, 'att_syntax'])
            except LiftUnknown as e:
                raise AnalysisError('mnemo_from_att outside the modelled subset on %s: %s' % (res, e))
            if isinstance(r2[0][1], LiftError):
                continue            # D2 reports it
            back = r2[0][1]
            n2 = back[1] if isinstance(back, tuple) and len(back) == 2 else back
            # normalize_args (evaluated) may give the operand a size (lea, prefetch, cmpxchg8b)
            from .. import stringops as SO9
            lst2, _ = SO9.normalized(X, n2, lst)
            if len(lst2) != 1:
                continue
            a9 = dict(lst2[0])
            # statements of asm_candidates that complete an operand before the operand-size detection (e.g. an unsized memory operand takes the
            # size of the rows when they agree): evaluated with the rows of the mnemonic as candidates
            if pre9:
                cands = []
                for c_ in rows_by_name.get(n2, []):
                    co = Obj('c')
                    mdc = dict((E[k_], None) for k_ in ('w8', 'se', 'sw', 'ww', 'sg', 'dr', 'cr', 'ft', 'w64', 'sd', 'wd', 'bkf', 'spf', 'dtf', 'mmx') if k_ in E)
                    mdc.update(c_.modifs)
                    co.name, co.modifs, co.afs, co.rm, co.opc = c_.row.name, mdc, c_.row.afs, list(c_.row.rm), list(c_.opc)
                    cands.append(co)
                xdb = Obj('x86mndb')
                xdb.__dict__['_methods'] = dict((m_.name, m_) for m_ in arch.classes['x86allmncs'].body if isinstance(m_, ast.FunctionDef))
                scope0 = dict((k_, v_) for k_, v_ in E.items() if isinstance(v_, (str, int, bool, list, tuple, dict)) or v_ is None)
                scope0.update({'args_eval': [a9], 'candidate': cands, 'x86mndb': xdb, 'x86_afs': afs, 'name': n2, 'log': lg9, 'prefix': []})
                ev0 = Evaluator({})
                ev0.env = scope0
                try:
                    ev0.exec_stmts(pre9, scope0)
                except NotConst as e:
                    raise AnalysisError('asm_candidates: operand completion before the size detection is not evaluable for %s: %s' % (n2, e))
            # asm_candidates normalises the 16-bit memory operand of the mnemo_mem16 instructions to u32
            if a9.get(afs.ad) == afs.u16 and n2 in mem16:
                a9[afs.ad] = a9[afs.size] = afs.u32
            cobj = Obj('c')
            md9 = dict((E[k_], None) for k_ in ('w8', 'se', 'sw', 'ww', 'sg', 'dr', 'cr', 'ft', 'w64', 'sd', 'wd', 'bkf', 'spf', 'dtf', 'mmx') if k_ in E)
            md9.update(inst.modifs)
            cobj.name, cobj.modifs = inst.row.name, md9
            scope = dict((k_, v_) for k_, v_ in E.items() if isinstance(v_, (str, int, bool, list, tuple, dict)) or v_ is None)
            scope.update({'a': a9, 'c': cobj, 'x86_afs': afs, 'log': lg9})
            ev9 = Evaluator({})
            ev9.env = scope
            try:
                ev9.exec_stmts(size_stmts, scope)
                ok9 = ev9.call_user(csm, [Obj('x86mndb'), scope.get('size'), md9])
            except NotConst as e:
                raise AnalysisError('asm_candidates /digit size computation not evaluable for %s: %s' % (name, e))
            iid = 'att-unsized%s:%s:%s:%s' % (shape9, name, inst.row.key(), inst.opmode)
            if ok9:
                R9.ok(iid, sample='%s %s(%%eax) -> %s with operand size %s: accepted by %s' % (res, '%fs:' if shape9 else '', n2, scope.get('size'), inst.row.key()), nontrivial=(len(R9.nontrivial) < 80))
            else:
                R9.violation(iid, 'att-unsized%s:%s' % (shape9, name), ('the memory form of %s is rendered `%s ' + ('%%fs:' if shape9 else '') + '(%%eax)` in AT&T syntax; read back, the operand has size %r, '
                             'which the size check of row %s refuses: the rendering has no candidate') % (name, res, scope.get('size'), inst.row.key()), where(arch, from_att.node), witness="asm_att('sgdt (%eax)') == []")


    # ---------------------------------------------------------------- D10 the size mark of an immediate survives arg_set_numpy_imm
    R10 = report.rule('C09.D10', 'AT&T immediates are typed with the operand size the mnemonic suffix or the other operands give (arg_set_numpy_imm evaluated)', floor=5)
    asn = arch.method('x86_mn', 'arg_set_numpy_imm')

    cases10 = [('pushw $0xffff (size mark u16 from the suffix)', [{afs.imm: 0xffff, afs.size: afs.u16, afs.ad: False}], afs.u16),
               ('pushl $5', [{afs.imm: 5, afs.size: afs.u32, afs.ad: False}], afs.u32),
               ('addw $-1, %ax', [{0: 1, afs.size: afs.u16, afs.ad: False}, {afs.imm: -1, afs.size: afs.u32, afs.ad: False}], afs.u16),
               ('addb $1, %al', [{0: 1, afs.size: afs.u08, afs.ad: False}, {afs.imm: 1, afs.size: afs.u32, afs.ad: False}], afs.u08),
               ('movl $1, %eax', [{0: 1, afs.size: afs.u32, afs.ad: False}, {afs.imm: 1, afs.size: afs.u32, afs.ad: False}], afs.u32)]
    for label, args10, want in cases10:
        try:
            a10 = numpy_imm_eval(ctx, args10)
        except NotConst as e:
            raise AnalysisError('arg_set_numpy_imm is outside the evaluable subset on %s: %s' % (label, e))
        imm_ = [x_[afs.imm] for x_ in a10 if afs.imm in x_][0]
        inst = 'imm-type:%s' % label
        if isinstance(imm_, tuple) and imm_[0] == 'TYPED' and imm_[1] == want:
            R10.ok(inst, sample='%s: immediate typed %s' % (label, want))
        else:
            R10.violation(inst, 'imm-type:%s' % label.split()[0], '%s: the immediate is typed %s, the operand size is %s: encodings of that size (sign-extended imm8) are not offered'
                          % (label, imm_[1] if isinstance(imm_, tuple) else type(imm_).__name__, want), where(arch, asn), witness="asm_att('pushw $65535') lacks 66 6a ff")

    # ---------------------------------------------------------------- D12 the ds: override the Intel rendering prints is read back (shared with C03.D3)
    R12 = report.rule('C09.D12', 'the Intel rendering `SIZE PTR seg:[..]` is read back with its override whenever the default segment of the address is not that segment '
                      '(ds: on every ebp / esp based address, also when base and index are the same register): the grammar action evaluated on segment x address shape', floor=40)
    from .c03 import ptrformula_rule
    ptrformula_rule(ctx, R12, X)

    # ---------------------------------------------------------------- D13 the segment override of a memory operand is rendered, whichever segment it is
    R13 = report.rule('C09.D13', 'dict_to_ad, evaluated on memory operands with every segment override (es is number 0) x address shape x both syntaxes, renders the override and the '
                      'registers of the address (shared as C01.D12)', floor=40)
    segment_render_rule(ctx, R13)

    # ---------------------------------------------------------------- D14 boundary displacements and immediates are offered back (shared with C02.D2 / C03.D6)
    R14 = report.rule('C09.D14', 'a rendering whose displacement or immediate lies on the edge of the one-byte range assembles back to the one-byte form it was decoded from '
                      '(range table of check_imm_size; ad_to_generic evaluated on boundary displacements)', floor=20)
    from .c02 import range_rule
    range_rule(ctx, R14)

    # ---------------------------------------------------------------- D15 both renderings determine the immediate (shared with C01.D13 / C03.D12)
    R15 = report.rule('C09.D15', 'x86_mn.__str__ evaluated as a whole, in Intel and in AT&T syntax, on every decoder form with an immediate: immediates that differ in a low bit, in '
                      'bits 3-7 or in the top bit give different texts (a rendering that folds the immediate into the mnemonic or masks it cannot yield the original encoding back)', floor=150)
    from .c01 import render_immediate_rule
    render_immediate_rule(ctx, R15, sigil=True)

    # ---------------------------------------------------------------- D11 both renderings come from one object
    R11 = report.rule('C09.D11', 'rendering does not change the instruction: the Intel and the AT&T rendering of one decoded object describe the same instruction (shared with C12.D11)', floor=4)
    from .c12 import readonly_methods_rule
    readonly_methods_rule(ctx, R11)


def segment_render_rule(ctx, R):
    from ..x86table import model as x86model
    from ..consteval import Evaluator, Obj, Native, NotConst, PyRaise
    X = x86model(ctx)
    arch, afs, E = X.arch, X.afs, X.env
    d2a = arch.func('dict_to_ad')
    lg = Obj('log')
    for k_ in ('debug', 'error', 'info', 'warning'):
        setattr(lg, k_, Native(lambda *a: None))
    scope = dict((k, v) for k, v in E.items() if isinstance(v, (str, int, bool, list, tuple, dict)) or v is None)
    scope.update({'x86_afs': afs, 'log': lg})
    for fname_, fnode_ in arch.funcs.items():
        scope.setdefault(fname_, fnode_)
    segs = list(afs.reg_sg)
    regs32 = list(afs.reg_list32)
    shapes = [('[eax]', {0: 1}), ('[ebx+esi*4]', {3: 1, 6: 4}), ('[ebp+8]', {5: 1, afs.imm: 8}), ('[disp]', {afs.imm: 0x1234}), ('[edi]', {7: 1})]
    for fmt in ('intel_syntax noprefix', 'att_syntax'):
        for si, sname in enumerate(segs[:6]):
            for label, shape in shapes:
                d = dict(shape)
                d.update({afs.ad: afs.u32, afs.size: afs.u32, afs.segm: si})
                inst = 'segment-render:%s:%s:%s' % (fmt.split('_')[0], sname, label)
                try:
                    out = Evaluator(scope).call_user(d2a, [d, None, afs.u32, afs.u32, fmt])
                except PyRaise as e:
                    R.violation(inst, 'segment-render:%s:raises:%s' % (sname, e.exc_name), 'dict_to_ad raises %s on %s %s:%s' % (e.exc_name, fmt, sname, label), where(arch, d2a))
                    continue
                except NotConst as e:
                    raise AnalysisError('dict_to_ad is outside the evaluable subset on %s:%s (%s): %s' % (sname, label, fmt, e))
                txt = out if isinstance(out, str) else repr(out)
                want_regs = [regs32[k_] for k_ in shape if isinstance(k_, int)]
                if (sname + ':') not in txt:
                    R.violation(inst, 'segment-render:%s:dropped' % sname, 'the memory operand %s:%s is rendered `%s` (%s): the %s override is not shown, and the rendering assembles '
                                'without its prefix' % (sname, label, txt, fmt, sname), where(arch, d2a), witness='26 8b 00 (mov eax, es:[eax])')
                elif not all(r_ in txt for r_ in want_regs):
                    R.violation(inst, 'segment-render:%s:registers' % label, 'the memory operand %s:%s is rendered `%s` (%s): an address register is missing' % (sname, label, txt, fmt), where(arch, d2a))
                else:
                    R.ok(inst, sample='%s:%s -> %s' % (sname, label, txt), nontrivial=(si in (0, 3) or label == '[eax]'))


def liberal_swap_rule(ctx, R):
    """`xchgl (%ebx), %eax` / `testb 4(%ebx), %dl`: the AT&T line with the memory operand written first denotes the same instruction as `xchgl %eax, (%ebx)`; the rows take the
    memory operand first, so mnemo_from_att must hand the caller's list back with the memory operand first (the caller keeps using that list)."""
    from ..archinterp import arch_interp
    from ..lifter import LiftUnknown, LiftError
    X, I = arch_interp(ctx)
    arch, afs = X.arch, X.afs
    from_att = I.g.get('mnemo_from_att')
    if from_att is None:
        raise AnalysisError('ia32_arch.mnemo_from_att not found')
    for att_name, size in (('xchgl', afs.u32), ('xchgw', afs.u16), ('xchgb', afs.u08), ('testl', afs.u32), ('testb', afs.u08)):
        for order in ('reg, mem', 'mem, reg'):
            reg = {afs.ad: False, afs.size: size, 0: 1, 'txt': 'eax'}
            mem = {afs.ad: True, afs.size: True, 3: 1, 'txt': 'ebx'}
            lst = [reg, mem] if order == 'reg, mem' else [mem, reg]
            try:
                r_ = I.run(from_att, [[], att_name, lst, 'att_syntax'])
            except LiftUnknown as e:
                raise AnalysisError('mnemo_from_att outside the modelled subset on %s: %s' % (att_name, e))
            inst = 'liberal-swap:%s:%s' % (att_name, order)
            if any(isinstance(res_, LiftError) for _, res_ in r_):
                R.violation(inst, 'liberal-swap:%s:rejected' % att_name, 'mnemo_from_att rejects %s with operands (%s)' % (att_name, order), where(arch, from_att.node))
            elif len(lst) == 2 and lst[0].get(afs.ad) not in (False, None):
                R.ok(inst, sample='%s (%s): the list handed back has the memory operand first' % (att_name, order))
            else:
                R.violation(inst, 'liberal-swap:%s' % att_name[:4], '%s with the operands (%s) as the AT&T parser delivers them: the operand list the caller goes on with still has the register '
                            'first, and no row of %s takes a memory operand in second place -- the line gets no candidate while its Intel transliteration does' % (att_name, order, att_name[:4]),
                            where(arch, from_att.node), witness="asm_att('xchgl (%ebx), %eax') == []")


def branch_target_rule(ctx, R):
    """`call foo` / `jmp 2` / `jne .L1` name the destination itself, `call *(%eax)` / `jmp *8(%ebx)` a memory cell that holds it.  The two grammar actions of ia32_att that build
    the operand (`argument : address`, `argument : TIMES address`) are evaluated to obtain the marks the parser really leaves on it; mnemo_from_att is then evaluated on every branch
    mnemonic with each kind of operand: the plain address becomes an immediate, the starred address stays a 32-bit memory operand, a starred register stays a register."""
    from ..archinterp import arch_interp
    from ..lifter import LiftUnknown, LiftError
    from ..consteval import Evaluator as _Ev, NotConst as _NC, PyRaise as _PR
    X, I = arch_interp(ctx)
    arch, afs = X.arch, X.afs
    att = ctx.mod('ia32_att')
    from_att = I.g.get('mnemo_from_att')
    if from_att is None:
        raise AnalysisError('ia32_arch.mnemo_from_att not found')
    plain_fn, star_fn = None, None
    for fname, fn in att.funcs.items():
        doc = ast.get_docstring(fn) or ''
        prod = ' '.join(doc.split())
        if prod == 'argument : address':
            plain_fn = fn
        elif prod == 'argument : TIMES address':
            star_fn = fn
    if plain_fn is None or star_fn is None:
        raise AnalysisError('ia32_att: the productions `argument : address` and `argument : TIMES address` were not both found')

    def operand(fn, star):
        addr = {3: 1, afs.imm: 8, afs.size: True, afs.ad: True} if star is not None else {afs.imm: 2, afs.size: True, afs.ad: True}
        t = [None, '*', addr] if fn is star_fn else [None, addr]
        try:
            _Ev({'x86_afs': afs}).call_user(fn, [t])
        except _PR as e:
            raise AnalysisError('ia32_att.%s raises %s on a synthetic parse' % (fn.name, e.exc_name))
        except _NC as e:
            raise AnalysisError('ia32_att.%s is outside the evaluable subset: %s' % (fn.name, e))
        return t[0]
    cases = []
    for name in ('call', 'jmp', 'calll', 'jmpl'):
        if name != 'jmpl':          # (clang writes `jmpl *%eax` / `jmpl *(%eax)` only; a direct jump is `jmp`: the plain form of jmpl is not judged)
            cases.append((name, 'plain address (%s foo)' % name, lambda: operand(plain_fn, None), 'imm'))
        cases.append((name, 'starred address (%s *8(%%ebx))' % name, lambda: operand(star_fn, True), 'mem'))
        cases.append((name, 'starred register (%s *%%eax)' % name, lambda: {afs.ad: False, afs.size: afs.u32, 0: 1}, 'reg'))
    for name in ('jz', 'jne', 'jae', 'js', 'jecxz', 'loop', 'loope', 'loopne'):
        cases.append((name, 'plain address (%s .L1)' % name, lambda: operand(plain_fn, None), 'imm'))
    for name, label, mk, want in cases:
        op = mk()
        lst = [op]
        try:
            r_ = I.run(from_att, [[], name, lst, 'att_syntax'])
        except LiftUnknown as e:
            raise AnalysisError('mnemo_from_att outside the modelled subset on %s: %s' % (name, e))
        inst = 'branch-operand:%s:%s' % (name, want)
        if any(isinstance(res_, LiftError) for _, res_ in r_):
            R.violation(inst, 'branch-operand:%s:rejected' % name, 'mnemo_from_att rejects %s with a %s' % (name, label), where(arch, from_att.node))
            continue
        got_ad = lst[0].get(afs.ad) if lst and isinstance(lst[0], dict) else None
        if want == 'imm':
            good = got_ad in (False, None) and afs.imm in lst[0]
        elif want == 'mem':
            good = bool(got_ad) and lst[0].get(3) == 1
        else:
            good = got_ad in (False, None) and lst[0].get(0) == 1
        if good:
            R.ok(inst, sample='%s: %s' % (label, {'imm': 'the destination itself', 'mem': 'stays a memory operand', 'reg': 'stays a register'}[want]))
        else:
            R.violation(inst, 'branch-operand:%s:%s' % ('call-jmp' if name in ('call', 'jmp', 'calll', 'jmpl') else 'jcc', want),
                        '%s: after mnemo_from_att the operand is %s; it must %s' % (label, 'a memory operand' if got_ad else 'not a memory operand (ad = %r)' % (got_ad,),
                                                                                 {'imm': 'be the destination (an immediate)', 'mem': 'stay the memory cell that holds the destination (FF /2, FF /4)',
                                                                                  'reg': 'stay a register'}[want]), where(arch, from_att.node), witness="asm_att('call *(%eax)') must be ff 10")


def far_order_rule(ctx, R8):
    """shared with C02.D12"""
    from ..archinterp import arch_interp
    from ..lifter import LiftUnknown, LiftError
    X, I = arch_interp(ctx)
    arch, afs = X.arch, X.afs
    from_att = I.g.get('mnemo_from_att')
    if from_att is None:
        raise AnalysisError('ia32_arch.mnemo_from_att not found')
    # far jump / far call with two immediates: GNU as writes `ljmp $seg, $off`, i.e. the reverse of the Intel `jmpf off, seg` like every ordinary instruction;
    # parse_args has already put the operands back in Intel order, so mnemo_from_att must leave them alone
    for att_name in ('ljmp', 'lcall'):
        o1, o2 = {afs.ad: False, afs.size: afs.u32, afs.imm: 0x5678}, {afs.ad: False, afs.size: afs.u32, afs.imm: 0x1234}
        lst = [o1, o2]
        try:
            r_ = I.run(from_att, [[], att_name, lst, 'att_syntax'])
        except LiftUnknown as e:
            raise AnalysisError('mnemo_from_att outside the modelled subset on %s: %s' % (att_name, e))
        inst = 'parse-order:%s' % att_name
        if any(isinstance(res_, LiftError) for _, res_ in r_):
            R8.violation(inst, 'att-order:parse:%s:rejected' % att_name, 'mnemo_from_att rejects `%s $seg, $off`' % att_name, where(arch, from_att.node))
        elif [x_.get(afs.imm) for x_ in lst] == [0x5678, 0x1234]:
            R8.ok(inst, sample='%s $seg, $off: offset first, segment second, as the EA / 9A rows take them' % att_name)
        else:
            R8.violation(inst, 'att-order:parse:%s' % att_name, 'mnemo_from_att exchanges the two immediates of `%s $0x1234, $0x5678`: segment and offset are assembled in each other\'s place'
                         % att_name, where(arch, from_att.node), witness="asm_att('ljmp $0x1234, $0x5678') == ea 34 12 00 00 78 56")



def att_memory_operand_shapes(ctx):
    """The operand dictionaries the AT&T parser delivers for `(%eax)` and for `%fs:(%eax)`: the grammar actions `argument : address` and
    `argument : PERCENT SEGMENT COLON address` and the post-processing loop of parse_args, evaluated from ia32_att.py."""
    from ..x86table import model as x86model
    from ..consteval import Evaluator, NotConst
    X = x86model(ctx)
    afs = X.afs
    att = ctx.mod('ia32_att')
    acts = {}
    for f in att.funcs.values():
        doc = ast.get_docstring(f) or ''
        prods = [' '.join(x.split()) for x in doc.replace('|', '\n argument :').split('\n')]
        if f.name.startswith('p_') and any(p_ == 'argument : address' for p_ in prods):
            acts['plain'] = f
        if f.name.startswith('p_') and any(p_ == 'argument : PERCENT SEGMENT COLON address' for p_ in prods):
            acts['seg'] = f
    if set(acts) != {'plain', 'seg'}:
        raise AnalysisError('ia32_att: the productions `argument : address` / `argument : PERCENT SEGMENT COLON address` were not found')
    pa = att.funcs.get('parse_args')
    loops = [n for n in ast.walk(pa) if isinstance(n, ast.For)] if pa is not None else []
    if not loops:
        raise AnalysisError('ia32_att.parse_args: the post-processing loop over the parsed operands was not found')
    scope = {'x86_afs': afs}
    for fname_, fnode_ in att.funcs.items():
        scope.setdefault(fname_, fnode_)
    out = {}
    for kind, f in acts.items():
        t = [None, {0: 1}] if kind == 'plain' else [None, '%', 'fs', ':', {0: 1}]
        try:
            Evaluator(scope).call_user(f, [t])
            args = [t[0]]
            sc = dict(scope)
            sc['args'] = args
            ev = Evaluator(scope)
            ev.exec_stmts([loops[0]], sc)
        except NotConst as e:
            raise AnalysisError('ia32_att: the action of %s / parse_args is outside the evaluable subset: %s' % (f.name, e))
        out[kind] = args[0]
    return out


def numpy_imm_eval(ctx, args10):
    """arg_set_numpy_imm evaluated on an operand list (copied); returns the list after the call.  Immediates it typed are ('TYPED', size token | 'int32', value)."""
    from ..x86table import model as x86model
    from ..consteval import Evaluator, Obj, Native
    X = x86model(ctx)
    arch, E, afs = X.arch, X.env, X.afs
    asn = arch.method('x86_mn', 'arg_set_numpy_imm')

    class _Tag(object):
        def __init__(self, size):
            self.size = size
            self.limit = {afs.u08: 1 << 8, afs.u16: 1 << 16, afs.u32: 1 << 32}.get(size, 1 << 32)

        def __call__(self, v):
            return ('TYPED', self.size, v)
    tagtab = dict((k_, _Tag(k_)) for k_ in (afs.u08, afs.u16, afs.u32))
    a10 = [dict(x_) for x_ in args10]
    scope = dict((k_, v_) for k_, v_ in E.items() if isinstance(v_, (str, int, bool, list, tuple, dict)) or v_ is None)
    scope.update({'x86_afs': afs, 'tab_size2int': dict((k_, Native(v_)) for k_, v_ in tagtab.items()), 'mm': afs.mm, 'xmm': afs.xmm,
                  'int32': Native(lambda v: ('TYPED', 'int32', v)), 'uint32': Native(lambda v: v)})
    for k_, v_ in tagtab.items():
        scope['tab_size2int'][k_].attrs = {'limit': v_.limit}
    for fname_, fnode_ in arch.funcs.items():
        scope.setdefault(fname_, fnode_)
    from ..consteval import class_obj
    Evaluator(scope).call_user(asn, [class_obj(arch, 'x86_mn'), a10])
    return a10


MUTANTS = [
    ('loop-operand-left-memory', 'miasmx/arch/ia32_arch.py', "    elif name.startswith('j') or name.startswith('loop'):", "    elif name.startswith('j'):", 'C09.D16'),
    ('loop-rendered-with-sigil', 'miasmx/arch/ia32_arch.py', "            if mnemo[-1] == 'call' or mnemo[-1].startswith('j') \\\n                    or mnemo[-1].startswith('loop'):", "            if mnemo[-1] == 'call' or mnemo[-1].startswith('j'):", 'C09.D15'),
    ('star-address-cleared', 'miasmx/arch/ia32_arch.py', "    if name in ['call', 'jmp']:\n        for a in args:\n            if a[x86_afs.ad] == True:", "    if name in ['call', 'jmp']:\n        for a in args:\n            if a[x86_afs.ad]:", 'C09.D16'),

    ('sse-cmp-pseudo-op-revived', 'miasmx/arch/ia32_arch.py', "'cmpsd', 'cmpss'] and len(args)==2 \\\n", "'cmpsd', 'cmpss'] and len(args)==3 \\\n", 'C09.D15'),
    ('unsized-mem-no-default', 'miasmx/arch/ia32_arch.py', "            if len(sizes) == 1 and not None in sizes:", "            if False:", 'C09.D9'),
    ('bound-reversed', 'miasmx/arch/ia32_arch.py', "att_same_order = ['bound', 'enter']", "att_same_order = ['enter']", 'C09.D8'),
    ('att-parse-order', 'miasmx/arch/ia32_arch.py', "    if name in att_same_order and len(args) == 2:\n        args.reverse()\n", "", 'C09.D8'),
    ('cmpsd-att-homonym', 'miasmx/arch/ia32_arch.py', "    if name in ['movsd', 'cmpsd'] and args[0][x86_afs.size] != 'xmm' \\", "    if name in ['movsd'] and args[0][x86_afs.size] != 'xmm' \\", 'C09.D6'),
    ('movsd-mem-movsl', 'miasmx/arch/ia32_arch.py', "    if name in ['movsd', 'cmpsd'] and args[0][x86_afs.size] != 'xmm' \\\n                                  and args[1][x86_afs.size] != 'xmm':", "    if name in ['movsd', 'cmpsd'] and not (args[0][x86_afs.size] == 'xmm'\n                            and args[1][x86_afs.size] == 'xmm'):", 'C09.D6'),
    ('deref3-overwrite', 'miasmx/arch/ia32_att.py', "    t[0][reg] = t[6] + t[0].get(reg, 0)", "    t[0][reg] = t[6]", 'C09.D5'),
    ('no-lea', 'miasmx/arch/ia32_arch.py', "        'lea', 'mov', 'xchg', 'push', 'pop',", "        'mov', 'xchg', 'push', 'pop',", 'C09.D1'),
    ('ptr-w-u32', 'miasmx/arch/ia32_arch.py', "            'w': x86_afs.u16,\n            'l': x86_afs.u32, },\n        'lea',", "            'w': x86_afs.u32,\n            'l': x86_afs.u32, },\n        'lea',", 'C09.D'),
    ('corr-swap', 'miasmx/arch/ia32_arch.py', "        'cwtl': 'cwde',\n        'cwtd': 'cwd',", "        'cwtl': 'cwd',\n        'cwtd': 'cwde',", 'C09.D4'),
    ('none-minus-ret', 'miasmx/arch/ia32_arch.py', "        'leave', 'ret', 'nop',", "        'leave', 'nop',", 'C09.D1'),
    ('from-att-set-order', 'miasmx/arch/ia32_arch.py', "    elif name.startswith('set'):\n        if name.endswith('b') and not name in [ 'setb', 'setnb' ]:", "    elif name.startswith('set'):\n        if name.endswith('b') and not name in [ 'setnb' ]:", 'C09.D2'),
    ('movzx-bw', 'miasmx/arch/ia32_arch.py', "        elif sz == (u16, u08):\n            return name[:4]+'bw'", "        elif sz == (u16, u08):\n            return name[:4]+'wb'", 'C09.D2'),
    ('movsx-ww-unknown', 'miasmx/arch/ia32_arch.py', "        elif sz == (u16, u16):\n", "        elif False:\n", 'C09.D1'),
    ('str-prefix-alias', 'miasmx/arch/ia32_arch.py', "        prefix = self.prefix[:]\n        mnemo = [ self.m.name ]", "        prefix = self.prefix\n        mnemo = [ self.m.name ]", 'C09.D11'),
]
