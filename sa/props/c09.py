"""C09 -- Intel and AT&T renderings agree: the AT&T mnemonic tables accept every mnemonic/operand-size form the
decoder can produce, and the AT&T mnemonic maps back to the same instruction."""
import ast
import copy

from ..core import AnalysisError, where, norm
from ..archinterp import arch_interp
from ..liftforms import LifterModel
from ..lifter import LiftError, LiftUnknown


def printed_name(X, inst):
    E, afs = X.env, X.afs
    name = inst.name
    if inst.modifs.get(E['mmx']):
        p = E['mmx_prefixes'].index(inst.prefix[0]) if inst.prefix else 0
        name = X.mmx_set_suffix(name, p)
        ops = inst.operands
        if name in ('movlps', 'movhps') and len(ops) >= 2 and ops[0].get(afs.ad) is False and ops[1].get(afs.ad) is False:
            name = {'movlps': 'movhlps', 'movhps': 'movlhps'}[name]
    return name


def size_sig(X, ops):
    afs = X.afs
    out = []
    for a in ops:
        out.append('%s%s' % ('m' if a.get(afs.ad) else ('i' if afs.imm in a else 'r'), a.get(afs.size)))
    return ','.join(out)


def run(ctx, report):
    thorough = ctx.tier == 'thorough'
    X, I = arch_interp(ctx)
    arch = X.arch
    E = X.env
    L = LifterModel(ctx, opmodes=('u32', 'u16'), rich=True)
    to_att = I.g.get('mnemo_to_att')
    from_att = I.g.get('mnemo_from_att')
    if to_att is None or from_att is None:
        raise AnalysisError('mnemo_to_att / mnemo_from_att not found')
    report.explanation = (
        'mnemo_to_att and mnemo_from_att are table-driven functions of (mnemonic, operand sizes); they are partially evaluated from their source on '
        'every printed mnemonic x operand-dictionary form the decoder can produce (forms from the statically expanded opcode table, mandatory-prefix '
        'suffix scheme and special renames applied). D1/D1b: mnemo_to_att reaches a return for every form (no final "Mnemonic unknown", no unbound size). '
        'D2: mnemo_from_att applied to the AT&T mnemonic returns the original mnemonic (unique decodability of name+suffix under the dispatch order). '
        'D6: every MMX/SSE form keeps its Intel mnemonic in AT&T syntax (GNU as convention), so a homonymous string instruction (movsd/cmpsd) cannot capture it. D3: every suffix->size table is injective. D5: the AT&T operand grammar, which reads back what the AT&T printer wrote, keeps both coefficients when base and index are the same register.')
    report.not_decided = ('operand order reversal and memory-operand layout for concrete operands, the fsub/fdiv reversal on parsed operands, acceptance by GNU as '
                          '(no assembler in the sandbox; an external tool\'s grammar is not a property of this source).')
    R1 = report.rule('C09.D1', 'every decodable mnemonic/operand-size form has an AT&T mnemonic', floor=700)
    R2 = report.rule('C09.D2', 'the AT&T mnemonic maps back to the same instruction', floor=500)
    R6 = report.rule('C09.D6', 'MMX/SSE instructions keep their mnemonic in AT&T syntax', floor=500)
    import os as _os
    from ..core import VERIF as _V
    irregular = {}
    with open(_os.path.join(_V, 'ref', 'att_names.ref')) as f_:
        for line in f_:
            line = line.split('#')[0].split()
            if len(line) == 2:
                irregular.setdefault(line[1], set()).add(line[0])
    R4i = report.rule('C09.D4', 'irregular AT&T spellings agree with GNU as', floor=10)
    seen = set()
    n_invalid = 0
    sse_names = set(printed_name(X, i_) for i_ in L.instances if i_.modifs.get(E['mmx']))
    for inst in L.instances:
        name = printed_name(X, inst)
        if 'INVALID' in name or 'REPZ' in name or 'REPNZ' in name:
            n_invalid += 1
            continue
        sig = size_sig(X, inst.operands)
        k = (name, sig)
        if k in seen:
            continue
        seen.add(k)
        iid = '%s(%s)' % (name, sig)
        args = [dict(a) for a in inst.operands]
        try:
            r = I.run(to_att, [name, args, 'att_syntax'])
        except LiftUnknown as e:
            raise AnalysisError('mnemo_to_att outside the modelled subset on %s: %s' % (iid, e))
        dec, res = r[0]
        if isinstance(res, LiftError):
            unknown = 'unknown' in res.msg
            t_ = E['att_mnemo_table']
            partly = any(name in t_[k] for k in ('suffix_one_ptr', 'suffix_one_iflt', 'suffix_one_flt')) or name in ('movsx', 'movzx')
            key = 'att:%s:%s' % (name, ('unknown' + (':' + sig if partly else '')) if unknown else '%s:%s' % (res.exc, sig))
            R1.violation(iid, key, ('AT&T rendering of %s has no mnemonic (falls through every table of mnemo_to_att: "Mnemonic unknown")' % name) if unknown
                         else 'AT&T rendering of %s with operands (%s) raises %s: %s' % (name, sig, res.exc, res.msg[:80]),
                         where(arch, to_att.node), witness='row %s' % inst.row.key())
            continue
        if res is None or not isinstance(res, str):
            R1.violation(iid, 'att:%s:none:%s' % (name, sig), 'mnemo_to_att returns %r for %s (%s): the operand size matches no suffix and no later alternative'
                         % (res, name, sig), where(arch, to_att.node), witness='row %s' % inst.row.key())
            continue
        R1.ok(iid, sample='%s (%s) -> %s' % (name, sig, res))
        if name in irregular:
            # an instruction GNU as spells differently (ref/att_names.ref) must be rendered under one of those spellings
            if res in irregular[name] or (name in ('movsd', 'cmpsd') and inst.modifs.get(E['mmx'])):
                R4i.ok(iid + ':spelling', sample='%s is %s in AT&T syntax' % (name, res))
            else:
                R4i.violation(iid + ':spelling', 'att-spelling:%s:%s' % (name, res), 'the instruction %s (%s) is rendered as %r in AT&T syntax; GNU as spells it %s' %
                              (name, sig, res, ' / '.join(sorted(irregular[name]))), where(arch, to_att.node), witness="dis(ea 02 00 00 00 01 00) in AT&T syntax prints 'jmpf 1, $2'")
        if inst.modifs.get(E['mmx']):
            # GNU as uses the Intel mnemonics for MMX/SSE instructions (only the integer<->float conversions take an optional l/q suffix)
            if res == name or (name.startswith('cvt') and res[:-1] == name and res[-1] in 'lq'):
                R6.ok(iid, sample='%s stays %s in AT&T syntax' % (name, res), nontrivial=(len(R6.nontrivial) < 700))
            else:
                R6.violation(iid, 'att-sse:%s:%s' % (name, res), 'the MMX/SSE instruction %s with operands (%s) is rendered as %r in AT&T syntax; GNU as names it %s (a suffixed name is another instruction)'
                             % (name, sig, res, name), where(arch, to_att.node), witness='f2 0f 10 00 renders movsl (%eax), %xmm0' if name == 'movsd' else None)
        elif name in sse_names:
            # an integer instruction whose Intel name is also an SSE mnemonic (string movsd/cmpsd): in AT&T syntax the bare name denotes the SSE one
            if res == name:
                R6.violation(iid, 'att-homonym:%s' % name, 'the string instruction %s (%s) is rendered as %r in AT&T syntax, which GNU as reads as the SSE instruction of that name '
                             '(the string form is %sl)' % (name, sig, res, name[:4]), where(arch, to_att.node), witness="dis(a7) in AT&T syntax prints cmpsd")
            else:
                R6.ok(iid, sample='string %s is %s in AT&T syntax' % (name, res))
        args2 = [dict(a) for a in inst.operands]
        try:
            r2 = I.run(from_att, [[], res, args2, 'att_syntax'])
        except LiftUnknown as e:
            raise AnalysisError('mnemo_from_att outside the modelled subset on %s: %s' % (res, e))
        dec2, back = r2[0]
        if isinstance(back, LiftError):
            R2.violation(iid, 'att-back:%s:%s' % (res, back.exc), 'mnemo_from_att rejects %r, the AT&T mnemonic of %s (%s): %s' % (res, name, sig, back.msg[:70]),
                         where(arch, from_att.node))
            continue
        n2 = back[1] if isinstance(back, tuple) and len(back) == 2 else back
        afs = X.afs
        size_bad = None
        for a_new, a_old in zip(args2, inst.operands):
            if a_old.get(afs.ad) and a_old.get(afs.size) is not True and a_new.get(afs.size) != a_old.get(afs.size):
                size_bad = (a_old.get(afs.size), a_new.get(afs.size))
        # the size letters of movs??/movz?? are the only source of the memory operand's size (elsewhere the assembler
        # re-derives it from the register operand, so a difference there is not observable)
        if n2 == name and size_bad and name in ('movsx', 'movzx'):
            R2.violation(iid, 'att-back-size:%s:%s' % (name, res), 'the AT&T mnemonic %r of %s (%s) gives its memory operand size %s when read back (was %s)'
                         % (res, name, sig, size_bad[1], size_bad[0]), where(arch, from_att.node))
        elif n2 == name:
            R2.ok(iid, sample='%s -> %s -> %s' % (name, res, n2))
        else:
            R2.violation(iid, 'att-back:%s:%s->%s' % (name, res, n2), 'the AT&T mnemonic %r of %s (%s) is read back as %r' % (res, name, sig, n2), where(arch, from_att.node))
    report.analysed['forms'] = len(seen)
    report.analysed['forms_with_INVALID_prefix_name_skipped (reported by C10.D2)'] = n_invalid

    R3 = report.rule('C09.D3', 'suffix -> size tables are injective', floor=3)
    t = E['att_mnemo_table']
    for tname in ('suffix_one_ptr', 'suffix_one_iflt', 'suffix_one_flt'):
        d = t[tname][0]
        vals = list(d.values())
        if len(set(vals)) == len(vals) and len(set(d.keys())) == len(d):
            R3.ok(tname, sample='%s: %s' % (tname, d))
        else:
            R3.violation(tname, 'suffix-table:%s' % tname, 'two suffix letters of %s denote the same size: %s' % (tname, d), where(arch, arch.assigns['att_mnemo_table'][-1]))


    R4 = R4i
    import os
    from ..core import VERIF
    refnames = {}
    with open(os.path.join(VERIF, 'ref', 'att_names.ref')) as f:
        for line in f:
            line = line.split('#')[0].split()
            if len(line) == 2:
                refnames[line[0]] = line[1]
    for a, i in sorted(t['correspondance'].items()):
        inst = 'correspondance[%s]' % a
        if a not in refnames:
            R4.ok(inst + ':unknown-to-ref', nontrivial=False)
            R4.note('%s -> %s is not in ref/att_names.ref (not judged)' % (a, i))
        elif refnames[a] == i:
            R4.ok(inst, sample='%s = %s' % (a, i))
        else:
            R4.violation(inst, 'att-name:%s:%s' % (a, i), 'AT&T mnemonic %r is mapped to %r; GNU as defines it as %r' % (a, i, refnames[a]),
                         where(arch, arch.assigns['att_mnemo_table'][-1]))

    R5 = report.rule('C09.D5', 'the AT&T operand grammar accumulates register coefficients (base == index)', floor=2)
    from .c02 import accumulate_rule
    accumulate_rule(R5, ctx.mod('ia32_att'), ctx.mod('parse_ad'))

    R7 = report.rule('C09.D7', 'string instructions: a segment override is printed and assembled back, whatever the order the operands are written in', floor=12)
    from .c03 import string_trip_rule
    string_trip_rule(ctx, R7, X)


MUTANTS = [
    ('cmpsd-att-homonym', 'miasmx/arch/ia32_arch.py', "    if name in ['movsd', 'cmpsd'] and args[0][x86_afs.size] != 'xmm' \\", "    if name in ['movsd'] and args[0][x86_afs.size] != 'xmm' \\", 'C09.D6'),
    ('movsd-mem-movsl', 'miasmx/arch/ia32_arch.py', "    if name in ['movsd', 'cmpsd'] and args[0][x86_afs.size] != 'xmm' \\\n                                  and args[1][x86_afs.size] != 'xmm':", "    if name in ['movsd', 'cmpsd'] and not (args[0][x86_afs.size] == 'xmm'\n                            and args[1][x86_afs.size] == 'xmm'):", 'C09.D6'),
    ('deref3-overwrite', 'miasmx/arch/ia32_att.py', "    t[0][reg] = t[6] + t[0].get(reg, 0)", "    t[0][reg] = t[6]", 'C09.D5'),
    ('no-lea', 'miasmx/arch/ia32_arch.py', "        'lea', 'mov', 'xchg', 'push', 'pop',", "        'mov', 'xchg', 'push', 'pop',", 'C09.D1'),
    ('ptr-w-u32', 'miasmx/arch/ia32_arch.py', "            'w': x86_afs.u16,\n            'l': x86_afs.u32, },\n        'lea',", "            'w': x86_afs.u32,\n            'l': x86_afs.u32, },\n        'lea',", 'C09.D'),
    ('corr-swap', 'miasmx/arch/ia32_arch.py', "        'cwtl': 'cwde',\n        'cwtd': 'cwd',", "        'cwtl': 'cwd',\n        'cwtd': 'cwde',", 'C09.D4'),
    ('none-minus-ret', 'miasmx/arch/ia32_arch.py', "        'leave', 'ret', 'nop',", "        'leave', 'nop',", 'C09.D1'),
    ('from-att-set-order', 'miasmx/arch/ia32_arch.py', "    elif name.startswith('set'):\n        if name.endswith('b') and not name in [ 'setb', 'setnb' ]:", "    elif name.startswith('set'):\n        if name.endswith('b') and not name in [ 'setnb' ]:", 'C09.D2'),
    ('movzx-bw', 'miasmx/arch/ia32_arch.py', "        elif sz == (u16, u08):\n            return name[:4]+'bw'", "        elif sz == (u16, u08):\n            return name[:4]+'wb'", 'C09.D2'),
]
