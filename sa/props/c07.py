"""C07 -- machine state equals sequential execution: pre-state discipline of the
evaluator, rep-termination tests that are real tests, no evaluation shortcut on
flags that are not part of the machine state."""
import ast

from ..core import AnalysisError, where, norm
from ..effects import Freshness, stores, base_name
from ..shapes import u
from ..srcmodel import walk_no_nested, parent

EXPR_PRODUCERS = {'eval_expr', 'eval_expr_no_cache', 'expr_simp', 'visit', 'copy', 'replace_expr', 'get_reg',
                  'ExprInt', 'ExprId', 'ExprMem', 'ExprOp', 'ExprCond', 'ExprSlice', 'ExprCompose', 'ExprInt32', 'ExprInt8',
                  'ExprInt16', 'ExprInt64', 'ExprInt_from'}


def self_calls(fn):
    out = set()
    for n in walk_no_nested(fn):
        if isinstance(n, ast.Call) and isinstance(n.func, ast.Attribute) and isinstance(n.func.value, ast.Name) and n.func.value.id == 'self':
            out.add(n.func.attr)
        # dispatch dicts of bound methods: {ExprId: self.eval_ExprId, ...}
        if isinstance(n, ast.Dict):
            for v in n.values:
                if isinstance(v, ast.Attribute) and isinstance(v.value, ast.Name) and v.value.id == 'self':
                    out.add(v.attr)
    return out


def pool_stores(fn):
    out = []
    for node, tgt, kind, attr in stores(fn):
        t = u(tgt)
        if t == 'self.pool' or t.startswith('self.pool.') or t.startswith('self.pool['):
            out.append((node, kind))
    return out


def expr_typed(fr, name, at):
    """Is `name` (as seen at statement `at`) bound to the result of an Expr-producing call?"""
    r = fr.reaching(name, at)
    vals = [r] if r is not None and not isinstance(r, tuple) else fr.assigns.get(name, [])
    vals = [v for v in vals if not isinstance(v, tuple)]
    if not vals:
        return False
    for v in vals:
        if not isinstance(v, ast.Call):
            return False
        f = v.func
        nm = f.attr if isinstance(f, ast.Attribute) else (f.id if isinstance(f, ast.Name) else None)
        if nm not in EXPR_PRODUCERS:
            return False
    return True


def shared_memo_flags(ctx):
    """Flags set (somewhere in the evaluator/simplifier modules) on nodes not created by the setting function."""
    out = {}
    for mname in ('eval_abs', 'expr_helper', 'emul_helper', 'ia32_sem'):
        m = ctx.mod(mname)
        for fn in [n for n in ast.walk(m.tree) if isinstance(n, ast.FunctionDef)]:
            fr = None
            for node, tgt, kind, attr in stores(fn):
                if kind == 'attr' and attr and (attr.startswith('is_') or attr == 'simp'):
                    nm, hops = base_name(tgt)
                    if nm in ('self', 'cls') and hops == 0:
                        continue
                    fr = fr or Freshness(fn)
                    if not fr.is_fresh_at(tgt, node):
                        out.setdefault(attr, []).append((m, node))
    return out


def run(ctx, report):
    ea = ctx.mod('eval_abs')
    eh = ctx.mod('emul_helper')
    report.explanation = (
        'D1 pre-state discipline: no function in the call closure of eval_abs.get_instr_mod (self-calls and dispatch tables, transitively) stores into '
        'self.pool; eval_instr calls get_instr_mod before its first pool store and the values it stores derive from that result through expr_simp / '
        'ExprInt only (def-use), so every source is evaluated in the pre-state. D2: every ==/!= between a name bound to an Expr-producing call and an int '
        'literal is a constant (Expr.__eq__ returns False for non-Expr), in particular the zf tests that end a repe/repne loop. D3: eval_expr returns '
        'early only on flags that are never set on shared nodes.')
    report.not_decided = 'the overlap arithmetic of memory writes (get_mem_overlapping, substract_mems, partial/bigger lookups): depends on the history of widths and offsets.'

    R1 = report.rule('C07.D1', 'sources are evaluated in the pre-state; the evaluation closure never writes the pool', floor=10)
    methods = ea.methods('eval_abs')
    if 'get_instr_mod' not in methods or 'eval_instr' not in methods:
        raise AnalysisError('eval_abs.get_instr_mod / eval_instr not found')
    closure, todo = set(), ['get_instr_mod']
    while todo:
        f = todo.pop()
        if f in closure or f not in methods:
            continue
        closure.add(f)
        todo += list(self_calls(methods[f]))
    for f in sorted(closure):
        ps = pool_stores(methods[f])
        inst = 'eval_abs.%s' % f
        if ps:
            for node, kind in ps:
                R1.violation(inst, '%s:%s' % (inst, norm(node)), '%s is reachable from get_instr_mod (read phase) and writes the pool: %s' % (inst, norm(node)),
                             where(ea, node))
        else:
            R1.ok(inst, sample='%s: no pool store' % inst)
    ei = methods['eval_instr']
    first_store = min([n.lineno for n, k in pool_stores(ei)] or [10 ** 9])
    gim = [n for n in walk_no_nested(ei) if isinstance(n, ast.Call) and u(n.func) == 'self.get_instr_mod']
    if len(gim) == 1 and gim[0].lineno < first_store:
        R1.ok('eval_instr:order', sample='eval_instr: get_instr_mod(exprs) precedes the first pool store')
    else:
        R1.violation('eval_instr:order', 'eval_instr:get_instr_mod-order', 'eval_instr does not evaluate all sources (one get_instr_mod call) before its first pool store',
                     where(ea, ei))
    # values stored derive from tmp_ops through expr_simp/ExprInt only
    fr = Freshness(ei)
    res_name = None
    for n in walk_no_nested(ei):
        if isinstance(n, ast.Assign) and isinstance(n.value, ast.Call) and u(n.value.func) == 'self.get_instr_mod':
            res_name = u(n.targets[0])
    for node, kind in pool_stores(ei):
        if not (isinstance(node, ast.Assign) and isinstance(node.targets[0], ast.Subscript)):
            continue
        val = node.value
        inst = 'eval_instr:%s' % norm(node)
        chain_ok, seen = value_chain_ok(ei, fr, val, node, res_name)
        if chain_ok:
            R1.ok(inst, sample='%s: value derives from %s via %s' % (inst, res_name, sorted(seen) or 'identity'))
        else:
            R1.violation(inst, inst, 'the value written to the pool is (re)evaluated after the state has started to change: %s' % sorted(seen), where(ea, node))

    R4 = report.rule('C07.D4', 'every overlapped memory cell that is deleted has its remainders re-inserted in the same step', floor=1)
    # (the deletion may sit in eval_instr or in a method eval_instr calls on self)
    hosts = [ei] + [methods[c.func.attr] for c in ast.walk(ei) if isinstance(c, ast.Call) and isinstance(c.func, ast.Attribute) and u(c.func.value) == 'self'
                    and c.func.attr in methods and c.func.attr not in ('get_instr_mod', 'get_mem_overlapping', 'substract_mems')]
    dels = [n for h in hosts for n in walk_no_nested(h) if isinstance(n, ast.Delete) and any(u(t).startswith('self.pool[') for t in n.targets)]
    if not dels:
        raise AnalysisError('eval_instr no longer deletes overlapped cells (del self.pool[x]) -- overlap handling changed')
    for d in dels:
        loop = parent(d)
        while loop is not None and not isinstance(loop, ast.For):
            loop = parent(loop)
        inst = 'eval_instr:%s' % norm(d)
        ok = False
        if loop is not None:
            rem_names = set()
            for s2 in loop.body:
                if isinstance(s2, ast.Assign) and isinstance(s2.value, ast.Call) and u(s2.value.func) == 'self.substract_mems' \
                        and isinstance(s2.targets[0], ast.Name):
                    rem_names.add(s2.targets[0].id)
            for s2 in loop.body:
                if isinstance(s2, ast.For) and isinstance(s2.iter, ast.Name) and s2.iter.id in rem_names \
                        and any(isinstance(x, ast.Assign) and u(x.targets[0]).startswith('self.pool[') for x in ast.walk(s2)):
                    ok = True
        if ok:
            R4.ok(inst, sample='%s: remainders of substract_mems(x, op) re-inserted inside the same per-cell loop' % inst)
        else:
            R4.violation(inst, 'eval_instr:del-without-reinsert:%s' % norm(d),
                         'an overlapped cell is deleted but the remainders computed by substract_mems for that cell are not re-inserted in the same loop '
                         'iteration: bytes of earlier stores that the new store does not cover are lost', where(ea, d))

    R2 = report.rule('C07.D2', 'comparisons that decide loop exit compare like with like', floor=2)
    n_cmp = 0
    for m in (eh, ea):
        for fn in [n for n in ast.walk(m.tree) if isinstance(n, ast.FunctionDef)]:
            fr2 = None
            for n in walk_no_nested(fn):
                if isinstance(n, ast.Compare) and len(n.ops) == 1 and isinstance(n.ops[0], (ast.Eq, ast.NotEq)):
                    a, b = n.left, n.comparators[0]
                    for x, y in ((a, b), (b, a)):
                        if isinstance(x, ast.Name) and isinstance(y, ast.Constant) and isinstance(y.value, int) and not isinstance(y.value, bool):
                            fr2 = fr2 or Freshness(fn)
                            st = fr2._stmt_of(n)
                            n_cmp += 1
                            inst = '%s::%s:%s' % (m.name, fn.name, norm(n))
                            if expr_typed(fr2, x.id, st):
                                R2.violation(inst, inst, '`%s` compares an IR expression with a plain integer: Expr.__eq__ returns False for non-expressions, '
                                             'so the test is constant' % norm(n), where(m, n),
                                             witness='repe cmpsb never stops on a mismatch: the zf test is always False')
                            else:
                                R2.ok(inst, nontrivial=False)
    # the rep loop of emul_full_expr must test zf through a value comparison
    efe = eh.func('emul_full_expr')
    zf_tests = [n for n in walk_no_nested(efe) if isinstance(n, ast.Compare) and 'my_zf' in u(n)]
    for n in zf_tests:
        t = u(n)
        inst = 'emul_full_expr:%s' % t
        if '.arg' in t:
            R2.ok(inst, sample='rep loop exit: %s' % t)
    if not zf_tests:
        raise AnalysisError('rep-loop zf tests not found in emul_full_expr')
    report.analysed['int_comparisons_examined'] = n_cmp

    R5 = report.rule('C07.D5', 'rep loop: count test, one step, count decrement, then the zf termination test; results bound for zero iterations', floor=4)
    loops = [n for n in walk_no_nested(efe) if isinstance(n, ast.While)]
    if len(loops) != 1:
        raise AnalysisError('emul_full_expr: expected one rep loop, found %d' % len(loops))
    body = loops[0].body
    pos = {}
    for i, st in enumerate(body):
        t = u(st)
        if isinstance(st, ast.If) and 'my_ecx.arg == 0' in u(st.test) and any(isinstance(x, ast.Break) for x in st.body):
            pos.setdefault('count-zero test', i)
        if any(isinstance(x, ast.Call) and u(x.func) == 'emul_expr' for x in ast.walk(st)):
            pos.setdefault('step', i)
        if any(isinstance(x, ast.Call) and u(x.func) == 'machine.eval_instr' and 'ecx' in u(x) and "ExprOp('-', my_ecx" in u(x) for x in ast.walk(st)):
            pos.setdefault('count decrement', i)
        if isinstance(st, ast.If) and any(isinstance(x, ast.Break) for x in ast.walk(st)) and 'my_zf' in t:
            pos.setdefault('zf termination test', i)
    order = ['count-zero test', 'step', 'count decrement', 'zf termination test']
    missing = [k for k in order if k not in pos]
    if missing:
        R5.violation('rep-order', 'rep-loop:missing:%s' % ','.join(missing), 'the rep loop of emul_full_expr has no %s' % ', '.join(missing), where(eh, loops[0]))
    else:
        for a, b in zip(order, order[1:]):
            inst = 'rep-order:%s<%s' % (a, b)
            if pos[a] < pos[b]:
                R5.ok(inst, sample='%s precedes %s' % (a, b))
            else:
                R5.violation(inst, 'rep-loop:order:%s:%s' % (a, b), 'in the rep loop the %s comes after the %s: the architecture does %s' % (a, b, ' -> '.join(order)),
                             where(eh, body[pos[a]]), witness='repne scasb with count 10 matching on the third byte must leave ecx == 7')
    # every exit of the loop is the architectural termination test; an undecidable test is rejected, not skipped
    def enclosing_tests(node, top):
        tests, c, p_ = [], node, parent(node)
        while p_ is not None and p_ is not top:
            if isinstance(p_, ast.If):
                tests.append((u(p_.test), any(c is st for st in p_.body)))
            c, p_ = p_, parent(p_)
        return tests
    for br in [n for st in body for n in ast.walk(st) if isinstance(n, ast.Break)]:
        tests = enclosing_tests(br, loops[0])
        txt = ' and '.join(t if pol else 'not (%s)' % t for t, pol in tests)
        inst = 'rep-exit:%s' % txt[:80]
        if 'my_ecx.arg == 0' in txt.replace('==0', '== 0') and all(pol for t, pol in tests):
            R5.ok(inst, sample='exit when the count is 0')
        elif 'my_zf.arg' in txt and ('l.prefix' in txt):
            R5.ok(inst, sample='exit on the zf test of repe/repne: %s' % txt[:70])
        else:
            R5.violation(inst, 'rep-loop:exit:%s' % txt[:80], 'the rep loop is left under `%s`, which is neither count == 0 nor the zf test of repe/repne: the state then holds a partially executed instruction'
                         % txt, where(eh, br), witness="'rep stosb' with ecx = 0x1001 executes one step and leaves ecx unchanged")
    zf_blocks = [st for st in body if isinstance(st, ast.If) and any('my_zf' in u(x) for x in ast.walk(st))]
    for zb in zf_blocks:
        uses_isinst = [n for n in ast.walk(zb) if isinstance(n, ast.If) and 'isinstance(my_zf, ExprInt)' in u(n.test) and any(isinstance(x, ast.Break) for x in n.body)]
        rejects = [n for n in ast.walk(zb) if isinstance(n, ast.If) and u(n.test).replace(' ', '') in ('notisinstance(my_zf,ExprInt)',) and any(isinstance(x, ast.Raise) for x in n.body)]
        if uses_isinst and not rejects:
            R5.violation('rep-zf-symbolic', 'rep-loop:zf-symbolic-skipped', 'the zf termination test of repe/repne is applied only when zf evaluates to a constant (%s) and nothing rejects a symbolic zf: '
                         'the loop then runs all ecx iterations whatever the compared data' % u(uses_isinst[0].test)[:80], where(eh, uses_isinst[0]),
                         witness="'mov ecx,3; repe cmpsb' on symbolic memory leaves ecx = 0, esi = init_esi+3")
        else:
            R5.ok('rep-zf-symbolic', sample='a zf that does not evaluate to a constant is rejected (ValueError), as a symbolic count is')
    if not zf_blocks:
        raise AnalysisError('rep loop: the zf termination block was not found')
    from ..defassign import undefined_at_returns
    und, nret = undefined_at_returns(efe)
    if nret == 0:
        raise AnalysisError('emul_full_expr has no return')
    if und:
        for ret, name in und:
            R5.violation('returns-bound', 'rep-loop:unbound:%s' % name, 'emul_full_expr returns `%s`, which is not bound on every path (zero iterations of the rep loop)' % name,
                         where(eh, ret), witness="'rep movsb' with ecx == 0 raises UnboundLocalError")
    else:
        R5.ok('returns-bound', sample='every name returned by emul_full_expr is bound on all paths (including zero iterations)')

    # ---------------------------------------------------------------- D6 overlap assembly in eval_ExprMem
    R6 = report.rule('C07.D6', 'a read overlapping earlier stores is assembled from pieces at non-negative, ascending positions', floor=20)
    em = methods.get('eval_ExprMem')
    rs = methods.get('rest_slice')
    if em is None or rs is None:
        raise AnalysisError('eval_abs.eval_ExprMem / rest_slice not found')
    off_ifs = [n for n in walk_no_nested(em) if isinstance(n, ast.If) and u(n.test).replace(' ', '') == 'off>=0' and n.orelse]
    # the clauses below read the *shape* of the assembly loop as it is written today; when the loop is written differently they say nothing, and the behaviour is decided by the
    # interpreted histories of C07.D17 (reads that start inside, before and across stored cells)
    if len(off_ifs) != 1:
        R6.note('eval_ExprMem: no single branch on the sign of the cell offset (off >= 0): the shape clauses are skipped, C07.D17 decides the assembled reads')
    for oi in off_ifs[:1] if len(off_ifs) == 1 else []:

        def appended(stmts):
            return [c.args[0] for st in stmts for c in ast.walk(st) if isinstance(c, ast.Call) and u(c.func) == 'out.append' and c.args and isinstance(c.args[0], ast.Tuple)
                    and len(c.args[0].elts) == 3]
        for t in appended(oi.body):
            inst = 'overlap:cell-at-or-after-read:%s' % norm(t)
            if u(t.elts[1]) == 'off_base' and u(t.elts[2]).replace(' ', '') in ('off_base+ee.get_size()', 'off_base+m'):
                R6.ok(inst, sample='a cell starting inside the read is placed at off*8')
            else:
                R6.violation(inst, 'overlap:pos:after:%s' % norm(t), 'a cell that starts %s bytes after the read must be placed at bit off*8; found %s' % ('off', norm(t)), where(ea, t))
        neg = appended(oi.orelse)
        if not neg:
            R6.violation('overlap:cell-before-read', 'overlap:neg:none', 'cells that start before the read are no longer merged into the result', where(ea, oi))
        for t in neg:
            inst = 'overlap:cell-before-read:%s' % norm(t)
            p0 = t.elts[1]
            if isinstance(p0, ast.Constant) and p0.value == 0 and u(t.elts[2]).replace(' ', '') in ('ee.get_size()', 'm+off*8', 'm-(-off*8)'):
                R6.ok(inst, sample='the tail of a cell that starts before the read is placed at bit 0')
            else:
                R6.violation(inst, 'overlap:pos:before:%s' % norm(t), 'a cell that starts before the read (off < 0) is placed at %s, which is negative: its tail belongs at bit 0' % u(p0), where(ea, t),
                             witness="after a 32-bit store at 0x1000, a 16-bit read at 0x1001 is not 0x3322")
        # the slice taken from the earlier cell in the off < 0 branch: [-off*8 : min(size - off*8, cell size))
        for st in oi.orelse:
            for c in ast.walk(st):
                if isinstance(c, ast.Call) and u(c.func) == 'ExprSlice' and len(c.args) == 3:
                    if u(c.args[1]).replace(' ', '') == '-off*8' and u(c.args[2]) == 'm':
                        R6.ok('overlap:tail-slice', sample='tail slice of the earlier cell starts at -off*8')
                    else:
                        R6.violation('overlap:tail-slice', 'overlap:tail-slice:%s' % norm(c), 'the part of an earlier cell that the read covers is %s; expected [-off*8 : m)' % norm(c), where(ea, c))
    # rest_slice walks ascending positions: the argument is sorted by position right before the call
    calls = [n for n in walk_no_nested(em) if isinstance(n, ast.Call) and u(n.func) == 'self.rest_slice']
    if not calls:
        R6.note('eval_ExprMem does not call rest_slice: the sortedness clause is skipped, C07.D17 decides the assembled reads')
    for c in calls:
        stc = c
        while not isinstance(stc, ast.stmt):
            stc = parent(stc)
        blk = parent(stc).body if hasattr(parent(stc), 'body') and stc in parent(stc).body else None
        ok_sorted = False
        if blk is not None:
            i = blk.index(stc)
            if i > 0:
                prev = blk[i - 1]
                t = u(prev).replace(' ', '')
                ok_sorted = t in ('out=sorted(out,key=lambdax:x[1])', 'out.sort(key=lambdax:x[1])')
        inst = 'overlap:sorted-before-rest_slice'
        if ok_sorted and u(c.args[0]) == 'out':
            R6.ok(inst, sample='pieces are sorted by position immediately before rest_slice(out, ..)')
        else:
            R6.violation(inst, 'overlap:unsorted', 'rest_slice assumes ascending positions but eval_ExprMem does not sort the pieces right before calling it (they are collected in '
                         'descending address order)', where(ea, c), witness='16-bit stores at 0x1000 and 0x1002, 32-bit read at 0x1001: TypeError in the simplifier')
    # rest_slice itself: gaps of sorted, disjoint pieces are the complement
    from ..consteval import Evaluator as _Ev, NotConst as _NC
    n_rs = 0
    slots = [0, 8, 16, 24, 32]
    import itertools
    pieces_all = [(a, b) for a in slots for b in slots if a < b]
    for k in (1, 2, 3):
        for combo in itertools.combinations(pieces_all, k):
            if any(combo[i][1] > combo[i + 1][0] for i in range(len(combo) - 1)):
                continue
            n_rs += 1
            sl = [('e', a, b) for a, b in combo]
            try:
                got = _Ev({}).call_user(rs, [None, sl, 0, 32])
            except _NC as e:
                raise AnalysisError('rest_slice is outside the evaluable subset: %s' % e)
            want = []
            pos = 0
            for a, b in combo:
                if a > pos:
                    want.append((pos, a))
                pos = b
            if pos < 32:
                want.append((pos, 32))
            inst = 'rest_slice(%s)' % (list(combo),)
            if [tuple(x) for x in got] == want:
                R6.ok(inst, nontrivial=(n_rs % 4 == 0), sample='%s -> gaps %s' % (inst, want))
            else:
                R6.violation(inst, 'rest_slice:%s' % ('tail' if got[:-1] == want[:-1] else 'gaps'), 'rest_slice(%s, 0, 32) returns %s; the uncovered intervals are %s' % (list(combo), got, want),
                             where(ea, rs))

    # ---------------------------------------------------------------- D7 values are never evaluated a second time
    R7 = report.rule('C07.D7', 'a value (pool content, result of an evaluation, address of a stored cell) is never passed to eval_expr again', floor=8)
    double_eval_rule(R7, ea, methods, eh, efe)

    # ---------------------------------------------------------------- D8 the pieces of an overlapping read are merged at their bit positions
    R8 = report.rule('C07.D8', 'adjacent constant / slice pieces of an assembled read are merged at their bit positions (merge_sliceto_slice evaluated on the concatenation family of C05.D3)', floor=2)
    from .. import simpeval
    simpeval.emit(R8, ctx, lambda l: l in ('compose', 'slice:Compose'), ('value', 'width', 'ill-typed', 'result', 'raises'))

    R13 = report.rule('C07.D13', 'a store that overlaps a stored cell leaves exactly the bytes of that cell it does not cover, each at its address with its bits of the old value '
                      '(substract_mems evaluated from the source on cell width x store width x byte offset, all overlapping placements)', floor=60)
    remainder_rule(ctx, R13)

    R14c = report.rule('C07.D14', 'a copied pool (mpool.copy) carries every attribute the pool methods update: read-backs in a forked state see the cells stored before the fork (shared with C12.D16)', floor=2)
    from .c12 import state_copy_rule
    state_copy_rule(R14c, [ctx.mod('eval_abs')])

    R17 = report.rule('C07.D17', 'the symbolic machine interpreted from its source on 30 instruction histories (stores that cover, split or abut earlier stores, reads between stores, the '
                      'same address at two widths, parallel assignments inside one instruction, an address register updated between store and read): registers and probed cells after the '
                      'history, valued on three initial states, equal the concrete byte-level execution of the same history (shared with C06.D16)', floor=20)
    from .. import machine as _machine
    _machine.emit(R17, ctx, 'C07')
    R16 = report.rule('C07.D16', 'a store searches the cells it covers (get_mem_overlapping) on every path; no fast path decides from an ordering test of the widths that nothing else is covered', floor=1)
    overlap_search_rule(R16, ea, methods)
    R15 = report.rule('C07.D15', 'every address looked up in the table of stored cells is simplified on every assignment that reaches the lookup (the table is keyed by simplified '
                      'addresses: an address built as `ptr + 1` and not simplified again misses the cell stored there); shared with C06.D14', floor=3)
    lookup_key_rule(R15, ea, methods)

    R12 = report.rule('C07.D12', 'cell addresses have one simplified form: base + 0, 0 + base and base + c + (-c) simplify to the base itself for sums of one, two and three terms '
                      '(memory cells are keyed by the simplified address; the overlap probes compute neighbours as address + constant)', floor=10)
    simpeval.emit_groups(R12, ctx, 'neutral', 'two spellings of one address')

    R9 = report.rule('C07.D9', 'a partial register write (constant pieces and one conditional piece) is folded to the concatenation of its pieces (eval_ExprCompose evaluated)', floor=5)
    from .c06 import compose_fold_rule
    ea9 = ctx.mod('eval_abs')
    compose_fold_rule(R9, ea9, ea9.methods('eval_abs').get('eval_ExprCompose'))
    from .c06 import mem_read_fold_rule
    mem_read_fold_rule(R9, ea9, ea9.methods('eval_abs'))

    R10 = report.rule('C07.D10', 'addresses are widened to 32 bits where they enter the memory model (shared with C06.D9): instructions under the 16-bit address size can be emulated', floor=3)
    from .c06 import addr_width_rule
    addr_width_rule(R10, ea, methods)

    R11 = report.rule('C07.D11', 'the search for stored cells that start before an access looks back as far as the widest cell reaches', floor=1)
    lookback_rule(ctx, R11, ea, methods)

    R3 = report.rule('C07.D3', 'evaluation never short-cuts on a flag that is not machine state', floor=1)
    ee = methods.get('eval_expr')
    if ee is None:
        raise AnalysisError('eval_abs.eval_expr not found')
    shared = shared_memo_flags(ctx)
    e = ee.args.args[1].arg
    guards = []
    for n in walk_no_nested(ee):
        if isinstance(n, ast.If) and any(isinstance(s, ast.Return) for s in n.body):
            for a in ast.walk(n.test):
                if isinstance(a, ast.Attribute) and isinstance(a.value, ast.Name) and a.value.id == e:
                    guards.append((a.attr, n))
    if not guards:
        R3.ok('eval_expr', sample='eval_expr has no flag-guarded early return')
    for flag, node in guards:
        inst = 'eval_expr:if %s' % u(node.test)
        if flag in shared:
            m2, st = shared[flag][0]
            R3.violation(inst, 'eval_expr:early-return:%s' % flag,
                         'eval_expr returns its argument unevaluated when %s.%s is set, and %s is set on shared nodes (%s:%d): once an identifier has been '
                         'seen unbound it is never looked up again, even after an instruction assigns it' % (e, flag, flag, m2.relpath, st.lineno),
                         where(ea, node), witness="'fdiv %st,%st(2)' then 'fdivr %st,%st(2)': pool[float_st2] == (float_st2 fdiv float_st0)")
        else:
            R3.ok(inst, sample='%s: flag %s is only set on nodes created by the setter' % (inst, flag))


def value_chain_ok(fn, fr, val, at, res_name, depth=0):
    """val derives (flow-insensitively, through every assignment of the names involved) from <res_name>[..] through
    expr_simp / ExprInt / integer casts / attribute reads, or from substract_mems (re-slicing of already stored
    memory values during overlap handling -- the overlap arithmetic itself is not decided)."""
    seen = set()
    visited = set()

    def rec(v):
        if isinstance(v, tuple):
            if v[0] in ('iter', 'elt'):
                return rec(v[1])
            if v[0] == 'unpack':
                return rec(v[1])
            return False
        if isinstance(v, ast.Name):
            if v.id in visited:
                return True
            visited.add(v.id)
            vals = fr.assigns.get(v.id, [])
            if not vals:
                return False
            return all(rec(x) for x in vals)
        if isinstance(v, (ast.List, ast.Tuple)):
            return all(rec(x) for x in v.elts)
        if isinstance(v, ast.Constant):
            return True
        if isinstance(v, ast.Subscript):
            return u(v.value) == res_name or rec(v.value)
        if isinstance(v, ast.Attribute):
            return rec(v.value)
        if isinstance(v, ast.Call):
            f = v.func
            nm = f.attr if isinstance(f, ast.Attribute) else (f.id if isinstance(f, ast.Name) else None)
            seen.add(nm)
            if nm == 'substract_mems':
                return True
            if nm in ('expr_simp', 'ExprInt') or (nm or '').startswith('uint') or (nm or '').startswith('int'):
                return all(rec(a) for a in v.args)
            return False
        return False
    return rec(val), seen


def double_eval_rule(R, ea, methods, eh, efe):
    """Values live in terms of the INITIAL symbols (init_eax, @32[init_esi]..).  Evaluating a value again substitutes the CURRENT bindings into
    it: a pointer loaded from memory that has since been overwritten is re-read, a binding that mentions a bound identifier is substituted twice.
    Taint analysis per function, parameters tainted through the self-call graph (fixpoint):
      sources  self.pool[..] / machine.pool[..] / pool_mem[..] contents and keys, results of eval_expr / get_reg, parameters that receive one;
      sink     the first argument of <x>.eval_expr(..)."""
    funcs = dict(('eval_abs.' + k, v) for k, v in methods.items())
    funcs['emul_helper.emul_full_expr'] = efe
    mods = {'emul_helper.emul_full_expr': eh}

    def is_source(e):
        t = u(e)
        if isinstance(e, ast.Subscript) and (t.startswith('self.pool[') or t.startswith('machine.pool[') or '.pool_mem[' in t):
            return True
        if isinstance(e, ast.Call) and isinstance(e.func, ast.Attribute) and e.func.attr in ('eval_expr', 'get_reg', 'eval_expr_no_cache', 'find_mem_by_addr'):
            return True
        return False

    def tainted_expr(e, tainted):
        for n in ast.walk(e):
            if is_source(n):
                return True
            if isinstance(n, ast.Name) and n.id in tainted:
                return True
        return False
    param_taint = dict((q, set()) for q in funcs)

    def scan(q, f, on_sink=None, on_call=None):
        """One pass in source order: `cur` is the set of names whose latest binding (textually before the point) is a value."""
        cur = set(param_taint[q])
        const_checked = set()
        nodes = sorted([n for n in walk_no_nested(f) if hasattr(n, 'lineno')], key=lambda n: (n.lineno, n.col_offset))
        for n in nodes:
            if isinstance(n, ast.Assign):
                is_t = tainted_expr(n.value, cur)
                for t in n.targets:
                    names = [t] if isinstance(t, ast.Name) else ([x for x in t.elts if isinstance(x, ast.Name)] if isinstance(t, (ast.Tuple, ast.List)) else [])
                    for x in names:
                        (cur.add if is_t else cur.discard)(x.id)
            elif isinstance(n, ast.Expr) and isinstance(n.value, ast.Call) and isinstance(n.value.func, ast.Attribute) and n.value.func.attr == 'append' \
                    and isinstance(n.value.func.value, ast.Name) and n.value.args and tainted_expr(n.value.args[0], cur):
                cur.add(n.value.func.value.id)
            elif isinstance(n, ast.For):
                is_t = tainted_expr(n.iter, cur) or 'self.pool' in u(n.iter)
                for x in ast.walk(n.target):
                    if isinstance(x, ast.Name):
                        (cur.add if is_t else cur.discard)(x.id)
            elif isinstance(n, ast.If) and isinstance(n.test, ast.UnaryOp) and isinstance(n.test.op, ast.Not) and isinstance(n.test.operand, ast.Call) \
                    and u(n.test.operand.func) == 'isinstance' and len(n.test.operand.args) == 2 and u(n.test.operand.args[1]) == 'ExprInt' \
                    and isinstance(n.test.operand.args[0], ast.Name) and any(isinstance(x, ast.Raise) for x in n.body):
                # sanitizer: a name checked to be a constant evaluates to itself
                cur.discard(n.test.operand.args[0].id)
            elif isinstance(n, ast.Call) and isinstance(n.func, ast.Attribute):
                if n.func.attr == 'eval_expr' and n.args and on_sink:
                    on_sink(n, set(cur))
                elif on_call and u(n.func.value) in ('self', 'machine') and ('eval_abs.' + n.func.attr) in funcs and n.func.attr not in ('eval_expr', 'eval_expr_no_cache'):
                    on_call(n, set(cur))
    changed = [True]
    rounds = 0
    while changed[0] and rounds < 10:
        changed[0] = False
        rounds += 1
        for q, f in funcs.items():
            def on_call(n, cur):
                cq = 'eval_abs.' + n.func.attr
                params = [a.arg for a in funcs[cq].args.args[1:]]
                for i, a in enumerate(n.args):
                    if i < len(params) and tainted_expr(a, cur) and params[i] not in param_taint[cq]:
                        param_taint[cq].add(params[i])
                        changed[0] = True
            scan(q, f, on_call=on_call)
    n_sinks = [0]
    for q, f in sorted(funcs.items()):
        mod_ = mods.get(q, ea)

        def on_sink(n, cur, q=q, mod_=mod_):
            n_sinks[0] += 1
            a = n.args[0]
            inst = '%s:eval_expr(%s)' % (q, norm(a)[:60])
            if tainted_expr(a, cur):
                why = [x.id for x in ast.walk(a) if isinstance(x, ast.Name) and x.id in cur]
                R.violation(inst, 'double-eval:%s:%s' % (q, norm(a)[:70]), '%s evaluates `%s` again: %s already a value (pool content / evaluation result / stored address); the second '
                            'evaluation reads the current memory and bindings' % (q, norm(a)[:70], ('`%s` is' % why[0]) if why else 'it is'), where(mod_, n),
                            witness="mov eax,[esi]; mov [esi],ebx; mov [eax],ecx; mov byte ptr [eax],dl; mov edi,[eax] loses bytes 1..3 of ecx")
            else:
                R.ok(inst, sample='%s: eval_expr(%s) on an unevaluated sub-expression' % (q, norm(a)[:40]))
        scan(q, f, on_sink=on_sink)
    if n_sinks[0] < 8:
        raise AnalysisError('only %d eval_expr call sites found' % n_sinks[0])


def lookback_rule(ctx, R, ea, methods):
    """get_mem_overlapping enumerates the addresses a - k .. a + size/8 - 1 and looks each up among the stored cells.  A cell of w bytes that starts k < w
    bytes before the access overlaps it, so k has to reach w_max - 1 where w_max is the widest cell the lifter stores (the size table of dict_to_Expr:
    128 bits for xmm, 80 for an x87 tbyte, 64 for mm / cmpxchg8b).  Accepted: a constant lower bound of at least that, or a bound computed from the sizes
    of the cells in the pool."""
    from ..consteval import Evaluator, NotConst
    fn = methods.get('get_mem_overlapping')
    if fn is None:
        raise AnalysisError('eval_abs.get_mem_overlapping not found')
    # (a for statement or a comprehension over range(-k, size//8))
    ranges = [n for n in walk_no_nested(fn) if isinstance(n, ast.Call) and u(n.func) == 'range' and len(n.args) == 2 and 'size' in u(n.args[1])]
    if len(ranges) != 1:
        raise AnalysisError('get_mem_overlapping: the enumeration of the reachable addresses (range(-k, e.size//8)) was not found (%d candidates)' % len(ranges))
    low = ranges[0].args[0]
    loops = [ranges[0]]
    # the widest cell: the memory-size table of the lifter
    sem = ctx.mod('ia32_sem')
    d2e = sem.func('dict_to_Expr')
    widest = 0
    for n in ast.walk(d2e):
        if isinstance(n, ast.Assign) and u(n.targets[0]) == 'msize' and isinstance(n.value, ast.Dict):
            widest = max(v.value for v in n.value.values if isinstance(v, ast.Constant) and isinstance(v.value, int))
    if not widest:
        raise AnalysisError('dict_to_Expr: the memory-size table msize was not found')
    need = widest // 8 - 1
    inst = 'get_mem_overlapping: look-back'
    try:
        k = -Evaluator({}).ev(low)
    except NotConst:
        k = None
    if k is not None:
        if k >= need:
            R.ok(inst, sample='looks back %d bytes, the widest cell has %d' % (k, widest // 8))
        else:
            R.violation(inst, 'lookback:%d' % k, 'get_mem_overlapping looks back %d bytes for cells that start before the access; the lifter stores cells of up to %d bits (%d bytes), so an '
                        'access %d..%d bytes into such a cell does not find it: a load returns the initial memory, a store leaves the stale cell'
                        % (k, widest, widest // 8, k + 1, widest // 8 - 1), where(ea, loops[0]), witness="movdqa [ebx], xmm0 ; mov al, [ebx+9] gives al = @8[ebx+9], the initial memory")
        return
    # computed bound: must come from the sizes of the cells of the pool
    names = [x.id for x in ast.walk(low) if isinstance(x, ast.Name)]
    srcs = [a.value for a in walk_no_nested(fn) if isinstance(a, ast.Assign) and len(a.targets) == 1 and isinstance(a.targets[0], ast.Name) and a.targets[0].id in names]
    txt = ' ; '.join(u(x) for x in srcs)
    if srcs:
        # (whatever the bound is computed from: it is evaluated on a pool holding a cell of the widest kind and judged by its value)
        # evaluate it on a pool holding a 128-bit and an 8-bit cell
        from ..consteval import Obj, Native

        def _C(size):
            o = Obj('cell')
            o.size = size
            o.get_size = Native(lambda: size)
            return o
        pool = Obj('pool')
        pool.pool_mem = {'a': (_C(widest), _C(widest)), 'b': (_C(8), _C(8))}
        self_ = Obj('self')
        self_.pool = pool
        loc = {'self': self_}
        try:
            ev = Evaluator({})
            # the assignments the bound is computed from, with the locals those read in turn (in source order)
            need_names = set(names)
            assigns_ = [a for a in walk_no_nested(fn) if isinstance(a, ast.Assign) and len(a.targets) == 1 and isinstance(a.targets[0], ast.Name)]
            grew = True
            while grew:
                grew = False
                for a in assigns_:
                    if a.targets[0].id in need_names:
                        for x in ast.walk(a.value):
                            if isinstance(x, ast.Name) and x.id not in need_names and any(b.targets[0].id == x.id for b in assigns_):
                                need_names.add(x.id)
                                grew = True
            for a in sorted(assigns_, key=lambda a_: a_.lineno):
                if a.targets[0].id in need_names:
                    try:
                        ev.exec_stmts([a], loc)
                    except NotConst:
                        if a.targets[0].id in names:
                            raise
            k = -ev.ev(low, loc)
        except NotConst as e:
            raise AnalysisError('get_mem_overlapping: the look-back bound is outside the evaluable subset: %s' % e)
        if k >= need:
            R.ok(inst, sample='the look-back is computed from the pool: %d bytes for a pool whose widest cell has %d' % (k, widest // 8))
        else:
            R.violation(inst, 'lookback:computed:%d' % k, 'with a %d-bit cell in the pool get_mem_overlapping looks back %d bytes only (needed: %d)' % (widest, k, need), where(ea, loops[0]))
    else:
        raise AnalysisError('get_mem_overlapping: unmodelled look-back bound %s' % u(low))


def remainder_rule(ctx, R):
    from .. import simpeval as SE
    from ..consteval import Evaluator, Obj, NotConst, PyRaise
    run = SE.results(ctx)['run']
    ea = ctx.mod('eval_abs')
    fn = ea.methods('eval_abs').get('substract_mems')
    if fn is None:
        raise AnalysisError('eval_abs.substract_mems not found')
    x = SE.ExprId('x', 32)
    base = 0x40
    envs = [{'x': 0x1000, 'v': 0x8877665544332211}, {'x': 0xFFFFFFE0, 'v': 0xF1E2D3C4B5A69788}]
    n = 0
    for sa in (16, 32, 64):
        v = SE.ExprId('v', sa)
        a = SE.ExprMem(SE.Op('+', x, SE.C(base)), sa)
        for sb in (8, 16, 32, 64):
            for d in range(-8, 9):
                if not (d < sa // 8 and d + sb // 8 > 0):
                    continue                      # no overlap: the function is not called
                b = SE.ExprMem(SE.Op('+', x, SE.C((base + d) & 0xFFFFFFFF)), sb)
                me = Obj('self')
                me.pool = {a: v}
                inst = 'remainder[%d-bit cell, %d-bit store at %+d]' % (sa, sb, d)
                key = 'remainder:%s' % ('store-before' if d < 0 else 'store-at-start' if d == 0 else 'store-inside')
                try:
                    out = Evaluator(run.scope).call_user(fn, [me, a, b])
                except PyRaise as e:
                    R.violation(inst, key + ':raises', 'substract_mems raises %s for a %d-bit cell at x+%#x and a %d-bit store at x+%#x' % (e.exc_name, sa, base, sb, base + d), where(ea, fn))
                    continue
                except NotConst as e:
                    raise AnalysisError('eval_abs.substract_mems is outside the evaluable subset: %s' % e)
                n += 1
                problems = []
                if not isinstance(out, list):
                    problems.append('returns %r' % (out,))
                    out = []
                for env in envs:
                    want = {}
                    A = (env['x'] + base) & 0xFFFFFFFF
                    for i in range(sa // 8):
                        if not d <= i < d + sb // 8:
                            want[(A + i) & 0xFFFFFFFF] = (env['v'] >> (8 * i)) & 0xFF
                    got = {}
                    for item in out:
                        try:
                            cell, val = item
                            addr = SE.value(cell.f('arg'), env)
                            size = cell.f('size')
                            if SE.size_of(val) != size:
                                problems.append('the remainder %s holds a value of %d bits' % (SE.show(cell), SE.size_of(val)))
                            vv = SE.value(val, env)
                        except (SE.IllTyped, ValueError, TypeError, AttributeError) as e:
                            problems.append('a remainder is malformed (%s)' % e)
                            continue
                        for i in range(size // 8):
                            k_ = (addr + i) & 0xFFFFFFFF
                            if k_ in got:
                                problems.append('two remainders cover the byte at x+%#x' % ((k_ - env['x']) & 0xFFFFFFFF))
                            got[k_] = (vv >> (8 * i)) & 0xFF
                    if got != want and not problems:
                        miss = sorted(set(want) - set(got))
                        extra = sorted(set(got) - set(want))
                        if miss:
                            problems.append('the byte at x+%#x of the old cell is lost' % ((miss[0] - env['x']) & 0xFFFFFFFF))
                        elif extra:
                            problems.append('a remainder covers the byte at x+%#x, which the store overwrites or the cell never held' % ((extra[0] - env['x']) & 0xFFFFFFFF))
                        else:
                            k_ = [k2 for k2 in want if want[k2] != got[k2]][0]
                            problems.append('the byte at x+%#x is kept with the wrong bits of the old value' % ((k_ - env['x']) & 0xFFFFFFFF))
                    if problems:
                        break
                if problems:
                    R.violation(inst, key, 'a %d-bit store at x+%#x over the %d-bit cell at x+%#x: %s' % (sb, base + d, sa, base, problems[0]), where(ea, fn),
                                witness='mov [ebx], eax ; mov byte ptr [ebx+1], cl ; read @16[ebx+2]')
                else:
                    R.ok(inst, nontrivial=(n % 3 == 0), sample='%s: the uncovered bytes stay, each with its bits' % inst)



def lookup_key_rule(R, ea, methods):
    """Memory cells are kept under their *simplified* address (C06.D7 decides the writer).  Every address a method of eval_abs looks up in the cell table - `X in
    self.pool.pool_mem`, `self.pool.pool_mem[X]`, or X handed to a method whose parameter is looked up that way (find_mem_by_addr) - must therefore be simplified on
    every way it can reach the lookup: a local all of whose reaching assignments are expr_simp(..), a method of the class whose returns are, `.arg` of a stored cell,
    another such local.  `ptr = ptr + 1` inside the piece loop of a wide read-back is the classic slip: the first piece is found, every later one is not."""
    TABLE0 = ('self.pool.pool_mem',)
    cur = {'fn': None, 'names': TABLE0}

    class _T(object):
        def __contains__(self, txt):
            return txt in cur['names']
    TABLE = _T()

    def enter(fn):
        # locals of fn that are the table itself (`cells = self.pool.pool_mem`)
        names = set(TABLE0)
        for n in walk_no_nested(fn):
            if isinstance(n, ast.Assign) and len(n.targets) == 1 and isinstance(n.targets[0], ast.Name) and u(n.value) in TABLE0:
                names.add(n.targets[0].id)
        cur['fn'], cur['names'] = fn, names

    def lookup_params(fn):
        enter(fn)
        """indices (in the call's argument list) of the parameters fn looks up in the cell table itself"""
        ps = [a.arg for a in fn.args.args][1:]
        out = []
        for i, p in enumerate(ps):
            for n in walk_no_nested(fn):
                if isinstance(n, ast.Compare) and len(n.ops) == 1 and isinstance(n.ops[0], (ast.In, ast.NotIn)) and u(n.left) == p and u(n.comparators[0]) in TABLE:
                    out.append(i)
                    break
        return out
    lookup_methods = dict((name, lookup_params(fn)) for name, fn in methods.items())
    lookup_methods = dict((k, v) for k, v in lookup_methods.items() if v)

    def uses(fn, is_lookup_method):
        """(node, key expression) for every lookup of the cell table in fn"""
        enter(fn)
        own_params = set(a.arg for a in fn.args.args)
        for n in walk_no_nested(fn):
            key = None
            if isinstance(n, ast.Compare) and len(n.ops) == 1 and isinstance(n.ops[0], (ast.In, ast.NotIn)) and u(n.comparators[0]) in TABLE:
                key = n.left
            elif isinstance(n, ast.Subscript) and u(n.value) in TABLE and isinstance(n.ctx, ast.Load):
                key = n.slice
            elif isinstance(n, ast.Call) and isinstance(n.func, ast.Attribute) and u(n.func.value) == 'self' and n.func.attr in lookup_methods:
                for i in lookup_methods[n.func.attr]:
                    if i < len(n.args):
                        yield n, n.args[i]
                continue
            if key is not None:
                if isinstance(key, ast.Name) and key.id in own_params and is_lookup_method:
                    continue        # the parameter of a lookup method: its callers are checked
                yield n, key

    def simplified(fn, e, at, seen):
        """is expression e, evaluated at node `at` of fn, a simplified address on every reaching definition?  (reason if not)"""
        if isinstance(e, ast.Call) and u(e.func) == 'expr_simp':
            return None
        if isinstance(e, ast.Call) and isinstance(e.func, ast.Attribute) and u(e.func.value) == 'self' and e.func.attr in methods:
            f_ = methods[e.func.attr]
            ps = [a.arg for a in f_.args.args][1:]
            rets = [r for r in walk_no_nested(f_) if isinstance(r, ast.Return) and r.value is not None]
            for r in rets:
                if isinstance(r.value, ast.Name) and r.value.id in ps:
                    i = ps.index(r.value.id)
                    if i < len(e.args):
                        why = simplified(fn, e.args[i], at, seen)
                        if why:
                            return why
                    continue
                if isinstance(r.value, ast.Call) and u(r.value.func) == 'expr_simp':
                    continue
                return '%s returns %s' % (e.func.attr, u(r.value))
            return None if rets else '%s returns nothing' % e.func.attr
        if isinstance(e, ast.Attribute) and e.attr == 'arg' and isinstance(e.value, ast.Name):
            # .arg of a stored cell (a loop variable over the pool, a value taken from the table)
            for n in walk_no_nested(fn):
                if isinstance(n, ast.For) and e.value.id in [x.id for x in ast.walk(n.target) if isinstance(x, ast.Name)] and 'self.pool' in u(n.iter):
                    return None
            # a key of the table another method of the class returns (get_instr_mod): every memory cell that method builds must stand on a simplified address
            for n in walk_no_nested(fn):
                if isinstance(n, ast.For) and e.value.id in [x.id for x in ast.walk(n.target) if isinstance(x, ast.Name)] and isinstance(n.iter, ast.Name):
                    for a_ in walk_no_nested(fn):
                        if isinstance(a_, ast.Assign) and len(a_.targets) == 1 and u(a_.targets[0]) == n.iter.id and isinstance(a_.value, ast.Call) \
                                and isinstance(a_.value.func, ast.Attribute) and u(a_.value.func.value) == 'self' and a_.value.func.attr in methods:
                            m_ = methods[a_.value.func.attr]
                            cells_ = [c_ for c_ in walk_no_nested(m_) if isinstance(c_, ast.Call) and u(c_.func) == 'ExprMem' and c_.args]
                            if cells_ and all(simplified(m_, c_.args[0], c_, frozenset()) is None for c_ in cells_):
                                return None
                            return '%s builds memory cells on addresses that are not simplified' % a_.value.func.attr
            return '%s is the address of a cell that is not taken from the pool' % u(e)
        if isinstance(e, ast.Name):
            if e.id in seen:
                return None
            seen = seen | {e.id}
            defs = []
            for n in walk_no_nested(fn):
                if isinstance(n, ast.Assign):
                    for t in n.targets:
                        if isinstance(t, ast.Name) and t.id == e.id:
                            defs.append((n, n.value))
                if isinstance(n, ast.AugAssign) and isinstance(n.target, ast.Name) and n.target.id == e.id:
                    defs.append((n, n))
                if isinstance(n, (ast.For, ast.comprehension)) and isinstance(n.target, ast.Tuple):
                    for k_, t in enumerate(n.target.elts):
                        if isinstance(t, ast.Name) and t.id == e.id and isinstance(n.iter, ast.Name):
                            # for i, x in L: the k-th component of what is appended to L
                            for ap in walk_no_nested(fn):
                                if isinstance(ap, ast.Call) and isinstance(ap.func, ast.Attribute) and ap.func.attr == 'append' and u(ap.func.value) == n.iter.id and ap.args \
                                        and isinstance(ap.args[0], ast.Tuple) and k_ < len(ap.args[0].elts):
                                    defs.append((ap, ap.args[0].elts[k_]))
                                # L = [(i, f(i)) for i in ..]
                                if isinstance(ap, ast.Assign) and len(ap.targets) == 1 and u(ap.targets[0]) == n.iter.id and isinstance(ap.value, ast.ListComp) \
                                        and isinstance(ap.value.elt, ast.Tuple) and k_ < len(ap.value.elt.elts):
                                    defs.append((ap, ap.value.elt.elts[k_]))
            if not defs:
                if e.id in [a.arg for a in fn.args.args]:
                    return 'the parameter %s of %s' % (e.id, fn.name)
                return '%s has no assignment in %s' % (e.id, fn.name)
            for dn, dv in defs:
                if isinstance(dv, ast.AugAssign):
                    why = '%s (`%s`) is not simplified again' % (e.id, u(dv))
                else:
                    why = simplified(fn, dv, dn, seen)
                if why is None:
                    continue
                # an unsimplified assignment is harmless when the same block re-assigns the name, simplified, before the lookup can be reached
                blk = parent(dn)
                healed = False
                for fld in ('body', 'orelse', 'finalbody'):
                    lst = getattr(blk, fld, None)
                    if isinstance(lst, list) and dn in lst:
                        for later in lst[lst.index(dn) + 1:]:
                            if any(x is at for x in ast.walk(later)):
                                break
                            if isinstance(later, ast.Assign) and any(isinstance(t, ast.Name) and t.id == e.id for t in later.targets) and simplified(fn, later.value, later, seen) is None:
                                healed = True
                                break
                if not healed:
                    return why if ' ' in why else '%s = %s' % (e.id, why)
            return None
        return '`%s` is not the result of expr_simp' % u(e)
    n_sites = 0
    for name, fn in sorted(methods.items()):
        for node, key in uses(fn, name in lookup_methods):
            n_sites += 1
            inst = 'eval_abs.%s: %s' % (name, norm(node)[:70])
            why = simplified(fn, key, node, frozenset())
            if why is None:
                R.ok(inst, sample='%s looks %s up in the cell table: simplified on every reaching assignment' % (name, u(key)), nontrivial=True)
            else:
                R.violation(inst, 'lookup-key:%s:%s' % (name, u(key)), '%s looks `%s` up in the table of stored cells, which is keyed by simplified addresses, but %s: a cell stored at that '
                            'address is not found and the read-back takes the initial memory instead' % (name, u(key), why), where(ea, node),
                            witness='movb $0x11,1(%ebx); movb $0x22,2(%ebx); movw 1(%ebx),%ax')
    if n_sites < 3:
        raise AnalysisError('eval_abs: only %d lookups of the cell table were found' % n_sites)


def overlap_search_rule(R, ea, methods):
    """A store removes the parts of stored cells it covers: the per-cell loop of eval_instr (`for off, x in ov: .. substract_mems ..`) runs over what get_mem_overlapping
    finds.  Every binding of that list that reaches the loop is a call of get_mem_overlapping on the store, or an empty list under a test that establishes there is
    nothing to remove (the cell at the store's address has the *same* width; the pool is empty).  An empty list under an ordering test of the widths (`old.size <=
    op.size`) leaves the cells that start inside a wider store in the pool: the classic wrong fast path.  Any other guard stops the analysis."""
    ei = methods.get('eval_instr')
    hosts = [ei] + [methods[c.func.attr] for c in ast.walk(ei) if isinstance(c, ast.Call) and isinstance(c.func, ast.Attribute) and u(c.func.value) == 'self'
                    and c.func.attr in methods and c.func.attr not in ('get_instr_mod', 'get_mem_overlapping', 'substract_mems')]
    n = 0
    for h in hosts:
        for loop in walk_no_nested(h):
            if not (isinstance(loop, ast.For) and any(isinstance(x, ast.Call) and u(x.func) == 'self.substract_mems' for x in ast.walk(loop))):
                continue
            if any(isinstance(in_, ast.For) and in_ is not loop and any(isinstance(x, ast.Call) and u(x.func) == 'self.substract_mems' for x in ast.walk(in_)) for in_ in ast.walk(loop)):
                continue            # an outer loop (over the stores of the instruction): the per-cell loop is inside
            if isinstance(loop.iter, ast.Call) and u(loop.iter.func) == 'self.get_mem_overlapping':
                n += 1              # `for off, x in self.get_mem_overlapping(op):` - the loop runs over the search itself
                R.ok('%s: %s' % (h.name, norm(loop.iter)[:60]), sample='%s: the per-cell loop iterates over get_mem_overlapping directly' % h.name, nontrivial=True)
                continue
            if not isinstance(loop.iter, ast.Name):
                continue
            lst = loop.iter.id
            for a in walk_no_nested(h):
                if not (isinstance(a, ast.Assign) and len(a.targets) == 1 and u(a.targets[0]) == lst):
                    continue
                n += 1
                inst = '%s: %s' % (h.name, norm(a)[:60])
                if isinstance(a.value, ast.Call) and u(a.value.func) == 'self.get_mem_overlapping':
                    R.ok(inst, sample='%s: the cells a store covers come from get_mem_overlapping' % h.name, nontrivial=True)
                    continue
                if isinstance(a.value, ast.List) and not a.value.elts:
                    guards = []
                    p_ = parent(a)
                    while p_ is not None and p_ is not h:
                        if isinstance(p_, ast.If):
                            guards.append(p_.test)
                        p_ = parent(p_)
                    txt = ' and '.join(u(g) for g in guards)
                    cmps = [c for g in guards for c in ast.walk(g) if isinstance(c, ast.Compare) and ('size' in u(c))]
                    if any(isinstance(o, (ast.Lt, ast.LtE, ast.Gt, ast.GtE)) for c in cmps for o in c.ops):
                        R.violation(inst, 'overlap-search:skipped:%s' % h.name, '%s binds the list of overlapped cells to [] under `%s`: a stored cell of another width at the store\'s address does not '
                                    'mean nothing else is covered - cells that start inside a wider store stay in the pool and later reads return their old bytes' % (h.name, txt), where(ea, a),
                                    witness='movb %al,(%ebx); movb %ah,1(%ebx); movl %ecx,(%ebx); movzbl 1(%ebx),%edx')
                        continue
                    if cmps and all(isinstance(o, ast.Eq) for c in cmps for o in c.ops):
                        R.ok(inst, sample='%s: no search when the cell at the address has the same width (`%s`)' % (h.name, txt), nontrivial=True)
                        continue
                raise AnalysisError('%s: the list of overlapped cells is bound by `%s`, a form the overlap rule does not model' % (h.name, norm(a)[:80]))
    if not n:
        # the store path is written in a way this structural clause does not read: the interpreted histories of C07.D17 (store over store, same address at two widths) decide
        R.note('eval_instr: no per-cell loop over a named list of overlapped cells was found: the structural clause is skipped, C07.D17 decides the stores on the interpreted histories')
        R.ok('overlap-search: decided by C07.D17', nontrivial=False)

MUTANTS = [
    ('pool-membership-ignores-width', 'miasmx/expression/expression_eval_abstract.py', '        return self.pool_mem[k][0].get_size() == a.get_size()', '        return True', 'C07.D17'),

    ('store-fast-path-narrower-cell', 'miasmx/expression/expression_eval_abstract.py', "                ov = self.get_mem_overlapping(op)\n", "                old = self.find_mem_by_addr(op.arg)\n                if old is not None and old.size <= op.size:\n                    ov = []\n                else:\n                    ov = self.get_mem_overlapping(op)\n", 'C07.D16'),
    ('bigger-lookup-next-address-unsimplified', 'miasmx/expression/expression_eval_abstract.py', "                ptr = expr_simp(ExprOp('+', ptr, ExprInt(uint32(v.size//8))))", "                ptr = ExprOp('+', ptr, ExprInt(uint32(v.size//8)))", 'C07.D15'),
    ('substract-mems-tail-from-cell', 'miasmx/expression/expression_eval_abstract.py', "                ex = ExprOp('+', b.arg, ExprInt(uint32(b.size/8)))", "                ex = ExprOp('+', a.arg, ExprInt(uint32(b.size/8)))", 'C07.D13'),
    ('getreg-reeval', 'miasmx/expression/expression_eval_abstract.py', "        return self.pool[r]\n", "        return self.eval_expr(self.pool[r], {})\n", 'C07.D7'),
    ('overlap-addr-reeval', 'miasmx/expression/expression_eval_abstract.py', "            ex = expr_simp(e.arg - x)", "            ex = expr_simp(self.eval_expr(e.arg - x, eval_cache))", 'C07.D7'),
    ('rep-zf-symbolic-skip', 'miasmx/tools/emul_helper.py', "                if not isinstance(my_zf, ExprInt):\n                    # the termination test cannot be decided\n                    raise ValueError('Emulation fails for \"%s\". ZF value is %s'\n                        % (l, str(my_zf)))\n", "", 'C07.D5'),
    ('rep-cap-break', 'miasmx/tools/emul_helper.py', "                raise ValueError('Emulation fails for \"%s\". ECX value is too large: %s'\n                    % (l, str(my_ecx)))\n", "                break\n", 'C07.D5'),
    ('overlap-neg-position', 'miasmx/expression/expression_eval_abstract.py', "                        out.append((ee, 0, ee.get_size()))\n", "                        out.append((ee, off_base, off_base+ee.get_size()))\n", 'C07.D6'),
    ('overlap-unsorted', 'miasmx/expression/expression_eval_abstract.py', "                    out = sorted(out, key=lambda x:x[1])\n                    missing_slice", "                    missing_slice", 'C07.D6'),
    ('rest-slice-last', 'miasmx/expression/expression_eval_abstract.py', "        if last != stop:\n            o.append((b, stop))", "        if last != stop:\n            o.append((a, stop))", 'C07.D6'),
    ('rep-zf-before-dec', 'miasmx/tools/emul_helper.py', '            info = l.opmode, l.admode\n            machine.eval_instr(mov(info, ecx, ExprOp(\'-\', my_ecx, ExprInt(uint32(1)))))\n\n            if zf_w :\n                my_zf = machine.get_reg(zf)\n                if not isinstance(my_zf, ExprInt):\n                    # the termination test cannot be decided\n                    raise ValueError(\'Emulation fails for "%s". ZF value is %s\'\n                        % (l, str(my_zf)))\n                if 0xF3 in l.prefix and isinstance(my_zf, ExprInt) and my_zf.arg == 0:\n                    break\n                if 0xF2 in l.prefix and isinstance(my_zf, ExprInt) and my_zf.arg == 1:\n                    break\n',
     '            if zf_w :\n                my_zf = machine.get_reg(zf)\n                if not isinstance(my_zf, ExprInt):\n                    # the termination test cannot be decided\n                    raise ValueError(\'Emulation fails for "%s". ZF value is %s\'\n                        % (l, str(my_zf)))\n                if 0xF3 in l.prefix and isinstance(my_zf, ExprInt) and my_zf.arg == 0:\n                    break\n                if 0xF2 in l.prefix and isinstance(my_zf, ExprInt) and my_zf.arg == 1:\n                    break\n            info = l.opmode, l.admode\n            machine.eval_instr(mov(info, ecx, ExprOp(\'-\', my_ecx, ExprInt(uint32(1)))))\n\n', 'C07.D5'),
    ('rep-memdst-unbound', 'miasmx/tools/emul_helper.py', "        tsc_inc = 0\n        mem_dst = []\n", "        tsc_inc = 0\n", 'C07.D5'),
    ('pool-write-in-read-phase', 'miasmx/expression/expression_eval_abstract.py',
     '            elif isinstance(e.dst, ExprId):\n                pool_out[e.dst] = src\n',
     '            elif isinstance(e.dst, ExprId):\n                pool_out[e.dst] = src\n                self.pool[e.dst] = src\n', 'C07.D1'),
    ('reeval-on-store', 'miasmx/expression/expression_eval_abstract.py',
     '                tmp = tmp_ops[op]\n                tmp = expr_simp(tmp)\n', '                tmp = tmp_ops[op]\n                tmp = expr_simp(self.eval_expr(tmp, {}))\n', 'C07.D1'),
    ('zf-int-compare', 'miasmx/tools/emul_helper.py', 'isinstance(my_zf, ExprInt) and my_zf.arg == 0', 'my_zf == 0', 'C07.D2'),
    ('evalid-writes', 'miasmx/expression/expression_eval_abstract.py',
     '        if not e in self.pool:\n            return e\n        return self.pool[e]\n',
     '        if not e in self.pool:\n            self.pool[e] = e\n            return e\n        return self.pool[e]\n', 'C07.D1'),
    ('ecx-int-compare', 'miasmx/tools/emul_helper.py', '            if my_ecx.arg ==0:\n', '            if my_ecx ==0:\n', 'C07.D2'),
    ('remainders-outside-loop', 'miasmx/expression/expression_eval_abstract.py',
     '                    del(self.pool[x])\n                    for xx, yy in diff_mem:\n                        self.pool[xx] = yy\n',
     '                    del(self.pool[x])\n                for xx, yy in diff_mem:\n                    self.pool[xx] = yy\n', 'C07.D4'),
    ('instr-mod-late', 'miasmx/expression/expression_eval_abstract.py',
     '        tmp_ops = self.get_instr_mod(exprs)\n        mem_dst = []\n', '        mem_dst = []\n        del self.pool[exprs[0].dst]\n        tmp_ops = self.get_instr_mod(exprs)\n', 'C07.D1'),
    ('read-addr-not-widened', 'miasmx/expression/expression_eval_abstract.py', "        a_val = self.mem_addr(a_val)\n", "", 'C07.D10'),
    ('lookback-constant-3', 'miasmx/expression/expression_eval_abstract.py', "        for i in range(-back, e.size//8):", "        for i in range(-3, e.size//8):", 'C07.D11'),
    ('lookback-off-by-one', 'miasmx/expression/expression_eval_abstract.py', "+ [8])//8 - 1\n", "+ [8])//8 - 2\n", 'C07.D11'),
]
